//! C13 harness.
//!   h13 <out_dir> <tier>          ids/offsets case shards (leg `ids`, `reid`) + the impl-level oracle
//!   h13 replay <replay.json>      re-executes a recorded edit history and prints the difference
//!
//! Leg `ids`  : real syntax trees of corpus files (green shape, per-kind key-field ranges, widths) with
//!              the real `SyntaxNodeId` of every node (parent, kind, index, key fields) and its real
//!              absolute offset, printed as Coq cases for C13/Corr.v `check_ids`.
//! Leg `reid` : one live database, a file re-parsed after an edit: the model says which nodes keep
//!              their id; the implementation's node identity (the hash of the tracked struct behind
//!              `SyntaxNode`, observed through `Hash`) must agree pairwise.
//! Oracle     : the formula of the property. Seeded edit histories on ONE database vs a FRESH database
//!              per step on the same contents: diagnostics text, Sierra text and the (kind, offset,
//!              width) dump of every syntax node must be equal after every step.
use std::collections::HashMap;
use std::fmt::Write as _;
use std::hash::{Hash, Hasher};
use std::path::{Path, PathBuf};
use std::sync::Mutex;
use std::sync::atomic::{AtomicUsize, Ordering};
use std::time::Instant;

use cairo_lang_compiler::db::RootDatabase;
use cairo_lang_compiler::project::setup_project;
use cairo_lang_filesystem::db::FilesGroup;
use cairo_lang_filesystem::ids::{CrateInput, FileId, FileLongId};
use cairo_lang_filesystem::override_file_content;
use cairo_lang_parser::db::ParserGroup;
use cairo_lang_parser::utils::SimpleParserDatabase;
use cairo_lang_syntax::node::green::GreenNodeDetails;
use cairo_lang_syntax::node::ids::GreenId;
use cairo_lang_syntax::node::key_fields::key_fields_range;
use cairo_lang_syntax::node::kind::SyntaxKind;
use cairo_lang_syntax::node::{SyntaxNode, SyntaxNodeId};
use cairo_lang_utils::Intern;
use h13::{build_db, cairo_files, copy_dir, diagnostics_text, first_diff, fnv, sierra_text};
use salsa::Database;
use serde_json::{Value, json};
use vcommon::Rng;

// =====================================================================================================
// Coq printing of green trees and node ids
// =====================================================================================================

#[derive(Default)]
struct Interner {
    texts: HashMap<String, usize>,
    kinds: HashMap<u32, (String, usize, usize)>,
}
impl Interner {
    fn text(&mut self, s: &str) -> usize {
        let n = self.texts.len();
        *self.texts.entry(s.to_string()).or_insert(n)
    }
    fn kind(&mut self, k: SyntaxKind) -> u32 {
        let n = k as u32;
        self.kinds.entry(n).or_insert_with(|| {
            let r = key_fields_range(k);
            (format!("{k:?}"), r.start, r.end)
        });
        n
    }
}

fn coq_green<'db>(db: &'db dyn Database, g: GreenId<'db>, it: &mut Interner, out: &mut String) {
    let node = g.long(db);
    let k = it.kind(node.kind);
    match &node.details {
        GreenNodeDetails::Token(text) => {
            let t = text.long(db);
            let id = it.text(t);
            write!(out, "T {k} {id} {}", t.len()).unwrap();
        }
        GreenNodeDetails::Node { children, width } => {
            write!(out, "G {k} {} [", width.as_u32()).unwrap();
            for (i, c) in children.iter().enumerate() {
                if i > 0 {
                    out.push(';');
                }
                let leaf = matches!(c.long(db).details, GreenNodeDetails::Token(_));
                if !leaf {
                    out.push('(');
                }
                coq_green(db, *c, it, out);
                if !leaf {
                    out.push(')');
                }
            }
            out.push(']');
        }
    }
}

/// Records the bytes a `Hash` impl feeds: `SyntaxNode` hashes only the id of its tracked struct, so
/// the record is that identity (index and generation), which survives `&mut` access to the database.
#[derive(Default)]
struct Rec(Vec<u8>);
impl Hasher for Rec {
    fn finish(&self) -> u64 {
        0
    }
    fn write(&mut self, bytes: &[u8]) {
        self.0.extend_from_slice(bytes);
    }
}
fn identity_of(n: &SyntaxNode<'_>) -> u64 {
    let mut r = Rec::default();
    n.hash(&mut r);
    let mut v: u64 = 0xcbf29ce484222325;
    for b in &r.0 {
        v ^= *b as u64;
        v = v.wrapping_mul(0x100000001b3);
    }
    // injective for <= 8 recorded bytes
    if r.0.len() <= 8 {
        let mut x = 0u64;
        for (i, b) in r.0.iter().enumerate() {
            x |= (*b as u64) << (8 * i);
        }
        x
    } else {
        v
    }
}

struct Dump {
    tree: String,
    /// per node in preorder: (parent preorder index, kind, index, key fields, offset, width, identity)
    nodes: Vec<(Option<usize>, u32, usize, String, u32, u32, u64)>,
}

fn dump_tree<'db>(db: &'db dyn Database, root: SyntaxNode<'db>, it: &mut Interner, max_nodes: usize) -> Option<Dump> {
    let mut tree = String::new();
    coq_green(db, green_id_of(db, root), it, &mut tree);
    let mut nodes = vec![];
    let mut index_of: HashMap<SyntaxNode<'db>, usize> = HashMap::new();
    // preorder, children left to right
    let mut stack = vec![root];
    while let Some(n) = stack.pop() {
        let me = nodes.len();
        if me >= max_nodes {
            return None;
        }
        index_of.insert(n, me);
        let (parent, kind, index, key) = match n.raw_id(db) {
            SyntaxNodeId::Root(_) => (None, it.kind(n.kind(db)), 0usize, "[]".to_string()),
            SyntaxNodeId::Child { parent, kind, index, key_fields } => {
                let mut s = String::from("[");
                for (i, kf) in key_fields.iter().enumerate() {
                    if i > 0 {
                        s.push(';');
                    }
                    coq_green(db, *kf, it, &mut s);
                }
                s.push(']');
                (Some(*index_of.get(parent).expect("parent visited before child")), it.kind(*kind), *index, s)
            }
        };
        nodes.push((parent, kind, index, key, n.offset(db).as_u32(), n.width(db).as_u32(), identity_of(&n)));
        for c in n.get_children(db).iter().rev() {
            stack.push(*c);
        }
    }
    Some(Dump { tree, nodes })
}

fn green_id_of<'db>(db: &'db dyn Database, n: SyntaxNode<'db>) -> GreenId<'db> {
    // the green id of a node is not exposed; re-interning the (structurally equal) green node
    // yields the same interned id.
    n.green_node(db).clone().intern(db)
}

fn kinds_table(it: &Interner) -> String {
    let mut ks: Vec<_> = it.kinds.iter().collect();
    ks.sort();
    let rows: Vec<String> = ks.iter().map(|(k, (_, s, e))| format!("({k},({s}%nat,{e}%nat))")).collect();
    format!("[{}]", rows.join(";"))
}

fn coq_nodes(d: &Dump, with_identity: bool) -> String {
    let mut s = String::from("[");
    for (i, (p, k, idx, key, off, w, ident)) in d.nodes.iter().enumerate() {
        if i > 0 {
            s.push_str(";\n  ");
        }
        let p = match p {
            Some(p) => format!("(Some {p}%nat)"),
            None => "None".into(),
        };
        if with_identity {
            write!(s, "(Nd {p} {k} {idx} {key} {off} {w}, {ident})").unwrap();
        } else {
            write!(s, "Nd {p} {k} {idx} {key} {off} {w}").unwrap();
        }
    }
    s.push(']');
    s
}

const HEADER: &str = "From Coq Require Import List NArith ZArith.\nFrom C13 Require Import RedIds Corr.\nImport ListNotations.\nLocal Open Scope N_scope.\nNotation T := GTok.\nNotation G := GNode.\nNotation Nd := mk_inode.\n";

// ---------- leg ids ----------
fn leg_ids(out: &str, tier: &str, summary: &mut serde_json::Map<String, Value>, samples: &mut Vec<String>) {
    let mut files: Vec<PathBuf> = vec![];
    let (repo, vr) = (h13::repo(), h13::verif_root());
    for d in [format!("{repo}/examples"), format!("{vr}/corpus/C13"), format!("{vr}/corpus/C20"), format!("{repo}/corelib/src")] {
        files.extend(cairo_files(Path::new(&d)));
    }
    let mut rng = Rng::from_env();
    // Coq reads case files at a few KB/s: the budget is in nodes (about 50 bytes of Coq text each)
    let (max_files, max_bytes, max_nodes, budget) =
        if tier == "thorough" { (140, 40_000, 8_000, 80_000usize) } else { (36, 9_000, 2_500, 11_000usize) };
    // examples + corpus always; corelib files sampled by seed
    let (fixed, mut pool): (Vec<_>, Vec<_>) = files.into_iter().partition(|p| !p.starts_with(format!("{repo}/corelib")));
    let mut chosen = fixed;
    // a seeded rotation of the fixed part, so that different seeds read different example files first
    if !chosen.is_empty() {
        let r = rng.below(chosen.len() as u64) as usize;
        chosen.rotate_left(r);
    }
    chosen.retain(|p| std::fs::metadata(p).map(|m| m.len() as usize <= max_bytes).unwrap_or(false));
    chosen.truncate(max_files / 2);
    while chosen.len() < max_files && !pool.is_empty() {
        let i = rng.below(pool.len() as u64) as usize;
        let p = pool.swap_remove(i);
        if std::fs::metadata(&p).map(|m| m.len() as usize <= max_bytes).unwrap_or(false) {
            chosen.push(p);
        }
    }
    let db = RootDatabase::empty();
    let db: &dyn Database = &db;
    let (mut n_files, mut n_nodes, mut n_keyed, mut n_dup, mut skipped) = (0usize, 0usize, 0usize, 0usize, 0usize);
    let mut shard = 0usize;
    let mut cur: Vec<String> = vec![];
    let mut cur_nodes = 0usize;
    let mut it = Interner::default();
    let flush = |cur: &mut Vec<String>, it: &mut Interner, shard: &mut usize| {
        if cur.is_empty() {
            return;
        }
        let mut s = String::from(HEADER);
        writeln!(s, "Definition kr_tab : list (N * (nat * nat)) := {}.", kinds_table(it)).unwrap();
        for (i, c) in cur.iter().enumerate() {
            writeln!(s, "Definition case_{i} : id_case := {c}.").unwrap();
        }
        let names: Vec<String> = (0..cur.len()).map(|i| format!("case_{i}")).collect();
        writeln!(s, "Definition cases := [{}].", names.join("; ")).unwrap();
        writeln!(s, "Definition bad := Eval vm_compute in check_ids kr_tab cases.\nPrint bad.").unwrap();
        std::fs::write(format!("{out}/ids_{:03}.v", *shard), s).unwrap();
        *shard += 1;
        cur.clear();
        *it = Interner::default();
    };
    for p in &chosen {
        if n_nodes >= budget {
            break;
        }
        let file = FileLongId::OnDisk(p.clone()).intern(db);
        let Ok(root) = db.file_syntax(file) else {
            skipped += 1;
            continue;
        };
        let Some(d) = dump_tree(db, root, &mut it, max_nodes) else {
            skipped += 1;
            continue;
        };
        n_files += 1;
        n_nodes += d.nodes.len();
        n_keyed += d.nodes.iter().filter(|n| n.3 != "[]").count();
        n_dup += d.nodes.iter().filter(|n| n.2 > 0).count();
        if samples.len() < 3 {
            let n = d.nodes.iter().find(|n| n.2 > 0 && n.3 != "[]").or(d.nodes.iter().find(|n| n.3 != "[]"));
            if let Some(n) = n {
                samples.push(format!(
                    "ids: {} node kind={} index={} offset={} width={} key_fields={}",
                    p.display(),
                    it.kinds[&n.1].0,
                    n.2,
                    n.4,
                    n.5,
                    n.3.chars().take(80).collect::<String>()
                ));
            }
        }
        cur.push(format!("mk_case {} ({})\n  {}", n_files, d.tree, coq_nodes(&d, false)));
        cur_nodes += d.nodes.len();
        if cur_nodes > 1_500 {
            flush(&mut cur, &mut it, &mut shard);
            cur_nodes = 0;
        }
    }
    flush(&mut cur, &mut it, &mut shard);
    summary.insert("ids_files".into(), json!(n_files));
    summary.insert("ids_nodes".into(), json!(n_nodes));
    summary.insert("ids_nodes_with_key_fields".into(), json!(n_keyed));
    summary.insert("ids_nodes_with_index_gt0".into(), json!(n_dup));
    summary.insert("ids_files_skipped".into(), json!(skipped));
}

// =====================================================================================================
// Edit histories
// =====================================================================================================

#[derive(Clone, Debug)]
struct Splice {
    file: usize,
    start: usize,
    end: usize,
    text: String,
}
#[derive(Clone, Debug)]
enum Action {
    /// replace byte ranges of the current contents (one or more files), through overrides
    Edit(Vec<Splice>),
    /// remove the override of a file; `save`: write the current content to disk first
    Unset { file: usize, save: bool },
}
#[derive(Clone, Debug)]
struct Step {
    kind: String,
    action: Action,
    /// 0 = diagnostics then sierra, 1 = sierra then diagnostics, 2 = diagnostics only, 3 = sierra
    /// only, 4 = no query at this step
    query: u8,
    /// walk all syntax nodes (offsets) of the project files before the queries
    walk: bool,
}
impl Step {
    fn to_json(&self) -> Value {
        let action = match &self.action {
            Action::Edit(sp) => json!({"edit": sp.iter().map(|s| json!({"file": s.file, "start": s.start, "end": s.end, "text": s.text})).collect::<Vec<_>>()}),
            Action::Unset { file, save } => json!({"unset": {"file": file, "save": save}}),
        };
        json!({"kind": self.kind, "action": action, "query": self.query, "walk": self.walk})
    }
    fn from_json(v: &Value) -> Step {
        let a = &v["action"];
        let action = if let Some(e) = a.get("edit") {
            Action::Edit(
                e.as_array()
                    .unwrap()
                    .iter()
                    .map(|s| Splice {
                        file: s["file"].as_u64().unwrap() as usize,
                        start: s["start"].as_u64().unwrap() as usize,
                        end: s["end"].as_u64().unwrap() as usize,
                        text: s["text"].as_str().unwrap().to_string(),
                    })
                    .collect(),
            )
        } else {
            Action::Unset { file: a["unset"]["file"].as_u64().unwrap() as usize, save: a["unset"]["save"].as_bool().unwrap() }
        };
        Step {
            kind: v["kind"].as_str().unwrap_or("").to_string(),
            action,
            query: v["query"].as_u64().unwrap_or(0) as u8,
            walk: v["walk"].as_bool().unwrap_or(false),
        }
    }
}

struct FileState {
    path: PathBuf,
    disk: String,
    over: Option<String>,
    /// contents before syntax-breaking edits, for repairs
    good: Vec<String>,
}
impl FileState {
    fn cur(&self) -> &str {
        self.over.as_deref().unwrap_or(&self.disk)
    }
}

/// Landmarks of one file's current text, found with the real parser (on a scratch database).
#[derive(Default)]
struct Marks {
    /// (kind, start, end) without trivia
    terminals: Vec<(SyntaxKind, usize, usize)>,
    idents: Vec<(usize, usize)>,
    /// full spans (with trivia) of statements / items, and their list kind
    statements: Vec<(usize, usize)>,
    items: Vec<(usize, usize)>,
    /// offsets at which a statement / a module-level item can be inserted
    stmt_points: Vec<usize>,
    item_points: Vec<usize>,
    /// spans (without outer trivia) of inline macro invocations and attributes: code that is handed to
    /// a plugin and comes back as a generated (virtual) file with code mappings
    invocations: Vec<(usize, usize)>,
    /// element spans (without trivia) of every list-like node with >= 2 elements: members, variants,
    /// params, generic params, items, impl / trait items, match arms, ctor / pattern fields, statements,
    /// use lists, attributes, arguments, tuple elements
    lists: Vec<(String, Vec<(usize, usize)>)>,
    parse_errors: usize,
}

fn marks_of(text: &str) -> Marks {
    let db = SimpleParserDatabase::default();
    let (root, diags) = db.parse_virtual_with_diagnostics(text);
    let mut m = Marks { parse_errors: diags.get_all().len(), ..Default::default() };
    let dbr: &dyn Database = &db;
    for n in root.descendants(dbr) {
        let k = n.kind(dbr);
        let sp = n.span(dbr);
        let (s, e) = (sp.start.as_u32() as usize, sp.end.as_u32() as usize);
        if matches!(
            k,
            SyntaxKind::ExprInlineMacro
                | SyntaxKind::ItemInlineMacro
                | SyntaxKind::LegacyExprInlineMacro
                | SyntaxKind::LegacyItemInlineMacro
                | SyntaxKind::Attribute
        ) {
            let st = n.span_without_trivia(dbr);
            let (a, b) = (st.start.as_u32() as usize, st.end.as_u32() as usize);
            if b > a + 2 {
                m.invocations.push((a, b));
            }
        }
        let kname = format!("{k:?}");
        if kname.ends_with("List") || kname == "MatchArms" {
            let elems: Vec<(usize, usize)> = n
                .get_children(dbr)
                .iter()
                .filter(|c| !c.kind(dbr).is_terminal())
                .map(|c| {
                    let st = c.span_without_trivia(dbr);
                    (st.start.as_u32() as usize, st.end.as_u32() as usize)
                })
                .filter(|(a, b)| b > a)
                .collect();
            if elems.len() >= 2 {
                m.lists.push((kname, elems));
            }
        }
        if k.is_terminal() {
            let st = n.span_without_trivia(dbr);
            let (a, b) = (st.start.as_u32() as usize, st.end.as_u32() as usize);
            if b > a {
                m.terminals.push((k, a, b));
                if k == SyntaxKind::TerminalIdentifier {
                    m.idents.push((a, b));
                }
            }
        }
        match n.parent_kind(dbr) {
            Some(SyntaxKind::StatementList) => {
                if e > s {
                    m.statements.push((s, e));
                }
                m.stmt_points.push(e);
            }
            Some(SyntaxKind::ModuleItemList) => {
                if e > s {
                    m.items.push((s, e));
                }
                if n.grandparent_kind(dbr) == Some(SyntaxKind::SyntaxFile) {
                    m.item_points.push(e);
                }
            }
            Some(SyntaxKind::ImplItemList) | Some(SyntaxKind::TraitItemList) => {
                if e > s {
                    m.items.push((s, e));
                }
            }
            _ => {}
        }
        if k == SyntaxKind::StatementList {
            m.stmt_points.push(s);
        }
    }
    m.item_points.push(0);
    m
}

fn is_boundary(t: &str, i: usize) -> bool {
    t.is_char_boundary(i)
}

struct Gen<'a> {
    rng: &'a mut Rng,
    counter: usize,
    /// histories that concentrate on constructs carrying diagnostics (every phase), inserted before
    /// and between the existing ones, duplicated, moved, deleted
    diag_mode: bool,
    /// histories that edit INSIDE macro invocations / attributes (code expanded by plugins into
    /// generated files), keeping the outer extent where possible
    gen_mode: bool,
    /// (file, start of the invocation) of the last length-changing edit inside an invocation: the next
    /// step tends to cancel the length change elsewhere inside the same invocation
    pending_inside: Option<(usize, usize, i64)>,
    /// histories of permutation edits: the same multiset of things in another order
    perm_mode: bool,
    /// (file, content before the last permutation): the next step tends to swap back
    pending_perm: Option<(usize, String)>,
}

/// A self-contained statement that carries a diagnostic. `phase`: 0 lowering/borrow-check (also inside
/// generated functions: loops, while, for, closures), 1 semantic (incl. inline macros), 2 warning,
/// 3 parser. Some come in two forms: as an expression statement and as the initializer of a `let`
/// (a different syntax kind, so that the following statements keep their stable pointers).
fn diag_statement(rng: &mut Rng, n: usize, phase: u64, has_nodrop: bool) -> (String, &'static str) {
    let mv = |v: &str| format!("let {v}: Array<felt252> = array![]; let _{v}1 = {v}; let _{v}2 = {v};");
    match phase {
        0 => match rng.below(if has_nodrop { 9 } else { 8 }) {
            0 => (format!("loop {{ {} break; }};", mv(&format!("la{n}"))), "lowering:loop-stmt"),
            1 => (format!("let _z{n}: felt252 = loop {{ {} break 1; }};", mv(&format!("lb{n}"))), "lowering:loop-let"),
            2 => (format!("let mut i{n}: u8 = 0; while i{n} < 2 {{ {} i{n} += 1; }};", mv(&format!("lw{n}"))), "lowering:while"),
            3 => (format!("for _e{n} in array![1_u8, 2].span() {{ {} }};", mv(&format!("lf{n}"))), "lowering:for"),
            4 => (format!("let _c{n} = |x{n}: felt252| {{ {} x{n} }};", mv(&format!("lc{n}"))), "lowering:closure-let"),
            5 => (mv(&format!("lp{n}")), "lowering:plain-move"),
            6 => (
                format!("let _y{n}: felt252 = if true {{ loop {{ {} break 2; }} }} else {{ 3 }};", mv(&format!("ln{n}"))),
                "lowering:loop-in-if-let",
            ),
            7 => (
                format!("let _k{n} = |y{n}: felt252| {{ loop {{ {} break; }}; y{n} }};", mv(&format!("lk{n}"))),
                "lowering:loop-in-closure",
            ),
            _ => (format!("let _nd{n} = NoDrop {{ x: {n} }};"), "lowering:not-dropped"),
        },
        1 => match rng.below(8) {
            0 => (format!("let _s{n}: u8 = 300_u16;"), "semantic:type-mismatch"),
            1 => (format!("let _s{n} = undefined_{n};"), "semantic:unknown-identifier"),
            2 => (format!("let _s{n}: felt252 = 1 + true;"), "semantic:operand"),
            3 => (format!("no_such_function_{n}();"), "semantic:unknown-function"),
            4 => (format!("let _m{n} = array![1, true];"), "semantic:in-array-macro"),
            5 => (format!("let _p{n} = format!(\"{{}} {{}}\", {n});"), "plugin:format-args"),
            6 => (format!("unknown_macro_{n}!(1);"), "semantic:unknown-inline-macro"),
            _ => (format!("println!(\"{{}}\", not_defined_{n});"), "semantic:in-println"),
        },
        2 => match rng.below(3) {
            0 => (format!("let unused_{n} = {n};"), "warning:unused-variable"),
            1 => (format!("let mut w{n}: u8 = 0; while w{n} < 1 {{ let dead_{n} = 5; w{n} += 1; }};"), "warning:unused-in-loop"),
            _ => (format!("let shadow_{n} = 1; let shadow_{n} = 2;"), "warning:unused-shadowed"),
        },
        _ => match rng.below(3) {
            0 => (format!("let _q{n} = (1 + ;"), "parser:missing-operand"),
            1 => ("let = 5;".to_string(), "parser:missing-pattern"),
            _ => (format!("let _q{n} = [1, 2;"), "parser:unclosed-bracket"),
        },
    }
}

/// The (trimmed) byte ranges of the comma-separated arguments between `from` and the closing delimiter
/// before `end`, at nesting depth 0, string literals respected.
fn top_level_args(text: &str, from: usize, end: usize) -> Option<Vec<(usize, usize)>> {
    let b = text.as_bytes();
    let close = end.checked_sub(1)?;
    if from >= close {
        return None;
    }
    let (mut depth, mut in_str, mut start) = (0i32, false, from);
    let mut res = vec![];
    let push = |a: usize, z: usize, res: &mut Vec<(usize, usize)>| {
        let t = &text[a..z];
        let lead = t.len() - t.trim_start().len();
        let trail = t.len() - t.trim_end().len();
        if a + lead < z - trail {
            res.push((a + lead, z - trail));
        }
    };
    let mut i = from;
    while i < close {
        let c = b[i];
        if in_str {
            if c == b'\\' {
                i += 1;
            } else if c == b'"' {
                in_str = false;
            }
        } else {
            match c {
                b'"' => in_str = true,
                b'(' | b'[' | b'{' => depth += 1,
                b')' | b']' | b'}' => depth -= 1,
                b',' if depth == 0 => {
                    push(start, i, &mut res);
                    start = i + 1;
                }
                _ => {}
            }
        }
        i += 1;
    }
    push(start, close, &mut res);
    if res.iter().all(|(a, z)| text.is_char_boundary(*a) && text.is_char_boundary(*z)) { Some(res) } else { None }
}

/// A self-contained module-level item that carries diagnostics.
fn diag_item(rng: &mut Rng, n: usize) -> (String, &'static str) {
    let mv = |v: &str| format!("let {v}: Array<felt252> = array![]; let _{v}1 = {v}; let _{v}2 = {v};");
    match rng.below(8) {
        0 => (
            format!(
                "fn low_{n}() {{\n    loop {{ {} break; }};\n    let _z: felt252 = loop {{ {} break 1; }};\n}}\n",
                mv("a"),
                mv("b")
            ),
            "item:two-loops",
        ),
        1 => (
            format!("fn clo_{n}() -> felt252 {{\n    let c = |x: felt252| {{ {} x }};\n    let d = |x: felt252| {{ {} x }};\n    c(1) + d(2)\n}}\n", mv("a"), mv("b")),
            "item:two-closures",
        ),
        2 => (format!("fn sem_{n}() -> u8 {{\n    let _a: u8 = 300_u16;\n    undefined_{n}\n}}\n"), "item:semantic"),
        3 => (format!("#[derive(NoSuchDerive{n})]\nstruct Pd{n} {{\n    a: felt252,\n}}\n"), "item:plugin-derive"),
        4 => (format!("#[inline(maybe)]\nfn inl_{n}() {{}}\n"), "item:inline-args"),
        5 => (format!("fn warn_{n}() -> felt252 {{\n    let unused_a = 1;\n    let unused_b = 2;\n    3\n}}\n"), "item:warnings"),
        6 => (format!("fn syn_{n}() {{\n    let = 5;\n    let _b = (1 + ;\n}}\n"), "item:parser"),
        _ => (format!("const BAD_{n}: u8 = 300;\nconst BAD2_{n}: felt252 = undefined_{n};\n"), "item:consts"),
    }
}

impl Gen<'_> {
    fn fresh(&mut self) -> usize {
        self.counter += 1;
        self.counter
    }

    /// Produces the next step for the given state. Always returns something applicable.
    fn step_ex(&mut self, files: &[FileState], last: bool, broken: bool, good: Option<&Vec<String>>) -> Step {
        // a project that no longer compiles is brought back to its last error-free contents with some
        // probability, so that long histories keep producing Sierra
        if let (true, Some(g), false) = (broken, good, self.diag_mode || self.gen_mode || self.perm_mode) {
            if self.rng.below(100) < 35 {
                let sp: Vec<Splice> = files
                    .iter()
                    .enumerate()
                    .filter(|(i, f)| f.cur() != g[*i])
                    .map(|(i, f)| Splice { file: i, start: 0, end: f.cur().len(), text: g[i].clone() })
                    .collect();
                if !sp.is_empty() {
                    let query = if last { self.rng.below(2) as u8 } else { self.rng.below(2) as u8 };
                    return Step { kind: "repair:restore-project".into(), action: Action::Edit(sp), query, walk: self.rng.below(3) == 0 };
                }
            }
        }
        self.step(files, last)
    }

    fn step(&mut self, files: &[FileState], last: bool) -> Step {
        let query = if last {
            self.rng.below(2) as u8
        } else {
            match self.rng.below(20) {
                0..=6 => 0,
                7..=11 => 1,
                12..=14 => 2,
                15..=17 => 3,
                _ => 4,
            }
        };
        let walk = self.rng.below(3) == 0;
        if self.perm_mode {
            // Sierra and diagnostics, in either order
            let query = query % 2;
            if let Some((pf, before)) = self.pending_perm.take() {
                if self.rng.below(10) < 5 && files[pf].cur() != before {
                    let len = files[pf].cur().len();
                    return Step {
                        kind: "permute:swap-back".into(),
                        action: Action::Edit(vec![Splice { file: pf, start: 0, end: len, text: before }]),
                        query,
                        walk,
                    };
                }
            }
            for _ in 0..40 {
                let f = self.rng.below(files.len() as u64) as usize;
                let text = files[f].cur().to_string();
                let m = marks_of(&text);
                let r = match self.rng.below(100) {
                    0..=84 => self.permute(f, &text, &m),
                    85..=90 => self.trivia(f, &text, &m),
                    91..=95 => self.rename(files, f, &text, &m),
                    _ => self.unset(files, f),
                };
                if let Some((kind, action)) = r {
                    return Step { kind, action, query, walk };
                }
            }
        }
        if self.gen_mode {
            let query = if query >= 3 { (query - 3).min(1) } else { query };
            for _ in 0..40 {
                // prefer the file of a pending length change
                let f = match self.pending_inside {
                    Some((pf, _, _)) if self.rng.below(10) < 8 => pf,
                    _ => self.rng.below(files.len() as u64) as usize,
                };
                let text = files[f].cur().to_string();
                let m = marks_of(&text);
                let r = match self.rng.below(100) {
                    0..=79 => self.inside_invocation(f, &text, &m),
                    80..=85 => self.insert_diag_statement(f, &files[f], &text, &m),
                    86..=89 => self.duplicate(f, &text, &m),
                    90..=92 => self.delete(f, &text, &m),
                    93..=96 => self.trivia(f, &text, &m),
                    _ => self.unset(files, f),
                };
                if let Some((kind, action)) = r {
                    return Step { kind, action, query, walk };
                }
            }
        }
        if self.diag_mode {
            // always ask for the diagnostics (full ordered text is compared)
            let query = if query >= 3 { (query - 3).min(1) } else { query };
            for _ in 0..40 {
                let f = self.rng.below(files.len() as u64) as usize;
                let text = files[f].cur().to_string();
                let m = marks_of(&text);
                let r = match self.rng.below(100) {
                    0..=44 => self.insert_diag_statement(f, &files[f], &text, &m),
                    45..=52 => self.insert_diag_item(f, &m),
                    53..=62 => self.duplicate(f, &text, &m),
                    63..=72 => self.delete(f, &text, &m),
                    73..=80 => self.move_statement(f, &text, &m),
                    81..=85 => self.move_item(f, &text, &m),
                    86..=91 => self.trivia(f, &text, &m),
                    92..=95 => self.rename(files, f, &text, &m),
                    _ => self.unset(files, f),
                };
                if let Some((kind, action)) = r {
                    return Step { kind, action, query, walk };
                }
            }
        }
        for _ in 0..40 {
            let f = self.rng.below(files.len() as u64) as usize;
            let text = files[f].cur().to_string();
            let m = marks_of(&text);
            let choice = self.rng.below(100);
            let r = match choice {
                0..=13 => self.trivia(f, &text, &m),
                14..=25 => self.rename(files, f, &text, &m),
                26..=37 => self.insert(f, &text, &m),
                38..=47 => self.delete(f, &text, &m),
                48..=57 => self.duplicate(f, &text, &m),
                58..=63 => self.move_item(f, &text, &m),
                64..=75 => self.break_syntax(f, &text, &m),
                76..=87 => self.repair(files, f),
                _ => self.unset(files, f),
            };
            if let Some((kind, action)) = r {
                return Step { kind, action, query, walk };
            }
        }
        // fallback: a trailing comment
        let f = 0;
        let n = self.fresh();
        let len = files[f].cur().len();
        Step {
            kind: "trivia:append-comment".into(),
            action: Action::Edit(vec![Splice { file: f, start: len, end: len, text: format!("\n// edit {n}\n") }]),
            query,
            walk,
        }
    }

    fn trivia(&mut self, f: usize, text: &str, m: &Marks) -> Option<(String, Action)> {
        if m.terminals.is_empty() {
            return None;
        }
        let n = self.fresh();
        let (_, a, b) = *self.rng.pick(&m.terminals);
        let at = if self.rng.bool() { a } else { b };
        let (kind, ins) = match self.rng.below(6) {
            0 => ("trivia:space", " ".to_string()),
            1 => ("trivia:newline", "\n".to_string()),
            2 => ("trivia:blank-lines", "\n\n\n".to_string()),
            3 => ("trivia:comment", format!(" // c{n}\n")),
            4 => ("trivia:tab", "\t".to_string()),
            _ => {
                // comment line before the line of this token
                let ls = text[..a].rfind('\n').map(|i| i + 1).unwrap_or(0);
                return Some((
                    "trivia:comment-line".into(),
                    Action::Edit(vec![Splice { file: f, start: ls, end: ls, text: format!("// line comment {n} é\n") }]),
                ));
            }
        };
        Some((kind.into(), Action::Edit(vec![Splice { file: f, start: at, end: at, text: ins }])))
    }

    fn rename(&mut self, files: &[FileState], f: usize, text: &str, m: &Marks) -> Option<(String, Action)> {
        if m.idents.is_empty() {
            return None;
        }
        let (a, b) = *self.rng.pick(&m.idents);
        let old = &text[a..b];
        if old == "main" || old == "self" || old == "super" || old == "crate" {
            return None;
        }
        let n = self.fresh();
        let new = if self.rng.below(4) == 0 { format!("r{n}") } else { format!("{old}_r{n}") };
        if self.rng.below(3) == 0 {
            // one occurrence only (usually breaks name resolution: diagnostics appear / disappear)
            return Some(("rename:one-occurrence".into(), Action::Edit(vec![Splice { file: f, start: a, end: b, text: new }])));
        }
        let mut sp = vec![];
        for (fi, fs) in files.iter().enumerate() {
            let t = fs.cur();
            let mm = if fi == f { None } else { Some(marks_of(t)) };
            let ids = mm.as_ref().map(|x| &x.idents).unwrap_or(&m.idents);
            for (x, y) in ids {
                if &t[*x..*y] == old {
                    sp.push(Splice { file: fi, start: *x, end: *y, text: new.clone() });
                }
            }
        }
        Some(("rename:all-occurrences".into(), Action::Edit(sp)))
    }

    fn insert(&mut self, f: usize, _text: &str, m: &Marks) -> Option<(String, Action)> {
        let n = self.fresh();
        if self.rng.bool() && !m.stmt_points.is_empty() {
            let at = *self.rng.pick(&m.stmt_points);
            let s = match self.rng.below(5) {
                0 => format!("\n    let _i{n} = {n};"),
                1 => format!("\n    let _i{n}: felt252 = {n} + {n};"),
                2 => format!("\n    {n} + {n};"),
                3 => format!("\n    const _C{n}: felt252 = {n};"),
                _ => format!("\n    let _i{n} = undefined_name_{n};"),
            };
            return Some(("insert:statement".into(), Action::Edit(vec![Splice { file: f, start: at, end: at, text: s }])));
        }
        let at = *self.rng.pick(&m.item_points);
        let s = match self.rng.below(6) {
            0 => format!("\nfn added_{n}() -> felt252 {{\n    {n}\n}}\n"),
            1 => format!("\nconst ADDED_{n}: felt252 = {n};\n"),
            2 => format!("\n#[derive(Drop)]\nstruct Added{n} {{\n    a: felt252,\n    b: u32,\n}}\n"),
            3 => format!("\nfn added_{n}(x: u32) -> u32 {{\n    let y = x + {n};\n    y * 2\n}}\n"),
            4 => format!("\nfn added_{n}() -> u8 {{\n    {n}000_u8\n}}\n"),
            _ => format!("\nmod added_{n} {{\n    pub fn f() -> felt252 {{\n        {n}\n    }}\n}}\n"),
        };
        Some(("insert:item".into(), Action::Edit(vec![Splice { file: f, start: at, end: at, text: s }])))
    }

    fn delete(&mut self, f: usize, _text: &str, m: &Marks) -> Option<(String, Action)> {
        let (kind, pool) = if self.rng.bool() { ("delete:statement", &m.statements) } else { ("delete:item", &m.items) };
        if pool.is_empty() {
            return None;
        }
        let (a, b) = *self.rng.pick(pool);
        Some((kind.into(), Action::Edit(vec![Splice { file: f, start: a, end: b, text: String::new() }])))
    }

    fn duplicate(&mut self, f: usize, text: &str, m: &Marks) -> Option<(String, Action)> {
        let (kind, pool) = if self.rng.bool() { ("duplicate:statement", &m.statements) } else { ("duplicate:item", &m.items) };
        if pool.is_empty() {
            return None;
        }
        let (a, b) = *self.rng.pick(pool);
        Some((kind.into(), Action::Edit(vec![Splice { file: f, start: b, end: b, text: text[a..b].to_string() }])))
    }

    /// The phase of the construct follows the file (low*/sem*/warn*/syn*), so that e.g. functions with
    /// lowering diagnostics are not silenced by a semantic error next to them; other files: any phase.
    fn insert_diag_statement(&mut self, f: usize, fs: &FileState, text: &str, m: &Marks) -> Option<(String, Action)> {
        if m.stmt_points.is_empty() {
            return None;
        }
        let stem = fs.path.file_stem().map(|s| s.to_string_lossy().to_string()).unwrap_or_default();
        let natural = if stem.starts_with("low") {
            Some(0)
        } else if stem.starts_with("sem") {
            Some(1)
        } else if stem.starts_with("warn") {
            Some(2)
        } else if stem.starts_with("syn") {
            Some(3)
        } else {
            None
        };
        let phase = match natural {
            Some(p) if self.rng.below(10) < 9 => p,
            _ => *self.rng.pick(&[0u64, 0, 0, 1, 1, 2, 2, 3]),
        };
        let n = self.fresh();
        let (stmt, kind) = diag_statement(self.rng, n, phase, text.contains("struct NoDrop"));
        let at = *self.rng.pick(&m.stmt_points);
        Some((format!("insert-diag:{kind}"), Action::Edit(vec![Splice { file: f, start: at, end: at, text: format!("\n    {stmt}") }])))
    }

    /// Edits inside (or just before) a macro invocation / attribute. Trivia positions are the bytes
    /// inside the invocation that belong to no terminal; boundaries are starts/ends of terminals.
    fn inside_invocation(&mut self, f: usize, text: &str, m: &Marks) -> Option<(String, Action)> {
        if m.invocations.is_empty() {
            return None;
        }
        // the invocation: the one with a pending length change, if it still starts where it did
        let pending = self.pending_inside.filter(|(pf, _, _)| *pf == f);
        let (s, e) = match pending.and_then(|(_, ps, _)| m.invocations.iter().find(|(a, _)| *a == ps)) {
            Some(x) if self.rng.below(10) < 8 => *x,
            _ => *self.rng.pick(&m.invocations),
        };
        let inner: Vec<(SyntaxKind, usize, usize)> = m.terminals.iter().filter(|(_, a, b)| *a >= s && *b <= e).cloned().collect();
        if inner.len() < 3 {
            return None;
        }
        let bytes = text.as_bytes();
        let in_terminal = |p: usize| inner.iter().any(|(_, a, b)| p >= *a && p < *b);
        let word = |c: u8| c.is_ascii_alphanumeric() || c == b'_' || c == b'\'' || c == b'"';
        // single spaces in trivia whose removal does not glue two words together
        let spaces: Vec<usize> = (s + 1..e.saturating_sub(1))
            .filter(|p| bytes[*p] == b' ' && !in_terminal(*p) && !(word(bytes[*p - 1]) && word(bytes[*p + 1])))
            .collect();
        // boundaries strictly inside, after the opening delimiter
        let open = inner.iter().position(|(k, _, _)| {
            matches!(k, SyntaxKind::TerminalLParen | SyntaxKind::TerminalLBrack | SyntaxKind::TerminalLBrace)
        });
        let first_inner = open.map(|i| inner[i].2).unwrap_or(inner[0].2);
        let bounds: Vec<usize> = inner
            .iter()
            .flat_map(|(_, a, b)| [*a, *b])
            .filter(|p| *p >= first_inner && *p < e && text.is_char_boundary(*p))
            .collect();
        let line_start = text[..s].rfind('\n').map(|i| i + 1).unwrap_or(0);
        let choice = if pending.is_some() && self.rng.below(10) < 7 { 100 } else { self.rng.below(100) };
        let n = self.fresh();
        match choice {
            100 => {
                // cancel the pending length change inside the same invocation
                let (_, _, delta) = pending.unwrap();
                self.pending_inside = None;
                if delta < 0 {
                    let q = *self.rng.pick(&bounds);
                    Some(("inside:insert-space(cancelling)".into(), Action::Edit(vec![Splice { file: f, start: q, end: q, text: " ".into() }])))
                } else {
                    let p = *self.rng.pick(if spaces.is_empty() { return None } else { &spaces });
                    Some(("inside:delete-space(cancelling)".into(), Action::Edit(vec![Splice { file: f, start: p, end: p + 1, text: String::new() }])))
                }
            }
            0..=24 => {
                // (a) a space moves inside the invocation: same outer extent, same length
                let p = *self.rng.pick(if spaces.is_empty() { return None } else { &spaces });
                let q = *self.rng.pick(&bounds);
                if q == p || q == p + 1 {
                    return None;
                }
                Some((
                    "inside:move-space".into(),
                    Action::Edit(vec![
                        Splice { file: f, start: p, end: p + 1, text: String::new() },
                        Splice { file: f, start: q, end: q, text: " ".into() },
                    ]),
                ))
            }
            25..=36 => {
                let p = *self.rng.pick(if spaces.is_empty() { return None } else { &spaces });
                self.pending_inside = Some((f, s, -1));
                Some(("inside:delete-space".into(), Action::Edit(vec![Splice { file: f, start: p, end: p + 1, text: String::new() }])))
            }
            37..=48 => {
                let q = *self.rng.pick(&bounds);
                self.pending_inside = Some((f, s, 1));
                Some(("inside:insert-space".into(), Action::Edit(vec![Splice { file: f, start: q, end: q, text: " ".into() }])))
            }
            49..=54 => {
                // (b) lengths change inside: a comment (ends the line) or several blanks
                let q = *self.rng.pick(&bounds);
                let t = if self.rng.bool() { format!(" // in{n}\n        ") } else { "   ".to_string() };
                Some(("inside:insert-trivia".into(), Action::Edit(vec![Splice { file: f, start: q, end: q, text: t }])))
            }
            55..=69 => {
                // (c) an identifier inside gets another name of the same length
                let ids: Vec<(usize, usize)> = inner
                    .iter()
                    .filter(|(k, a, _)| *k == SyntaxKind::TerminalIdentifier && *a >= first_inner)
                    .map(|(_, a, b)| (*a, *b))
                    .collect();
                let (a, b) = *self.rng.pick(if ids.is_empty() { return None } else { &ids });
                let old = &text[a..b];
                let last = old.as_bytes()[old.len() - 1];
                let repl = if last == b'q' { b'k' } else { b'q' };
                let mut new = old.as_bytes().to_vec();
                let k = new.len() - 1;
                new[k] = repl;
                Some(("inside:rename-same-length".into(), Action::Edit(vec![Splice { file: f, start: a, end: b, text: String::from_utf8(new).ok()? }])))
            }
            70..=81 => {
                // (d) two arguments of equal length change places
                let args = top_level_args(text, first_inner, e)?;
                let mut pairs = vec![];
                for i in 0..args.len() {
                    for j in i + 1..args.len() {
                        let (x, y) = (&text[args[i].0..args[i].1], &text[args[j].0..args[j].1]);
                        if x.len() == y.len() && x != y {
                            pairs.push((i, j));
                        }
                    }
                }
                let (i, j) = *self.rng.pick(if pairs.is_empty() { return None } else { &pairs });
                let (x, y) = (text[args[i].0..args[i].1].to_string(), text[args[j].0..args[j].1].to_string());
                Some((
                    "inside:swap-equal-length-args".into(),
                    Action::Edit(vec![
                        Splice { file: f, start: args[i].0, end: args[i].1, text: y },
                        Splice { file: f, start: args[j].0, end: args[j].1, text: x },
                    ]),
                ))
            }
            82..=89 => {
                // (e) the same kind of edit before the invocation, on its line
                if self.rng.bool() {
                    let q = line_start + self.rng.below((s - line_start + 1) as u64) as usize;
                    if !text.is_char_boundary(q) || (q > 0 && q < text.len() && word(bytes[q - 1]) && word(bytes[q])) {
                        return None;
                    }
                    Some(("before:insert-space".into(), Action::Edit(vec![Splice { file: f, start: q, end: q, text: " ".into() }])))
                } else {
                    let cands: Vec<usize> = (line_start..s).filter(|p| bytes[*p] == b' ' && (*p == line_start || bytes[*p - 1] == b' ')).collect();
                    let p = *self.rng.pick(if cands.is_empty() { return None } else { &cands });
                    Some(("before:delete-space".into(), Action::Edit(vec![Splice { file: f, start: p, end: p + 1, text: String::new() }])))
                }
            }
            _ => {
                // a space moves from before the invocation into it (or back): the outer start shifts
                let cands: Vec<usize> = (line_start..s).filter(|p| bytes[*p] == b' ' && (*p == line_start || bytes[*p - 1] == b' ')).collect();
                let p = *self.rng.pick(if cands.is_empty() { return None } else { &cands });
                let q = *self.rng.pick(&bounds);
                Some((
                    "before:move-space-inside".into(),
                    Action::Edit(vec![
                        Splice { file: f, start: p, end: p + 1, text: String::new() },
                        Splice { file: f, start: q, end: q, text: " ".into() },
                    ]),
                ))
            }
        }
    }

    /// Two elements of one list change places (adjacent or distant); everything between them, the
    /// separators and the trivia stay.
    fn permute(&mut self, f: usize, text: &str, m: &Marks) -> Option<(String, Action)> {
        if m.lists.is_empty() {
            return None;
        }
        // every kind of list gets the same chance, whatever its frequency in the file
        let mut kinds: Vec<&String> = m.lists.iter().map(|(k, _)| k).collect();
        kinds.sort();
        kinds.dedup();
        // declaration-level lists (layouts, indices, signatures, item orders) get most of the picks
        let decl: Vec<&String> = kinds
            .iter()
            .filter(|k| {
                matches!(
                    k.as_str(),
                    "MemberList" | "VariantList" | "ParamList" | "GenericParamList" | "ImplItemList" | "TraitItemList" | "ModuleItemList"
                )
            })
            .cloned()
            .collect();
        let kind = if !decl.is_empty() && self.rng.below(10) < 6 { (*self.rng.pick(&decl)).clone() } else { (*self.rng.pick(&kinds)).clone() };
        let cands: Vec<&(String, Vec<(usize, usize)>)> = m.lists.iter().filter(|(k, _)| *k == kind).collect();
        let (_, elems) = *self.rng.pick(&cands);
        let n = elems.len();
        let (i, j, how) = if n == 2 || self.rng.bool() {
            let i = self.rng.below((n - 1) as u64) as usize;
            (i, i + 1, "adjacent")
        } else {
            let i = self.rng.below((n - 2) as u64) as usize;
            let j = i + 2 + self.rng.below((n - i - 2) as u64) as usize;
            (i, j, "distant")
        };
        let (x, y) = (text[elems[i].0..elems[i].1].to_string(), text[elems[j].0..elems[j].1].to_string());
        if x == y || elems[i].1 > elems[j].0 {
            return None;
        }
        self.pending_perm = Some((f, text.to_string()));
        Some((
            format!("permute:{kind}:{how}"),
            Action::Edit(vec![
                Splice { file: f, start: elems[i].0, end: elems[i].1, text: y },
                Splice { file: f, start: elems[j].0, end: elems[j].1, text: x },
            ]),
        ))
    }

    fn insert_diag_item(&mut self, f: usize, m: &Marks) -> Option<(String, Action)> {
        let n = self.fresh();
        let (item, kind) = diag_item(self.rng, n);
        let at = *self.rng.pick(&m.item_points);
        Some((format!("insert-diag:{kind}"), Action::Edit(vec![Splice { file: f, start: at, end: at, text: format!("\n{item}") }])))
    }

    fn move_statement(&mut self, f: usize, text: &str, m: &Marks) -> Option<(String, Action)> {
        if m.statements.is_empty() || m.stmt_points.is_empty() {
            return None;
        }
        let (a, b) = *self.rng.pick(&m.statements);
        let to = *self.rng.pick(&m.stmt_points);
        if to > a && to < b {
            return None;
        }
        Some((
            "move:statement".into(),
            Action::Edit(vec![
                Splice { file: f, start: a, end: b, text: String::new() },
                Splice { file: f, start: to, end: to, text: text[a..b].to_string() },
            ]),
        ))
    }

    fn move_item(&mut self, f: usize, text: &str, m: &Marks) -> Option<(String, Action)> {
        if m.items.is_empty() || m.item_points.is_empty() {
            return None;
        }
        let (a, b) = *self.rng.pick(&m.items);
        let to = *self.rng.pick(&m.item_points);
        if to > a && to < b {
            return None;
        }
        let body = text[a..b].to_string();
        // two splices in one file; applied from the higher offset down
        Some((
            "move:item".into(),
            Action::Edit(vec![
                Splice { file: f, start: a, end: b, text: String::new() },
                Splice { file: f, start: to, end: to, text: body },
            ]),
        ))
    }

    fn break_syntax(&mut self, f: usize, text: &str, m: &Marks) -> Option<(String, Action)> {
        if m.terminals.is_empty() {
            return None;
        }
        let n = self.fresh();
        match self.rng.below(5) {
            0 | 1 => {
                // delete a punctuation / keyword terminal
                let cands: Vec<_> = m.terminals.iter().filter(|(k, _, _)| *k != SyntaxKind::TerminalIdentifier).collect();
                if cands.is_empty() {
                    return None;
                }
                let (k, a, b) = **self.rng.pick(&cands);
                Some((format!("break:delete-{k:?}"), Action::Edit(vec![Splice { file: f, start: a, end: b, text: String::new() }])))
            }
            2 => {
                let (_, a, _) = *self.rng.pick(&m.terminals);
                let tok = *self.rng.pick(&["(", "}", "{", ")", "fn", ";", "::", "\"", "'", "<", "let", "@", "0x", "#["]);
                Some((format!("break:insert-{tok}"), Action::Edit(vec![Splice { file: f, start: a, end: a, text: format!("{tok} ") }])))
            }
            3 => {
                // truncate the file inside a token
                let (_, a, b) = *self.rng.pick(&m.terminals);
                let mut at = a + (self.rng.below((b - a) as u64) as usize);
                while !is_boundary(text, at) {
                    at -= 1;
                }
                Some(("break:truncate".into(), Action::Edit(vec![Splice { file: f, start: at, end: text.len(), text: String::new() }])))
            }
            _ => {
                let (_, a, _) = *self.rng.pick(&m.terminals);
                Some((
                    "break:garbage".into(),
                    Action::Edit(vec![Splice { file: f, start: a, end: a, text: format!("§{n} ") }]),
                ))
            }
        }
    }

    fn repair(&mut self, files: &[FileState], f: usize) -> Option<(String, Action)> {
        // prefer a file that currently has a stack of good versions
        let cand: Vec<usize> = (0..files.len()).filter(|i| !files[*i].good.is_empty()).collect();
        let f = if cand.is_empty() { f } else { *self.rng.pick(&cand) };
        let g = files[f].good.last()?;
        let cur = files[f].cur();
        if g == cur {
            return None;
        }
        Some(("repair:restore".into(), Action::Edit(vec![Splice { file: f, start: 0, end: cur.len(), text: g.clone() }])))
    }

    fn unset(&mut self, files: &[FileState], f: usize) -> Option<(String, Action)> {
        let cand: Vec<usize> = (0..files.len()).filter(|i| files[*i].over.is_some()).collect();
        if cand.is_empty() {
            // set an override equal to the disk content (a no-op for the contents, not for the inputs)
            let t = files[f].cur();
            return Some(("override:set-identical".into(), Action::Edit(vec![Splice { file: f, start: 0, end: t.len(), text: t.to_string() }])));
        }
        let f = *self.rng.pick(&cand);
        let save = self.rng.bool();
        Some((if save { "override:save-and-unset" } else { "override:unset-revert" }.into(), Action::Unset { file: f, save }))
    }
}

fn apply_splices(text: &str, sp: &[&Splice]) -> String {
    let mut v: Vec<&Splice> = sp.to_vec();
    // apply from the end so offsets stay valid; stable for equal starts
    v.sort_by(|a, b| b.start.cmp(&a.start));
    let mut t = text.to_string();
    for s in v {
        let (a, b) = (s.start.min(t.len()), s.end.min(t.len()));
        if t.is_char_boundary(a) && t.is_char_boundary(b) && a <= b {
            t.replace_range(a..b, &s.text);
        }
    }
    t
}

// =====================================================================================================
// Running a history: one live database against a fresh one per step
// =====================================================================================================

struct Project {
    name: String,
    /// directory given to `setup_project` (contains cairo_project.toml) or a single file
    src: PathBuf,
}

fn file_id<'db>(db: &'db dyn Database, p: &Path) -> FileId<'db> {
    FileLongId::OnDisk(p.to_path_buf()).intern(db)
}

fn set_override(db: &mut RootDatabase, p: &Path, content: Option<&str>) {
    let db_mut: &mut dyn Database = db;
    let fid = file_id(db_mut, p);
    let c: Option<std::sync::Arc<str>> = content.map(|s| s.into());
    override_file_content!(db_mut, fid, c);
}

/// (kind, offset, width) of every node of every project file, through the public `SyntaxNode` API.
fn tree_dump(db: &RootDatabase, files: &[FileState]) -> String {
    let r = vcommon::catch(std::panic::AssertUnwindSafe(|| {
        let dbr: &dyn Database = db;
        let mut s = String::new();
        for f in files {
            let fid = file_id(dbr, &f.path);
            writeln!(s, "file {}", f.path.file_name().unwrap().to_string_lossy()).unwrap();
            let Ok(root) = dbr.file_syntax(fid) else {
                s.push_str("no syntax\n");
                continue;
            };
            for n in root.descendants(dbr) {
                let sp = n.span_without_trivia(dbr);
                writeln!(
                    s,
                    "{:?} off={} w={} text={}..{}",
                    n.kind(dbr),
                    n.offset(dbr).as_u32(),
                    n.width(dbr).as_u32(),
                    sp.start.as_u32(),
                    sp.end.as_u32()
                )
                .unwrap();
            }
        }
        s
    }));
    r.unwrap_or_else(|e| format!("PANIC in tree walk: {e} at {}\n", vcommon::last_panic_location()))
}

#[derive(Default, Clone)]
struct Stats {
    steps: usize,
    kinds: HashMap<String, usize>,
    diag_compared: usize,
    sierra_compared: usize,
    tree_compared: usize,
    steps_with_diagnostics: usize,
    steps_with_sierra: usize,
    distinct_states: std::collections::HashSet<u64>,
    outputs: std::collections::HashSet<u64>,
    /// steps whose diagnostics carry >= 2 entries of a phase: [parser, semantic, lowering, warning, plugin]
    multi_diag: [usize; 5],
    diag_constructs: HashMap<String, usize>,
    panics_both: usize,
    fresh_ms: u128,
    incr_ms: u128,
}

struct Failure {
    step: usize,
    what: String,
    line: usize,
    incremental: String,
    fresh: String,
}

fn setup(work: &Path, proj: &Project) -> (PathBuf, Vec<FileState>) {
    let _ = std::fs::remove_dir_all(work);
    std::fs::create_dir_all(work).unwrap();
    // the database identifies files by path: use one canonical spelling everywhere
    let work = &work.canonicalize().unwrap();
    let root = if proj.src.is_dir() {
        copy_dir(&proj.src, work).expect("copy project");
        work.to_path_buf()
    } else {
        std::fs::create_dir_all(work).unwrap();
        let d = work.join(proj.src.file_name().unwrap());
        std::fs::copy(&proj.src, &d).unwrap();
        d
    };
    let files = cairo_files(work)
        .into_iter()
        .map(|p| {
            let p = p.canonicalize().unwrap();
            let disk = std::fs::read_to_string(&p).unwrap();
            FileState { path: p, disk, over: None, good: vec![] }
        })
        .collect();
    (root, files)
}

/// The on-disk files the database reads for the given crates (paths as the database spells them).
fn project_files(db: &RootDatabase, inputs: &[CrateInput]) -> Vec<PathBuf> {
    use cairo_lang_defs::db::DefsGroup;
    let mut res = vec![];
    for c in CrateInput::into_crate_ids(db, inputs.to_vec()) {
        for m in db.crate_modules(c) {
            if let Ok(fs) = db.module_files(*m) {
                for f in fs {
                    if let FileLongId::OnDisk(p) = f.long(db) {
                        if !res.contains(p) {
                            res.push(p.clone());
                        }
                    }
                }
            }
        }
    }
    res
}

fn open_db(root: &Path) -> (RootDatabase, Vec<CrateInput>) {
    let mut db = build_db(None);
    let inputs = setup_project(&mut db, root).expect("setup_project");
    (db, inputs)
}

/// Executes `steps` (pre-recorded) or generates up to `n` steps with `gen`. Returns the executed
/// steps and the first failure, if any.
fn run_history(
    work: &Path,
    proj: &Project,
    n: usize,
    mut generator: Option<Gen<'_>>,
    recorded: &[Step],
    stats: &mut Stats,
    verbose: bool,
) -> (Vec<Step>, Option<Failure>) {
    let (root, mut files) = setup(work, proj);
    let (mut db, inputs) = open_db(&root);
    // only files the database really reads take part (and their paths must be the database's)
    let known = project_files(&db, &inputs);
    files.retain(|f| known.contains(&f.path));
    assert!(!files.is_empty(), "no project file of {} is known to the database: {:?}", proj.name, known);
    // warm the live database on the initial contents
    let d0 = diagnostics_text(&db, &inputs);
    let s0 = sierra_text(&db, &inputs);
    if verbose {
        println!("initial: {} diagnostics lines, {} sierra lines", d0.lines().count(), s0.lines().count());
    }
    let mut done: Vec<Step> = vec![];
    let mut broken = d0.contains("error");
    let mut last_good: Option<Vec<String>> = if broken { None } else { Some(files.iter().map(|f| f.cur().to_string()).collect()) };
    for i in 0..n {
        let step = match generator.as_mut() {
            Some(g) => g.step_ex(&files, i + 1 == n, broken, last_good.as_ref()),
            None => match recorded.get(i) {
                Some(s) => s.clone(),
                None => break,
            },
        };
        // ---- apply to the live database ----
        match &step.action {
            Action::Edit(sp) => {
                let mut touched: Vec<usize> = sp.iter().map(|s| s.file).collect();
                touched.sort();
                touched.dedup();
                for f in touched {
                    let mine: Vec<&Splice> = sp.iter().filter(|s| s.file == f).collect();
                    let old = files[f].cur().to_string();
                    let new = apply_splices(&old, &mine);
                    if step.kind.starts_with("break") && marks_of(&old).parse_errors == 0 {
                        files[f].good.push(old);
                    }
                    if step.kind.starts_with("repair") {
                        files[f].good.pop();
                    }
                    set_override(&mut db, &files[f].path, Some(&new));
                    files[f].over = Some(new);
                }
            }
            Action::Unset { file, save } => {
                let f = *file;
                if *save {
                    let cur = files[f].cur().to_string();
                    std::fs::write(&files[f].path, &cur).unwrap();
                    files[f].disk = cur;
                }
                set_override(&mut db, &files[f].path, None);
                files[f].over = None;
            }
        }
        *stats.kinds.entry(step.kind.clone()).or_insert(0) += 1;
        if let Some(k) = step.kind.strip_prefix("insert-diag:") {
            *stats.diag_constructs.entry(k.to_string()).or_insert(0) += 1;
        }
        if step.kind.starts_with("permute:") {
            *stats.diag_constructs.entry(step.kind.clone()).or_insert(0) += 1;
        }
        if step.kind.starts_with("inside:") || step.kind.starts_with("before:") {
            *stats.diag_constructs.entry(format!("invocation/{}", step.kind)).or_insert(0) += 1;
        }
        stats.steps += 1;
        let state_hash = files.iter().fold(0u64, |h, f| h.wrapping_mul(31).wrapping_add(fnv(f.cur())));
        stats.distinct_states.insert(state_hash);
        done.push(step.clone());
        if step.query == 4 && !step.walk {
            continue;
        }
        // ---- the fresh database on the same contents ----
        let t = Instant::now();
        let (mut fresh, finputs) = open_db(&root);
        for f in &files {
            if let Some(o) = &f.over {
                set_override(&mut fresh, &f.path, Some(o));
            }
        }
        let want_diag = matches!(step.query, 0 | 1 | 2);
        let want_sierra = matches!(step.query, 0 | 1 | 3);
        let fd = if want_diag { diagnostics_text(&fresh, &finputs) } else { String::new() };
        let fs = if want_sierra { sierra_text(&fresh, &finputs) } else { String::new() };
        let ft = if step.walk { tree_dump(&fresh, &files) } else { String::new() };
        stats.fresh_ms += t.elapsed().as_millis();
        drop(fresh);
        // ---- the live database ----
        let t = Instant::now();
        let it = if step.walk { tree_dump(&db, &files) } else { String::new() };
        let (id, is) = match step.query {
            0 | 2 => {
                let d = diagnostics_text(&db, &inputs);
                let s = if want_sierra { sierra_text(&db, &inputs) } else { String::new() };
                (d, s)
            }
            1 | 3 => {
                let s = sierra_text(&db, &inputs);
                let d = if want_diag { diagnostics_text(&db, &inputs) } else { String::new() };
                (d, s)
            }
            _ => (String::new(), String::new()),
        };
        stats.incr_ms += t.elapsed().as_millis();
        if verbose {
            println!(
                "step {i} {:28} query={} walk={} diag_lines={} sierra_lines={}",
                step.kind,
                step.query,
                step.walk,
                fd.lines().count(),
                fs.lines().count()
            );
        }
        stats.outputs.insert(fnv(&fd) ^ fnv(&fs).rotate_left(17));
        if want_diag {
            broken = fd.contains("error");
            let count = |pred: &dyn Fn(&str) -> bool| fd.lines().filter(|l| pred(l)).count();
            let c = [
                count(&|l| l.starts_with("error[E1")),
                count(&|l| l.starts_with("error[E0") || (l.starts_with("error[E2") && !l.starts_with("error[E2200]"))),
                count(&|l| l.starts_with("error[E3")),
                count(&|l| l.starts_with("warning[")),
                count(&|l| l.starts_with("error[E2200]")),
            ];
            for (i, n) in c.iter().enumerate() {
                if *n >= 2 {
                    stats.multi_diag[i] += 1;
                }
            }
            if !broken {
                last_good = Some(files.iter().map(|f| f.cur().to_string()).collect());
            }
            stats.diag_compared += 1;
            if fd.lines().count() > 1 {
                stats.steps_with_diagnostics += 1;
            }
            if fd.starts_with("PANIC") && id.starts_with("PANIC") {
                stats.panics_both += 1;
            }
        }
        if want_sierra {
            stats.sierra_compared += 1;
            if !fs.starts_with("NO SIERRA") && !fs.starts_with("PANIC") {
                stats.steps_with_sierra += 1;
            }
        }
        if step.walk {
            stats.tree_compared += 1;
        }
        for (what, a, b) in [("diagnostics", &id, &fd), ("sierra", &is, &fs), ("syntax-node offsets", &it, &ft)] {
            if let Some((line, x, y)) = first_diff(a, b) {
                return (done, Some(Failure { step: i, what: what.into(), line, incremental: x, fresh: y }));
            }
        }
    }
    (done, None)
}

// ---------- leg reid: node identity across a re-parse in one live database ----------
fn leg_reid(out: &str, tier: &str, summary: &mut serde_json::Map<String, Value>, samples: &mut Vec<String>) {
    let mut rng = Rng::from_env();
    rng.next();
    let n_cases = if tier == "thorough" { 30 } else { 7 };
    let srcs: Vec<PathBuf> = [format!("{}/examples", h13::repo()), format!("{}/corpus/C13", h13::verif_root())]
        .iter()
        .flat_map(|d| cairo_files(Path::new(d)))
        .collect();
    let work = PathBuf::from(format!("{out}/../work/reid"));
    let _ = std::fs::remove_dir_all(&work);
    std::fs::create_dir_all(&work).unwrap();
    let mut cases: Vec<String> = vec![];
    let mut it = Interner::default();
    let (mut kept, mut fresh_ids, mut total) = (0usize, 0usize, 0usize);
    let mut g = Gen { rng: &mut rng, counter: 0, diag_mode: false, gen_mode: false, pending_inside: None, perm_mode: false, pending_perm: None };
    for c in 0..n_cases {
        let src = &srcs[g.rng.below(srcs.len() as u64) as usize];
        let text = std::fs::read_to_string(src).unwrap();
        if text.len() > if tier == "thorough" { 5_000 } else { 2_000 } {
            continue;
        }
        let path = work.join(format!("f{c}.cairo"));
        std::fs::write(&path, &text).unwrap();
        let path = path.canonicalize().unwrap();
        let mut db = RootDatabase::empty();
        let d1 = {
            let dbr: &dyn Database = &db;
            let Ok(root) = dbr.file_syntax(file_id(dbr, &path)) else { continue };
            match dump_tree(dbr, root, &mut it, 20_000) {
                Some(d) => d,
                None => continue,
            }
        };
        // one or two random edits of any kind
        let mut fs = vec![FileState { path: path.clone(), disk: text.clone(), over: None, good: vec![] }];
        let mut kinds = vec![];
        for _ in 0..(1 + g.rng.below(2)) {
            let st = g.step(&fs, false);
            if let Action::Edit(sp) = &st.action {
                let mine: Vec<&Splice> = sp.iter().collect();
                let new = apply_splices(fs[0].cur(), &mine);
                fs[0].over = Some(new);
                kinds.push(st.kind.clone());
            }
        }
        let Some(new) = fs[0].over.clone() else { continue };
        set_override(&mut db, &path, Some(&new));
        let d2 = {
            let dbr: &dyn Database = &db;
            let Ok(root) = dbr.file_syntax(file_id(dbr, &path)) else { continue };
            match dump_tree(dbr, root, &mut it, 20_000) {
                Some(d) => d,
                None => continue,
            }
        };
        let old: std::collections::HashSet<u64> = d1.nodes.iter().map(|n| n.6).collect();
        let k = d2.nodes.iter().filter(|n| old.contains(&n.6)).count();
        kept += k;
        fresh_ids += d2.nodes.len() - k;
        total += d1.nodes.len() + d2.nodes.len();
        if samples.len() < 5 {
            samples.push(format!(
                "reid: {} after [{}]: {} of {} nodes of the re-parsed tree keep the identity they had",
                src.display(),
                kinds.join(", "),
                k,
                d2.nodes.len()
            ));
        }
        cases.push(format!(
            "mk_recase {c}\n ({})\n {}\n ({})\n {}",
            d1.tree,
            coq_nodes(&d1, true),
            d2.tree,
            coq_nodes(&d2, true)
        ));
    }
    let per = 2;
    for (si, chunk) in cases.chunks(per).enumerate() {
        let mut s = String::from(HEADER);
        writeln!(s, "Definition kr_tab : list (N * (nat * nat)) := {}.", kinds_table(&it)).unwrap();
        for (i, c) in chunk.iter().enumerate() {
            writeln!(s, "Definition case_{i} : re_case := {c}.").unwrap();
        }
        let names: Vec<String> = (0..chunk.len()).map(|i| format!("case_{i}")).collect();
        writeln!(s, "Definition cases := [{}].", names.join("; ")).unwrap();
        writeln!(s, "Definition bad := Eval vm_compute in check_reid kr_tab cases.\nPrint bad.").unwrap();
        std::fs::write(format!("{out}/reid_{si:03}.v"), s).unwrap();
    }
    summary.insert("reid_cases".into(), json!(cases.len()));
    summary.insert("reid_nodes".into(), json!(total));
    summary.insert("reid_nodes_identity_kept".into(), json!(kept));
    summary.insert("reid_nodes_identity_new".into(), json!(fresh_ids));
}

fn projects() -> Vec<Project> {
    let (repo, vr) = (h13::repo(), h13::verif_root());
    vec![
        Project { name: "multi".into(), src: format!("{vr}/corpus/C13/multi").into() },
        Project { name: "diags".into(), src: format!("{vr}/corpus/C13/diags").into() },
        Project { name: "single".into(), src: format!("{vr}/corpus/C13/single/lib.cairo").into() },
        Project { name: "diags".into(), src: format!("{vr}/corpus/C13/diags").into() },
        Project { name: "examples".into(), src: format!("{repo}/examples").into() },
        Project { name: "gen".into(), src: format!("{vr}/corpus/C13/gen").into() },
        Project { name: "gen".into(), src: format!("{vr}/corpus/C13/gen").into() },
        Project { name: "order".into(), src: format!("{vr}/corpus/C13/order").into() },
        Project { name: "order".into(), src: format!("{vr}/corpus/C13/order").into() },
    ]
}

fn main() {
    let args: Vec<String> = std::env::args().collect();
    vcommon::quiet_panics();
    if args.len() >= 3 && args[1] == "replay" {
        return replay(&args[2]);
    }
    if args.len() < 3 {
        eprintln!("usage: h13 <out_dir> <tier> | h13 replay <replay.json>");
        std::process::exit(2);
    }
    let (out, tier) = (args[1].clone(), args[2].clone());
    std::fs::create_dir_all(&out).unwrap();
    let legs = std::env::var("H13_LEGS").unwrap_or_else(|_| "ids,reid,oracle,disk".into());
    let mut summary = serde_json::Map::new();
    let mut samples: Vec<String> = vec![];
    let t0 = Instant::now();
    if legs.contains("ids") {
        leg_ids(&out, &tier, &mut summary, &mut samples);
    }
    if legs.contains("reid") {
        leg_reid(&out, &tier, &mut summary, &mut samples);
    }
    summary.insert("ids_seconds".into(), json!(t0.elapsed().as_secs_f64()));

    // ---------------- oracle ----------------
    let mut failures: Vec<Value> = vec![];
    if legs.contains("oracle") {
        let t1 = Instant::now();
        let seed = std::env::var("VERIF_SEED").ok().and_then(|s| s.parse::<u64>().ok()).unwrap_or(1);
        let (n_hist, n_steps) = if tier == "thorough" { (81usize, 30usize) } else { (36, 10) };
        let n_hist = std::env::var("H13_HISTORIES").ok().and_then(|s| s.parse().ok()).unwrap_or(n_hist);
        let n_steps = std::env::var("H13_STEPS").ok().and_then(|s| s.parse().ok()).unwrap_or(n_steps);
        let threads = std::env::var("H13_THREADS").ok().and_then(|s| s.parse().ok()).unwrap_or(if tier == "thorough" { 8usize } else { 12 });
        let projs = projects();
        let next = AtomicUsize::new(0);
        let all_stats: Mutex<Vec<Stats>> = Mutex::new(vec![]);
        let all_fail: Mutex<Vec<Value>> = Mutex::new(vec![]);
        let all_samples: Mutex<Vec<String>> = Mutex::new(vec![]);
        std::thread::scope(|sc| {
            for _ in 0..threads.min(n_hist) {
                sc.spawn(|| {
                    loop {
                        let h = next.fetch_add(1, Ordering::SeqCst);
                        if h >= n_hist {
                            break;
                        }
                        let proj = &projs[h % projs.len()];
                        let mut rng = Rng(seed.wrapping_mul(0x9E3779B97F4A7C15).wrapping_add(1000 + h as u64));
                        let generator = Gen { rng: &mut rng, counter: 0, diag_mode: proj.name == "diags", gen_mode: proj.name == "gen", pending_inside: None, perm_mode: proj.name == "order", pending_perm: None };
                        let work = PathBuf::from(format!("{out}/../work/h{h}"));
                        let mut st = Stats::default();
                        let (steps, fail) = run_history(&work, proj, n_steps, Some(generator), &[], &mut st, std::env::var("H13_VERBOSE").is_ok());
                        if h < 3 {
                            let ks: Vec<&str> = steps.iter().map(|s| s.kind.as_str()).collect();
                            all_samples.lock().unwrap().push(format!("oracle: history {h} on `{}`: {}", proj.name, ks.join(" -> ")));
                        }
                        if let Some(f) = fail {
                            all_fail.lock().unwrap().push(json!({
                                "why": format!("{} of the live database differ from a fresh database on the same contents (step {}, first differing line {})", f.what, f.step, f.line),
                                "project": proj.name, "project_src": proj.src.to_string_lossy(),
                                "history_index": h, "step_index": f.step, "observed": f.what,
                                "first_differing_line": f.line, "incremental_line": f.incremental, "fresh_line": f.fresh,
                                "history": steps.iter().map(|s| s.to_json()).collect::<Vec<_>>(),
                            }));
                        }
                        let _ = std::fs::remove_dir_all(&work);
                        all_stats.lock().unwrap().push(st);
                    }
                });
            }
        });
        let stats = all_stats.into_inner().unwrap();
        let mut kinds: std::collections::BTreeMap<String, usize> = Default::default();
        let mut distinct = std::collections::HashSet::new();
        let mut outputs = std::collections::HashSet::new();
        let mut multi = [0usize; 5];
        let mut constructs: std::collections::BTreeMap<String, usize> = Default::default();
        let (mut steps, mut dc, mut scmp, mut tc, mut wd, mut ws, mut pb, mut fms, mut ims) = (0, 0, 0, 0, 0, 0, 0, 0u128, 0u128);
        for s in &stats {
            steps += s.steps;
            dc += s.diag_compared;
            scmp += s.sierra_compared;
            tc += s.tree_compared;
            wd += s.steps_with_diagnostics;
            ws += s.steps_with_sierra;
            pb += s.panics_both;
            fms += s.fresh_ms;
            ims += s.incr_ms;
            for (k, v) in &s.kinds {
                *kinds.entry(k.split(':').next().unwrap().to_string()).or_insert(0) += v;
            }
            distinct.extend(s.distinct_states.iter().copied());
            outputs.extend(s.outputs.iter().copied());
            for i in 0..5 {
                multi[i] += s.multi_diag[i];
            }
            for (k, v) in &s.diag_constructs {
                *constructs.entry(k.clone()).or_insert(0) += v;
            }
        }
        failures = all_fail.into_inner().unwrap();
        samples.extend(all_samples.into_inner().unwrap());
        summary.insert("oracle_histories".into(), json!(stats.len()));
        summary.insert("oracle_steps".into(), json!(steps));
        summary.insert("oracle_max_steps_per_history".into(), json!(n_steps));
        summary.insert("oracle_edit_kinds".into(), json!(kinds));
        summary.insert("oracle_diagnostics_compared".into(), json!(dc));
        summary.insert("oracle_sierra_compared".into(), json!(scmp));
        summary.insert("oracle_tree_offsets_compared".into(), json!(tc));
        summary.insert("oracle_steps_with_diagnostics".into(), json!(wd));
        summary.insert("oracle_steps_with_sierra_program".into(), json!(ws));
        summary.insert("oracle_distinct_project_states".into(), json!(distinct.len()));
        summary.insert("oracle_distinct_outputs".into(), json!(outputs.len()));
        summary.insert(
            "oracle_steps_with_2plus_diagnostics_of_phase".into(),
            json!({"parser": multi[0], "semantic": multi[1], "lowering": multi[2], "warning": multi[3], "plugin": multi[4]}),
        );
        summary.insert("oracle_diag_constructs_inserted".into(), json!(constructs));
        summary.insert("oracle_panic_in_both".into(), json!(pb));
        summary.insert("oracle_fresh_db_ms".into(), json!(fms as u64));
        summary.insert("oracle_live_db_ms".into(), json!(ims as u64));
        summary.insert("oracle_seconds".into(), json!(t1.elapsed().as_secs_f64()));
    }
    if legs.contains("disk") {
        let t2 = Instant::now();
        let (m, smp, f) = h13::disk::run_leg(&out, &tier);
        summary.extend(m);
        samples.extend(smp);
        failures.extend(f);
        summary.insert("disk_seconds".into(), json!(t2.elapsed().as_secs_f64()));
    }
    std::fs::write(format!("{out}/summary.json"), serde_json::to_string_pretty(&Value::Object(summary.clone())).unwrap()).unwrap();
    std::fs::write(format!("{out}/samples.txt"), samples.join("\n") + "\n").unwrap();
    std::fs::write(format!("{out}/oracle_failures.json"), serde_json::to_string_pretty(&failures).unwrap()).unwrap();
    println!(
        "h13: ids files={} nodes={} reid cases={} | oracle histories={} steps={} disk steps={} failures={} ({:.0}s)",
        summary.get("ids_files").cloned().unwrap_or(json!(0)),
        summary.get("ids_nodes").cloned().unwrap_or(json!(0)),
        summary.get("reid_cases").cloned().unwrap_or(json!(0)),
        summary.get("oracle_histories").cloned().unwrap_or(json!(0)),
        summary.get("oracle_steps").cloned().unwrap_or(json!(0)),
        summary.get("disk_steps").cloned().unwrap_or(json!(0)),
        failures.len(),
        t0.elapsed().as_secs_f64()
    );
}

fn replay(path: &str) {
    let v: Value = serde_json::from_str(&std::fs::read_to_string(path).expect("read replay")).expect("json");
    if v.get("disk_history").is_some() {
        h13::disk::replay(&v);
    }
    let proj = Project { name: v["project"].as_str().unwrap_or("?").into(), src: v["project_src"].as_str().expect("project_src").into() };
    let steps: Vec<Step> = v["history"].as_array().expect("history").iter().map(Step::from_json).collect();
    let work = PathBuf::from(format!("/tmp/C13/replay-{}", std::process::id()));
    let mut st = Stats::default();
    let (_, fail) = run_history(&work, &proj, steps.len(), None, &steps, &mut st, true);
    let _ = std::fs::remove_dir_all(&work);
    match fail {
        Some(f) => {
            println!("DIFFERENCE at step {} in {} (line {}):\n  live : {}\n  fresh: {}", f.step, f.what, f.line, f.incremental, f.fresh);
            std::process::exit(1);
        }
        None => println!("no difference on this history"),
    }
}
