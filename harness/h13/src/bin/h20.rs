//! C20 harness.
//!   h20 <out_dir> <tier>            translator (coq/GenC20/Shape.v) + the impl-level oracle
//!   h20 shape <file.v>              translator only
//!   h20 replay <replay.json>        re-runs one (program, configuration, cached set) comparison
//!
//! Oracle (the formula of the property): two RootDatabases that differ only in whether dependency
//! crates (corelib, corpus/C20/lib) are supplied through their `cache_file` blob (made by
//! `cairo_lang_lowering::cache::generate_crate_cache`) or compiled from source. For every dependent
//! program: diagnostics text, Sierra text and CASM text must be identical, for each optimisation
//! configuration.
use std::collections::BTreeMap;
use std::fmt::Write as _;
use std::panic::AssertUnwindSafe;
use std::path::{Path, PathBuf};
use std::sync::Mutex;
use std::time::Instant;

use cairo_lang_compiler::db::RootDatabase;
use cairo_lang_diagnostics::ToOption;
use cairo_lang_filesystem::db::{
    CrateConfiguration, CrateSettings, DependencySettings, Edition, ExperimentalFeaturesConfig, FilesGroup, files_group_input, set_crate_configs_input,
};
use cairo_lang_filesystem::ids::{BlobLongId, CrateId, CrateInput, Directory, SmolStrId};
use cairo_lang_filesystem::set_crate_config;
use cairo_lang_lowering::cache::generate_crate_cache;
use cairo_lang_lowering::optimizations::config::Optimizations;
use cairo_lang_lowering::utils::InliningStrategy;
use cairo_lang_sierra_generator::db::SierraGenGroup;
use cairo_lang_sierra_generator::replace_ids::replace_sierra_ids_in_program;
use cairo_lang_sierra_to_casm::compiler::SierraToCasmConfig;
use cairo_lang_sierra_to_casm::metadata::calc_metadata;
use cairo_lang_sierra_type_size::ProgramRegistryInfo;
use h13::{build_db, cairo_files, diagnostics_text, first_diff, fnv, shape};
use salsa::Database;
use serde_json::{Value, json};
use vcommon::Rng;


const LIB_NAME: &str = "c20lib";
const LIB_DIR: &str = "/verif/corpus/C20/lib/src";

fn configs() -> Vec<(&'static str, Optimizations)> {
    vec![
        ("opt-default-inlining", Optimizations::enabled_with_default_movable_functions(InliningStrategy::Default)),
        ("opt-avoid-inlining", Optimizations::enabled_with_default_movable_functions(InliningStrategy::Avoid)),
        ("opt-disabled", Optimizations::Disabled),
    ]
}

#[derive(Clone)]
struct Prog {
    name: String,
    /// directory holding lib.cairo
    dir: PathBuf,
    uses_lib: bool,
    origin: String,
    /// 0 = dependent of c20lib (edition 2024_07), 1 = example of the repository (2023_10),
    /// 2 = tests/bug_samples file (2023_10 + experimental features)
    flavor: u8,
}

fn lib_settings(deps: bool, flavor: u8) -> CrateSettings {
    let mut dependencies = BTreeMap::new();
    if deps {
        dependencies.insert(LIB_NAME.to_string(), DependencySettings { discriminator: None });
    }
    let edition = if flavor == 0 { Edition::V2024_07 } else { Edition::V2023_10 };
    let experimental_features = ExperimentalFeaturesConfig {
        negative_impls: flavor == 2,
        associated_item_constraints: flavor == 2,
        coupons: false,
        user_defined_inline_macros: flavor == 2,
        repr_ptrs: false,
    };
    CrateSettings { edition, dependencies, experimental_features, ..Default::default() }
}

fn add_crate(db: &mut RootDatabase, name: &str, dir: &Path, deps: bool, flavor: u8) -> CrateInput {
    let dbm: &mut dyn Database = db;
    let crate_id = CrateId::plain(dbm, SmolStrId::from(dbm, name));
    set_crate_config!(
        dbm,
        crate_id,
        Some(CrateConfiguration { root: Directory::Real(dir.to_path_buf()), settings: lib_settings(deps, flavor), cache_file: None })
    );
    let crate_id = CrateId::plain(dbm, SmolStrId::from(dbm, name));
    crate_id.long(dbm).clone().into_crate_input(dbm)
}

/// A database with corelib, the library crate and all programs from source; then, for the crates
/// named in `cached`, the `cache_file` is set (the only difference between the two databases).
fn open_db(opt: &Optimizations, progs: &[Prog], cached: &[(CrateInput, Vec<u8>)]) -> (RootDatabase, CrateInput, Vec<CrateInput>) {
    let mut db = build_db(Some(opt.clone()));
    let lib = add_crate(&mut db, LIB_NAME, Path::new(LIB_DIR), false, 0);
    let inputs: Vec<CrateInput> = progs.iter().map(|p| add_crate(&mut db, &p.name, &p.dir, p.flavor == 0, p.flavor)).collect();
    if !cached.is_empty() {
        let mut crate_configs = files_group_input(&db).crate_configs(&db).clone().unwrap();
        for (c, blob) in cached {
            crate_configs.get_mut(c).expect("cached crate is configured").cache_file = Some(BlobLongId::Virtual(blob.clone()));
        }
        set_crate_configs_input(&mut db, Some(crate_configs));
    }
    (db, lib, inputs)
}

fn core_input(db: &RootDatabase) -> CrateInput {
    db.crate_input(CrateId::core(db)).clone()
}

/// (sierra text with debug names, casm text). Failures and panics are data.
fn sierra_and_casm(db: &RootDatabase, input: &CrateInput) -> (String, String) {
    let r = vcommon::catch(AssertUnwindSafe(|| {
        let crate_ids = CrateInput::into_crate_ids(db, vec![input.clone()]);
        let Some(p) = db.get_sierra_program(crate_ids).to_option() else {
            return ("NO SIERRA (diagnostics)\n".to_string(), "NO CASM\n".to_string());
        };
        let program = replace_sierra_ids_in_program(db, &p.program);
        let sierra = program.to_string();
        let casm = match ProgramRegistryInfo::new(&program) {
            Err(e) => format!("registry error: {e}\n"),
            Ok(info) => match calc_metadata(&program, &info, Default::default()) {
                Err(e) => format!("metadata error: {e}\n"),
                Ok(md) => match cairo_lang_sierra_to_casm::compiler::compile(
                    &program,
                    &info,
                    &md,
                    SierraToCasmConfig { gas_usage_check: true, max_bytecode_size: usize::MAX },
                ) {
                    Ok(c) => c.to_string(),
                    Err(e) => format!("casm compilation error: {e}\n"),
                },
            },
        };
        (sierra, casm)
    }));
    match r {
        Ok(x) => x,
        Err(e) => {
            let s = format!("PANIC in sierra/casm generation: {e} at {}\n", vcommon::last_panic_location());
            (s.clone(), s)
        }
    }
}

struct Out {
    diag: String,
    sierra: String,
    casm: String,
}

fn observe(db: &RootDatabase, input: &CrateInput) -> Out {
    let diag = diagnostics_text(db, std::slice::from_ref(input));
    let (sierra, casm) = sierra_and_casm(db, input);
    Out { diag, sierra, casm }
}

// =====================================================================================================
// programs
// =====================================================================================================

const PRELUDE: &str = "#[allow(unused_imports)]
use c20lib::shapes::{Shape, Point, HasArea, ShapeNamed, Named, total_area, translate};
#[allow(unused_imports)]
use c20lib::store::{Counter, CounterTrait, Stack, StackTrait};
#[allow(unused_imports)]
use c20lib::store::nested::{Level, level_of, STEP};
#[allow(unused_imports)]
use c20lib::algo::{sum_to, sum_array, twice, fact, add_n, max_of, classify};
#[allow(unused_imports)]
use core::dict::Felt252Dict;

#[derive(Copy, Drop)]
struct Local {
    r: u32,
}
impl LocalArea of HasArea<Local> {
    fn area(self: @Local) -> u64 {
        let r: u64 = (*self.r).into();
        3 * r * r
    }
}
impl LocalNamed of Named {
    const ID: felt252 = 'local';
    type Out = felt252;
    fn name() -> felt252 {
        Self::ID + 1
    }
    fn wrap(x: felt252) -> felt252 {
        x * 2
    }
}
";

/// One snippet: the body of a `fn() -> felt252` that reaches the dependency in a particular way.
fn snippet(rng: &mut Rng) -> (String, &'static str) {
    let k = |rng: &mut Rng, n: u64| rng.below(n);
    let (a, b, c) = (k(rng, 100), k(rng, 100), k(rng, 9) + 1);
    let flag = if rng.bool() { "true" } else { "false" };
    match rng.below(46) {
        0 => (format!("c20lib::pick::<u8>({a}, {b}, {flag}).into()"), "generic:pick<u8>"),
        1 => (format!("c20lib::pick::<u128>({a}, {b}, {flag}).into()"), "generic:pick<u128>"),
        2 => (format!("c20lib::pick::<felt252>({a}, {b}, {flag})"), "generic:pick<felt252>"),
        3 => (format!("c20lib::pick::<Point>(Point {{ x: {a}, y: {b} }}, c20lib::ORIGIN, {flag}).x.into()"), "generic:pick<Point>"),
        4 => (format!("{{ let (x, y) = c20lib::pick::<(u16, u16)>(({a}, {b}), ({b}, {a}), {flag}); (x + y).into() }}"), "generic:pick<tuple>"),
        5 => (format!("{{ let (x, y) = c20lib::pair_of::<u16>({a}); (x + y).into() }}"), "generic:pair_of<u16>"),
        6 => (format!("{{ let (x, _) = c20lib::pair_of::<Shape>(Shape::Square({a})); x.area().try_into().unwrap() }}"), "generic:pair_of<Shape>"),
        7 => (format!("max_of::<u32>({a}, {b}).into()"), "generic:max_of<u32>"),
        8 => (format!("max_of::<i16>({a}, -{b}).into()"), "generic:max_of<i16>"),
        9 => (format!("{{ let mut st: Stack<u8> = StackTrait::empty(); st.push({a}); st.push({b}); st.size().into() }}"), "impl:Stack<u8>"),
        10 => (format!("{{ let mut st: Stack<Shape> = StackTrait::empty(); st.push(Shape::Rect(({a}, {b}))); st.size().into() }}"), "impl:Stack<Shape>"),
        11 => (format!("{{ let mut st: Stack<Array<felt252>> = StackTrait::empty(); st.push(array![{a}]); st.push(array![]); st.size().into() }}"), "impl:Stack<Array>"),
        12 => (format!("total_area(array![Shape::Square({a}), Shape::Rect(({b}, {c})), Shape::Empty]).try_into().unwrap()"), "generic:total_area<Shape>"),
        13 => (format!("total_area(array![Point {{ x: {a}, y: {b} }}]).try_into().unwrap()"), "generic:total_area<Point>"),
        14 => (format!("total_area(array![Local {{ r: {c} }}, Local {{ r: {a} }}]).try_into().unwrap()"), "generic:total_area<Local>"),
        15 => (format!("Shape::Square({a}).doubled().try_into().unwrap()"), "trait-default:doubled"),
        16 => (format!("if (Point {{ x: {a}, y: {b} }}).is_flat() {{ {a} }} else {{ {b} }}"), "trait-default:is_flat"),
        17 => (format!("Local {{ r: {c} }}.doubled().try_into().unwrap()"), "trait-default:doubled<Local>"),
        18 => ("c20lib::SCALE.into()".to_string(), "const:SCALE"),
        19 => (format!("(*c20lib::PRIMES.span()[{}]).into()", a % 4), "const:PRIMES"),
        20 => ("c20lib::NEG.into()".to_string(), "const:NEG"),
        21 => ("c20lib::ORIGIN.y.into() + STEP".to_string(), "const:ORIGIN+STEP"),
        22 => (format!("c20lib::scale({a}).into()"), "inline:always"),
        23 => (format!("c20lib::scale_slow({a}).into()"), "inline:never"),
        24 => (format!("twice({a}) + c20lib::small({b})"), "inline:twice+small"),
        25 => (format!("classify({})", a % 5), "match:classify"),
        26 => (format!("match level_of({}) {{ Level::Low => 0, Level::Mid(x) => x.into(), Level::High((x, y)) => x.into() + y.into() }}", a * 2), "match:level_of"),
        27 => (format!("add_n({a}, {b}).into()"), "closure:add_n"),
        28 => (format!("sum_to({c}).into()"), "loop:sum_to"),
        29 => (format!("sum_array(array![{a}, {b}, {c}].span()).into()"), "loop:sum_array"),
        30 => (format!("fact({c})"), "recursion:fact"),
        31 => (format!("c20lib::must(c20lib::checked({a}, {b})).into()"), "panic:must"),
        32 => (format!("{{ let (x, y) = ShapeNamed::wrap({a}); x + y + ShapeNamed::name() + ShapeNamed::ID }}"), "assoc:ShapeNamed"),
        33 => (format!("LocalNamed::wrap({a}) + LocalNamed::name()"), "assoc:LocalNamed"),
        34 => (format!("{{ let mut cn = CounterTrait::new({c}); cn.bump(); cn.bump(); cn.reset(); cn.bump(); if cn.full() {{ 1 }} else {{ cn.hits.into() }} }}"), "generate_trait:Counter"),
        35 => (format!("c20lib::boxed_sum(BoxTrait::new({a}), BoxTrait::new({b})).into()"), "box:boxed_sum"),
        36 => (format!("c20lib::snap_len(@array![{a}_u8, {b}]).into()"), "snapshot:snap_len"),
        37 => (format!("{{ let mut v = array![{a}, {b}]; v.append({c}); let x = v.pop_front().unwrap(); x + v.len().into() }}"), "core:array"),
        38 => (format!("core::cmp::min({a}_u32, {b}_u32).into()"), "core:cmp"),
        39 => (format!("{{ let x: u256 = {a}; let y: u256 = {b}; ((x * y + 1) % 1000).try_into().unwrap() }}"), "core:u256"),
        40 => (format!("core::pedersen::pedersen({a}, {b})"), "core:pedersen"),
        41 => (format!("core::poseidon::poseidon_hash_span(array![{a}, {b}].span())"), "core:poseidon"),
        42 => (format!("{{ let mut d: Felt252Dict<u32> = Default::default(); d.insert({a}, {b}); d.get({a}).into() }}"), "core:dict"),
        43 => (format!("{{ let s: ByteArray = \"abc{a}\"; s.len().into() }}"), "core:bytearray"),
        44 => (format!("{{ let x: Option<u8> = {}_u64.try_into(); match x {{ Option::Some(v) => v.into(), Option::None => {b} }} }}", a * 5), "core:try_into"),
        _ => (format!("{{ let x: u8 = {a}; let y: u8 = {}; core::num::traits::WrappingAdd::wrapping_add(x, y).into() }}", b + 160), "core:wrapping"),
    }
}

fn gen_program(rng: &mut Rng, idx: usize) -> (String, Vec<&'static str>) {
    let mut s = String::from(PRELUDE);
    let n = 3 + rng.below(5) as usize;
    let mut kinds = vec![];
    for i in 0..n {
        let (body, kind) = snippet(rng);
        kinds.push(kind);
        let inline = match rng.below(4) {
            0 => "#[inline(always)]\n",
            1 => "#[inline(never)]\n",
            _ => "",
        };
        writeln!(s, "\n{inline}fn f_{idx}_{i}() -> felt252 {{\n    {body}\n}}").unwrap();
    }
    let calls: Vec<String> = (0..n).map(|i| format!("f_{idx}_{i}()")).collect();
    writeln!(s, "\nfn main() -> felt252 {{\n    {}\n}}", calls.join(" + ")).unwrap();
    (s, kinds)
}

fn collect_programs(work: &Path, tier: &str, rng: &mut Rng, kinds_seen: &mut BTreeMap<String, usize>) -> Vec<Prog> {
    let mut progs = vec![];
    let mut add = |name: String, text: &str, flavor: u8, origin: String| {
        let dir = work.join(&name);
        std::fs::create_dir_all(&dir).unwrap();
        std::fs::write(dir.join("lib.cairo"), text).unwrap();
        progs.push(Prog { name, dir: dir.canonicalize().unwrap(), uses_lib: flavor == 0, origin, flavor });
    };
    for p in cairo_files(Path::new("/verif/corpus/C20/progs")) {
        let name = p.file_stem().unwrap().to_string_lossy().to_string();
        add(name, &std::fs::read_to_string(&p).unwrap(), 0, p.to_string_lossy().to_string());
    }
    // dependents of the core library only: the examples of the repository
    let mut ex: Vec<PathBuf> = cairo_files(Path::new("/repo/examples")).into_iter().filter(|p| p.file_stem().unwrap() != "lib").collect();
    let n_ex = if tier == "thorough" { ex.len() } else { 12 };
    for _ in 0..n_ex.min(ex.len()) {
        let i = rng.below(ex.len() as u64) as usize;
        let p = ex.swap_remove(i);
        let name = format!("ex_{}", p.file_stem().unwrap().to_string_lossy());
        add(name, &std::fs::read_to_string(&p).unwrap(), 1, p.to_string_lossy().to_string());
    }
    let mut bugs: Vec<PathBuf> = cairo_files(Path::new("/repo/tests/bug_samples")).into_iter().filter(|p| p.file_stem().unwrap() != "lib").collect();
    let n_bug = if tier == "thorough" { bugs.len() } else { 24 };
    for _ in 0..n_bug.min(bugs.len()) {
        let i = rng.below(bugs.len() as u64) as usize;
        let p = bugs.swap_remove(i);
        let name = format!("bug_{}", p.file_stem().unwrap().to_string_lossy());
        add(name, &std::fs::read_to_string(&p).unwrap(), 2, p.to_string_lossy().to_string());
    }
    let n_gen = if tier == "thorough" { 400 } else { 60 };
    let n_gen = std::env::var("H20_GENERATED").ok().and_then(|s| s.parse().ok()).unwrap_or(n_gen);
    for i in 0..n_gen {
        let (text, kinds) = gen_program(rng, i);
        for k in kinds {
            *kinds_seen.entry(k.to_string()).or_insert(0) += 1;
        }
        add(format!("gen_{i:03}"), &text, 0, format!("generated #{i} (VERIF_SEED)"));
    }
    progs
}

// =====================================================================================================
// the comparison
// =====================================================================================================

/// Self-test of the oracle: a blob generated from a *different* library source (consts and bodies
/// changed) is supplied as the cache of the unchanged library. If the cache is really consulted,
/// dependents must now compile differently. Returns how many programs changed.
fn sensitivity_control(opt: &Optimizations, progs: &[Prog], source_outs: &[Out], work: &Path) -> Result<(usize, usize), String> {
    let alt = work.join("altlib");
    h13::copy_dir(Path::new(LIB_DIR), &alt).map_err(|e| e.to_string())?;
    let lp = alt.join("lib.cairo");
    let t = std::fs::read_to_string(&lp).map_err(|e| e.to_string())?;
    let t2 = t.replace("x * SCALE + 0", "x * SCALE + 1").replace("    x + 1\n", "    x + 2\n").replace("(x, x)", "(x, x,).clone()");
    let sp = alt.join("shapes.cairo");
    let st = std::fs::read_to_string(&sp).map_err(|e| e.to_string())?;
    let st2 = st.replace("            Shape::Empty => 0,", "            Shape::Empty => 1,").replace("acc += s.area();", "acc += s.area() + 1;");
    if t2 == t || st2 == st {
        return Err("sensitivity control: the library source no longer contains the lines to change".into());
    }
    std::fs::write(&lp, t2).map_err(|e| e.to_string())?;
    std::fs::write(&sp, st2).map_err(|e| e.to_string())?;
    // blob of the altered library
    let blob = {
        let mut db = build_db(Some(opt.clone()));
        let lib = add_crate(&mut db, LIB_NAME, &alt, false, 0);
        let r = vcommon::catch(AssertUnwindSafe(|| {
            let id = CrateInput::into_crate_ids(&db, vec![lib.clone()])[0];
            generate_crate_cache(&db, id).map_err(|e| format!("altered {LIB_NAME}: {e}"))
        }));
        match r {
            Ok(b) => b?,
            Err(e) => return Err(format!("panic in generate_crate_cache (altered library): {e}")),
        }
    };
    let lib_input = CrateInput::Real { name: LIB_NAME.to_string(), discriminator: None };
    let (db, _, inputs) = open_db(opt, progs, &[(lib_input, blob)]);
    let mut changed = 0;
    let mut users = 0;
    for (i, p) in progs.iter().enumerate() {
        if !p.uses_lib {
            continue;
        }
        users += 1;
        let (sierra, _) = sierra_and_casm(&db, &inputs[i]);
        if sierra != source_outs[i].sierra {
            changed += 1;
        }
    }
    Ok((changed, users))
}

fn make_blobs(opt: &Optimizations) -> Result<(Vec<u8>, Vec<u8>), String> {
    let (db, lib, _) = open_db(opt, &[], &[]);
    let r = vcommon::catch(AssertUnwindSafe(|| {
        let core = generate_crate_cache(&db, CrateId::core(&db)).map_err(|e| format!("corelib: {e}"))?;
        let lib_id = CrateInput::into_crate_ids(&db, vec![lib.clone()])[0];
        let libb = generate_crate_cache(&db, lib_id).map_err(|e| format!("{LIB_NAME}: {e}"))?;
        Ok::<_, String>((core, libb))
    }));
    match r {
        Ok(x) => x,
        Err(e) => Err(format!("panic in generate_crate_cache: {e} at {}", vcommon::last_panic_location())),
    }
}

#[derive(Clone, Copy, PartialEq, Eq, Debug)]
enum CachedSet {
    Both,
    CoreOnly,
    LibOnly,
}
impl CachedSet {
    fn name(&self) -> &'static str {
        match self {
            CachedSet::Both => "corelib+c20lib",
            CachedSet::CoreOnly => "corelib",
            CachedSet::LibOnly => "c20lib",
        }
    }
}

struct Job {
    cfg: usize,
    set: CachedSet,
}

fn run_job(
    cfgs: &[(&'static str, Optimizations)],
    job: &Job,
    progs: &[Prog],
    blobs: &(Vec<u8>, Vec<u8>),
    source_outs: &[Out],
) -> (Vec<Value>, usize) {
    let (cname, opt) = &cfgs[job.cfg];
    // build the cached database
    let probe = build_db(Some(opt.clone()));
    let core = core_input(&probe);
    drop(probe);
    let lib_input = CrateInput::Real { name: LIB_NAME.to_string(), discriminator: None };
    let mut cached = vec![];
    if job.set != CachedSet::LibOnly {
        cached.push((core, blobs.0.clone()));
    }
    if job.set != CachedSet::CoreOnly {
        cached.push((lib_input, blobs.1.clone()));
    }
    let (db, _, inputs) = open_db(opt, progs, &cached);
    let mut fails = vec![];
    let mut compared = 0;
    for (i, p) in progs.iter().enumerate() {
        let o = observe(&db, &inputs[i]);
        let s = &source_outs[i];
        for (what, a, b) in [("diagnostics", &o.diag, &s.diag), ("sierra", &o.sierra, &s.sierra), ("casm", &o.casm, &s.casm)] {
            compared += 1;
            if let Some((line, x, y)) = first_diff(a, b) {
                fails.push(json!({
                    "why": format!("{what} of `{}` differ when {} is supplied as a crate cache ({cname}); first differing line {line}", p.name, job.set.name()),
                    "program": p.name, "origin": p.origin, "flavor": p.flavor, "config": cname, "cached": job.set.name(),
                    "observed": what, "first_differing_line": line, "from_cache_line": x, "from_source_line": y,
                    "program_text": std::fs::read_to_string(p.dir.join("lib.cairo")).unwrap_or_default(),
                }));
                break;
            }
        }
    }
    (fails, compared)
}

fn main() {
    let args: Vec<String> = std::env::args().collect();
    vcommon::quiet_panics();
    if args.len() >= 3 && args[1] == "shape" {
        let (text, stats) = shape::translate();
        shape::write_if_changed(&args[2], &text);
        println!("{}", serde_json::to_string_pretty(&stats).unwrap());
        return;
    }
    if args.len() >= 3 && args[1] == "replay" {
        return replay(&args[2]);
    }
    if args.len() < 3 {
        eprintln!("usage: h20 <out_dir> <tier> | h20 shape <file.v> | h20 replay <replay.json>");
        std::process::exit(2);
    }
    let (out, tier) = (args[1].clone(), args[2].clone());
    std::fs::create_dir_all(&out).unwrap();
    let t0 = Instant::now();
    let mut summary = serde_json::Map::new();
    let mut samples: Vec<String> = vec![];

    // ---------------- translator ----------------
    let (shape_text, shape_stats) = shape::translate();
    let shape_path = std::env::var("H20_SHAPE_OUT").unwrap_or_else(|_| "/verif/coq/GenC20/Shape.v".to_string());
    let changed = shape::write_if_changed(&shape_path, &shape_text);
    summary.insert("shape".into(), shape_stats);
    summary.insert("shape_file_rewritten".into(), json!(changed));

    // ---------------- oracle ----------------
    let mut failures: Vec<Value> = vec![];
    if std::env::var("H20_NO_ORACLE").is_err() {
        let mut rng = Rng::from_env();
        let work = PathBuf::from(format!("{out}/../work"));
        let _ = std::fs::remove_dir_all(&work);
        std::fs::create_dir_all(&work).unwrap();
        let mut kinds_seen = BTreeMap::new();
        let progs = collect_programs(&work, &tier, &mut rng, &mut kinds_seen);
        let cfgs = configs();
        // blobs: the cache stores the lowering before optimisations, so one generation serves all
        // configurations; the thorough tier generates them per configuration and checks that.
        let tb = Instant::now();
        let blobs = match make_blobs(&cfgs[0].1) {
            Ok(b) => b,
            Err(e) => {
                failures.push(json!({"why": format!("generate_crate_cache failed: {e}"), "program": "-", "config": cfgs[0].0}));
                (vec![], vec![])
            }
        };
        summary.insert("blob_core_bytes".into(), json!(blobs.0.len()));
        summary.insert("blob_lib_bytes".into(), json!(blobs.1.len()));
        summary.insert("blob_seconds".into(), json!(tb.elapsed().as_secs_f64()));
        if !blobs.0.is_empty() {
            let mut jobs: Vec<Job> = vec![];
            for c in 0..cfgs.len() {
                jobs.push(Job { cfg: c, set: CachedSet::Both });
            }
            if tier == "thorough" {
                for c in 0..cfgs.len() {
                    jobs.push(Job { cfg: c, set: CachedSet::CoreOnly });
                    jobs.push(Job { cfg: c, set: CachedSet::LibOnly });
                }
            } else {
                let c = (rng.below(cfgs.len() as u64)) as usize;
                jobs.push(Job { cfg: c, set: CachedSet::CoreOnly });
                jobs.push(Job { cfg: (c + 1) % cfgs.len(), set: CachedSet::LibOnly });
            }
            // from-source outputs, one database per configuration
            let source: Mutex<BTreeMap<usize, Vec<Out>>> = Mutex::new(BTreeMap::new());
            std::thread::scope(|sc| {
                for c in 0..cfgs.len() {
                    let (progs, cfgs, source) = (&progs, &cfgs, &source);
                    sc.spawn(move || {
                        let (db, _, inputs) = open_db(&cfgs[c].1, progs, &[]);
                        let outs: Vec<Out> = inputs.iter().map(|i| observe(&db, i)).collect();
                        source.lock().unwrap().insert(c, outs);
                    });
                }
            });
            let source = source.into_inner().unwrap();
            let results: Mutex<Vec<(Vec<Value>, usize)>> = Mutex::new(vec![]);
            std::thread::scope(|sc| {
                for j in &jobs {
                    let (progs, cfgs, source, blobs, results) = (&progs, &cfgs, &source, &blobs, &results);
                    sc.spawn(move || {
                        let r = run_job(cfgs, j, progs, blobs, &source[&j.cfg]);
                        results.lock().unwrap().push(r);
                    });
                }
            });
            let mut compared = 0;
            for (f, n) in results.into_inner().unwrap() {
                failures.extend(f);
                compared += n;
            }
            // statistics on what the from-source outputs look like
            let src0 = &source[&0];
            let with_sierra = src0.iter().filter(|o| !o.sierra.starts_with("NO SIERRA") && !o.sierra.starts_with("PANIC")).count();
            let with_diag = src0.iter().filter(|o| o.diag.lines().count() > 1).count();
            let with_casm = src0.iter().filter(|o| o.casm.contains("ret;")).count();
            let distinct: std::collections::HashSet<u64> = source.values().flat_map(|v| v.iter().map(|o| fnv(&o.sierra) ^ fnv(&o.diag).rotate_left(9))).collect();
            let cfg_sensitive = (0..progs.len()).filter(|i| source.values().map(|v| fnv(&v[*i].sierra)).collect::<std::collections::HashSet<_>>().len() > 1).count();
            summary.insert("programs".into(), json!(progs.len()));
            summary.insert("programs_using_c20lib".into(), json!(progs.iter().filter(|p| p.uses_lib).count()));
            summary.insert("programs_with_sierra".into(), json!(with_sierra));
            summary.insert("programs_with_casm".into(), json!(with_casm));
            summary.insert("programs_with_diagnostics".into(), json!(with_diag));
            let diag_heads: Vec<String> = progs
                .iter()
                .zip(src0.iter())
                .filter(|(_, o)| o.diag.lines().count() > 1)
                .map(|(p, o)| format!("{}: {}", p.name, o.diag.lines().next().unwrap_or("")))
                .collect();
            summary.insert("programs_with_diagnostics_first_line".into(), json!(diag_heads));
            summary.insert("programs_whose_sierra_depends_on_config".into(), json!(cfg_sensitive));
            summary.insert("distinct_outputs".into(), json!(distinct.len()));
            summary.insert("configs".into(), json!(cfgs.iter().map(|c| c.0).collect::<Vec<_>>()));
            summary.insert("jobs".into(), json!(jobs.iter().map(|j| format!("{} / cached {}", cfgs[j.cfg].0, j.set.name())).collect::<Vec<_>>()));
            summary.insert("comparisons".into(), json!(compared));
            summary.insert("generated_snippet_kinds".into(), json!(kinds_seen));
            for p in progs.iter().filter(|p| p.name.starts_with("gen_")).take(2) {
                let t = std::fs::read_to_string(p.dir.join("lib.cairo")).unwrap();
                let body: Vec<&str> = t.lines().skip(PRELUDE.lines().count()).filter(|l| !l.trim().is_empty()).collect();
                samples.push(format!("program {}: {}", p.name, body.join(" ")));
            }
            samples.push(format!(
                "program {} ({}): from source {} Sierra lines, {} CASM lines; identical from cache in {} job(s)",
                progs[0].name,
                progs[0].origin,
                src0[0].sierra.lines().count(),
                src0[0].casm.lines().count(),
                jobs.len()
            ));
            match sensitivity_control(&cfgs[2].1, &progs, &source[&2], &work) {
                Ok((changed, users)) => {
                    summary.insert("control_programs_changed_by_wrong_blob".into(), json!(changed));
                    summary.insert("control_programs_using_lib".into(), json!(users));
                }
                Err(e) => {
                    summary.insert("control_error".into(), json!(e));
                }
            }
            if tier == "thorough" {
                // the blob does not depend on the optimisation configuration
                for c in 1..cfgs.len() {
                    match make_blobs(&cfgs[c].1) {
                        Ok(b) => {
                            summary.insert(format!("blob_identical_{}", cfgs[c].0), json!(b.0 == blobs.0 && b.1 == blobs.1));
                        }
                        Err(e) => failures.push(json!({"why": format!("generate_crate_cache failed: {e}"), "program": "-", "config": cfgs[c].0})),
                    }
                }
            }
        }
        let _ = std::fs::remove_dir_all(&work);
    }
    summary.insert("seconds".into(), json!(t0.elapsed().as_secs_f64()));
    std::fs::write(format!("{out}/summary.json"), serde_json::to_string_pretty(&Value::Object(summary.clone())).unwrap()).unwrap();
    std::fs::write(format!("{out}/samples.txt"), samples.join("\n") + "\n").unwrap();
    std::fs::write(format!("{out}/oracle_failures.json"), serde_json::to_string_pretty(&failures).unwrap()).unwrap();
    println!(
        "h20: shape types={} | programs={} comparisons={} failures={} ({:.0}s)",
        summary["shape"]["types"],
        summary.get("programs").cloned().unwrap_or(json!(0)),
        summary.get("comparisons").cloned().unwrap_or(json!(0)),
        failures.len(),
        t0.elapsed().as_secs_f64()
    );
}

fn replay(path: &str) {
    let v: Value = serde_json::from_str(&std::fs::read_to_string(path).expect("read replay")).expect("json");
    let work = PathBuf::from(format!("/tmp/C20/replay-{}", std::process::id()));
    let dir = work.join("prog");
    std::fs::create_dir_all(&dir).unwrap();
    std::fs::write(dir.join("lib.cairo"), v["program_text"].as_str().expect("program_text")).unwrap();
    let prog = Prog { name: v["program"].as_str().unwrap_or("prog").to_string(), dir: dir.canonicalize().unwrap(), uses_lib: true, origin: "replay".into(), flavor: v["flavor"].as_u64().unwrap_or(0) as u8 };
    let cfgs = configs();
    let c = cfgs.iter().position(|c| Some(c.0) == v["config"].as_str()).unwrap_or(0);
    let set = match v["cached"].as_str() {
        Some("corelib") => CachedSet::CoreOnly,
        Some("c20lib") => CachedSet::LibOnly,
        _ => CachedSet::Both,
    };
    let blobs = make_blobs(&cfgs[c].1).expect("blobs");
    let progs = vec![prog];
    let (db, _, inputs) = open_db(&cfgs[c].1, &progs, &[]);
    let src = vec![observe(&db, &inputs[0])];
    let (fails, _) = run_job(&cfgs, &Job { cfg: c, set }, &progs, &blobs, &src);
    let _ = std::fs::remove_dir_all(&work);
    if fails.is_empty() {
        println!("no difference on this program");
    } else {
        println!("{}", serde_json::to_string_pretty(&fails[0]).unwrap());
        std::process::exit(1);
    }
}
