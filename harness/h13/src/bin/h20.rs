//! C20 harness.
//!   h20 <out_dir> <tier>            translator (coq/GenC20/Shape.v) + the impl-level oracle
//!   h20 shape <file.v>              translator only
//!   h20 replay <replay.json>        re-runs one (program, configuration, cached set) comparison
//!
//! Oracle (the formula of the property): two RootDatabases that differ only in whether dependency
//! crates (corelib, corpus/C20/lib) are supplied through their `cache_file` blob (made by
//! `cairo_lang_lowering::cache::generate_crate_cache`) or compiled from source. For every dependent
//! program: diagnostics text, Sierra text and CASM text must be identical, for each optimisation
//! configuration.
use std::collections::BTreeMap;
use std::fmt::Write as _;
use std::panic::AssertUnwindSafe;
use std::path::{Path, PathBuf};
use std::sync::Mutex;
use std::time::Instant;

use cairo_lang_compiler::db::RootDatabase;
use cairo_lang_diagnostics::ToOption;
use cairo_lang_filesystem::db::{
    CrateConfiguration, CrateSettings, DependencySettings, Edition, ExperimentalFeaturesConfig, FilesGroup, files_group_input, set_crate_configs_input,
};
use cairo_lang_filesystem::cfg::{Cfg, CfgSet};
use cairo_lang_filesystem::ids::{BlobLongId, CrateId, CrateInput, CrateLongId, Directory, SmolStrId};
use cairo_lang_utils::Intern;
use cairo_lang_filesystem::set_crate_config;
use cairo_lang_lowering::cache::generate_crate_cache;
use cairo_lang_lowering::optimizations::config::Optimizations;
use cairo_lang_lowering::utils::InliningStrategy;
use cairo_lang_sierra_generator::db::SierraGenGroup;
use cairo_lang_sierra_generator::replace_ids::replace_sierra_ids_in_program;
use cairo_lang_sierra_to_casm::compiler::SierraToCasmConfig;
use cairo_lang_sierra_to_casm::metadata::calc_metadata;
use cairo_lang_sierra_type_size::ProgramRegistryInfo;
use h13::{build_db, cairo_files, diagnostics_text, first_diff, fnv, shape};
use salsa::Database;
use serde_json::{Value, json};
use vcommon::Rng;


const LIB_NAME: &str = "c20lib";
fn configs() -> Vec<(&'static str, Optimizations)> {
    vec![
        ("opt-default-inlining", Optimizations::enabled_with_default_movable_functions(InliningStrategy::Default)),
        ("opt-avoid-inlining", Optimizations::enabled_with_default_movable_functions(InliningStrategy::Avoid)),
        ("opt-disabled", Optimizations::Disabled),
    ]
}

#[derive(Clone)]
struct Prog {
    name: String,
    /// directory holding lib.cairo
    dir: PathBuf,
    uses_lib: bool,
    origin: String,
    /// 0 = dependent of c20lib (edition 2024_07), 1 = example of the repository (2023_10),
    /// 2 = tests/bug_samples file (2023_10 + experimental features)
    flavor: u8,
}

/// The non-core crates every database contains, besides the programs. The graph is what a project
/// file / Scarb produces: every crate is registered with a discriminator, dependencies name the
/// discriminator, two crates share the name `c20util`.
///   program -> c20lib (cached) -> c20util [v1]          program -> c20util [v2]
const UTIL_NAME: &str = "c20util";
const UTIL1_DISC: &str = "c20util 1.0.0 (path+file:///corpus/C20/util1)";
const UTIL2_DISC: &str = "c20util 2.0.0 (path+file:///corpus/C20/util2)";
const LIB_DISC: &str = "c20lib 0.3.0 (path+file:///corpus/C20/lib)";

fn corpus_dir(sub: &str) -> PathBuf {
    PathBuf::from(format!("{}/corpus/C20/{sub}", h13::verif_root()))
}

fn dep(name: &str, disc: &str) -> (String, DependencySettings) {
    (name.to_string(), DependencySettings { discriminator: Some(disc.to_string()) })
}

fn experimental(all: bool) -> ExperimentalFeaturesConfig {
    ExperimentalFeaturesConfig {
        negative_impls: all,
        associated_item_constraints: all,
        coupons: false,
        user_defined_inline_macros: all,
        repr_ptrs: false,
    }
}

fn util_settings(v2: bool) -> CrateSettings {
    CrateSettings {
        edition: if v2 { Edition::V2024_07 } else { Edition::V2023_10 },
        version: semver::Version::parse(if v2 { "2.0.0" } else { "1.0.0" }).ok(),
        ..Default::default()
    }
}

fn c20lib_settings() -> CrateSettings {
    CrateSettings {
        edition: Edition::V2024_07,
        version: semver::Version::parse("0.3.0").ok(),
        cfg_set: Some(CfgSet::from_iter([Cfg::kv("feature", "fast"), Cfg::kv("target", "c20")])),
        dependencies: BTreeMap::from([dep(UTIL_NAME, UTIL1_DISC)]),
        experimental_features: experimental(true),
        ..Default::default()
    }
}

fn prog_settings(flavor: u8) -> CrateSettings {
    match flavor {
        0 => CrateSettings {
            edition: Edition::V2024_07,
            dependencies: BTreeMap::from([dep(LIB_NAME, LIB_DISC), dep(UTIL_NAME, UTIL2_DISC)]),
            experimental_features: experimental(true),
            ..Default::default()
        },
        // a dependent on an edition that does not enforce visibility
        3 => CrateSettings {
            edition: Edition::V2023_01,
            dependencies: BTreeMap::from([dep(LIB_NAME, LIB_DISC), dep(UTIL_NAME, UTIL2_DISC)]),
            experimental_features: experimental(true),
            ..Default::default()
        },
        _ => CrateSettings { edition: Edition::V2023_10, experimental_features: experimental(flavor == 2), ..Default::default() },
    }
}

fn add_crate(db: &mut RootDatabase, name: &str, disc: Option<&str>, dir: &Path, settings: CrateSettings) -> CrateInput {
    let dbm: &mut dyn Database = db;
    let long = CrateLongId::Real { name: SmolStrId::from(dbm, name), discriminator: disc.map(|s| s.to_string()) };
    let crate_id = long.clone().intern(dbm);
    set_crate_config!(dbm, crate_id, Some(CrateConfiguration { root: Directory::Real(dir.to_path_buf()), settings, cache_file: None }));
    CrateInput::Real { name: name.to_string(), discriminator: disc.map(|s| s.to_string()) }
}

fn lib_input() -> CrateInput {
    CrateInput::Real { name: LIB_NAME.to_string(), discriminator: Some(LIB_DISC.to_string()) }
}
fn util_input(v2: bool) -> CrateInput {
    CrateInput::Real { name: UTIL_NAME.to_string(), discriminator: Some(if v2 { UTIL2_DISC } else { UTIL1_DISC }.to_string()) }
}

/// A database with corelib, the library crates and all programs from source; then, for the crates
/// named in `cached`, the `cache_file` is set (the only difference between the two databases).
fn open_db(opt: &Optimizations, progs: &[Prog], cached: &[(CrateInput, Vec<u8>)]) -> (RootDatabase, CrateInput, Vec<CrateInput>) {
    open_db_with_lib(opt, progs, cached, &corpus_dir("lib/src"))
}

fn open_db_with_lib(opt: &Optimizations, progs: &[Prog], cached: &[(CrateInput, Vec<u8>)], lib_dir: &Path) -> (RootDatabase, CrateInput, Vec<CrateInput>) {
    let mut db = build_db(Some(opt.clone()));
    add_crate(&mut db, UTIL_NAME, Some(UTIL1_DISC), &corpus_dir("util1/src"), util_settings(false));
    add_crate(&mut db, UTIL_NAME, Some(UTIL2_DISC), &corpus_dir("util2/src"), util_settings(true));
    let lib = add_crate(&mut db, LIB_NAME, Some(LIB_DISC), lib_dir, c20lib_settings());
    let inputs: Vec<CrateInput> = progs.iter().map(|p| add_crate(&mut db, &p.name, None, &p.dir, prog_settings(p.flavor))).collect();
    if !cached.is_empty() {
        let mut crate_configs = files_group_input(&db).crate_configs(&db).clone().unwrap();
        for (c, blob) in cached {
            crate_configs.get_mut(c).expect("cached crate is configured").cache_file = Some(BlobLongId::Virtual(blob.clone()));
        }
        set_crate_configs_input(&mut db, Some(crate_configs));
    }
    (db, lib, inputs)
}

fn core_input(db: &RootDatabase) -> CrateInput {
    db.crate_input(CrateId::core(db)).clone()
}

/// (sierra text with debug names, casm text). Failures and panics are data.
fn sierra_and_casm(db: &RootDatabase, input: &CrateInput) -> (String, String) {
    let r = vcommon::catch(AssertUnwindSafe(|| {
        let crate_ids = CrateInput::into_crate_ids(db, vec![input.clone()]);
        let Some(p) = db.get_sierra_program(crate_ids).to_option() else {
            return ("NO SIERRA (diagnostics)\n".to_string(), "NO CASM\n".to_string());
        };
        let program = replace_sierra_ids_in_program(db, &p.program);
        let sierra = program.to_string();
        let casm = match ProgramRegistryInfo::new(&program) {
            Err(e) => format!("registry error: {e}\n"),
            Ok(info) => match calc_metadata(&program, &info, Default::default()) {
                Err(e) => format!("metadata error: {e}\n"),
                Ok(md) => match cairo_lang_sierra_to_casm::compiler::compile(
                    &program,
                    &info,
                    &md,
                    SierraToCasmConfig { gas_usage_check: true, max_bytecode_size: usize::MAX },
                ) {
                    Ok(c) => c.to_string(),
                    Err(e) => format!("casm compilation error: {e}\n"),
                },
            },
        };
        (sierra, casm)
    }));
    match r {
        Ok(x) => x,
        Err(e) => {
            let s = format!("PANIC in sierra/casm generation: {e} at {}\n", vcommon::last_panic_location());
            (s.clone(), s)
        }
    }
}

struct Out {
    diag: String,
    sierra: String,
    casm: String,
}

fn observe(db: &RootDatabase, input: &CrateInput) -> Out {
    let diag = diagnostics_text(db, std::slice::from_ref(input));
    let (sierra, casm) = sierra_and_casm(db, input);
    Out { diag, sierra, casm }
}

// =====================================================================================================
// programs
// =====================================================================================================

const PRELUDE: &str = "#[allow(unused_imports)]
use c20lib::shapes::{Shape, Point, HasArea, ShapeNamed, Named, total_area, translate};
#[allow(unused_imports)]
use c20lib::store::{Counter, CounterTrait, Stack, StackTrait};
#[allow(unused_imports)]
use c20lib::store::nested::{Level, level_of, STEP};
#[allow(unused_imports)]
use c20lib::algo::{sum_to, sum_array, twice, fact, add_n, max_of, classify};
#[allow(unused_imports)]
use core::dict::Felt252Dict;

#[derive(Copy, Drop)]
struct Local {
    r: u32,
}
impl LocalArea of HasArea<Local> {
    fn area(self: @Local) -> u64 {
        let r: u64 = (*self.r).into();
        3 * r * r
    }
}
impl LocalNamed of Named {
    const ID: felt252 = 'local';
    type Out = felt252;
    fn name() -> felt252 {
        Self::ID + 1
    }
    fn wrap(x: felt252) -> felt252 {
        x * 2
    }
}
";

/// One snippet: the body of a `fn() -> felt252` that reaches the dependency in a particular way.
fn snippet(rng: &mut Rng) -> (String, &'static str) {
    let k = |rng: &mut Rng, n: u64| rng.below(n);
    let (a, b, c) = (k(rng, 100), k(rng, 100), k(rng, 9) + 1);
    let flag = if rng.bool() { "true" } else { "false" };
    match rng.below(72) {
        0 => (format!("c20lib::pick::<u8>({a}, {b}, {flag}).into()"), "generic:pick<u8>"),
        1 => (format!("c20lib::pick::<u128>({a}, {b}, {flag}).into()"), "generic:pick<u128>"),
        2 => (format!("c20lib::pick::<felt252>({a}, {b}, {flag})"), "generic:pick<felt252>"),
        3 => (format!("c20lib::pick::<Point>(Point {{ x: {a}, y: {b} }}, c20lib::ORIGIN, {flag}).x.into()"), "generic:pick<Point>"),
        4 => (format!("{{ let (x, y) = c20lib::pick::<(u16, u16)>(({a}, {b}), ({b}, {a}), {flag}); (x + y).into() }}"), "generic:pick<tuple>"),
        5 => (format!("{{ let (x, y) = c20lib::pair_of::<u16>({a}); (x + y).into() }}"), "generic:pair_of<u16>"),
        6 => (format!("{{ let (x, _) = c20lib::pair_of::<Shape>(Shape::Square({a})); x.area().try_into().unwrap() }}"), "generic:pair_of<Shape>"),
        7 => (format!("max_of::<u32>({a}, {b}).into()"), "generic:max_of<u32>"),
        8 => (format!("max_of::<i16>({a}, -{b}).into()"), "generic:max_of<i16>"),
        9 => (format!("{{ let mut st: Stack<u8> = StackTrait::empty(); st.push({a}); st.push({b}); st.size().into() }}"), "impl:Stack<u8>"),
        10 => (format!("{{ let mut st: Stack<Shape> = StackTrait::empty(); st.push(Shape::Rect(({a}, {b}))); st.size().into() }}"), "impl:Stack<Shape>"),
        11 => (format!("{{ let mut st: Stack<Array<felt252>> = StackTrait::empty(); st.push(array![{a}]); st.push(array![]); st.size().into() }}"), "impl:Stack<Array>"),
        12 => (format!("total_area(array![Shape::Square({a}), Shape::Rect(({b}, {c})), Shape::Empty]).try_into().unwrap()"), "generic:total_area<Shape>"),
        13 => (format!("total_area(array![Point {{ x: {a}, y: {b} }}]).try_into().unwrap()"), "generic:total_area<Point>"),
        14 => (format!("total_area(array![Local {{ r: {c} }}, Local {{ r: {a} }}]).try_into().unwrap()"), "generic:total_area<Local>"),
        15 => (format!("Shape::Square({a}).doubled().try_into().unwrap()"), "trait-default:doubled"),
        16 => (format!("if (Point {{ x: {a}, y: {b} }}).is_flat() {{ {a} }} else {{ {b} }}"), "trait-default:is_flat"),
        17 => (format!("Local {{ r: {c} }}.doubled().try_into().unwrap()"), "trait-default:doubled<Local>"),
        18 => ("c20lib::SCALE.into()".to_string(), "const:SCALE"),
        19 => (format!("(*c20lib::PRIMES.span()[{}]).into()", a % 4), "const:PRIMES"),
        20 => ("c20lib::NEG.into()".to_string(), "const:NEG"),
        21 => ("c20lib::ORIGIN.y.into() + STEP".to_string(), "const:ORIGIN+STEP"),
        22 => (format!("c20lib::scale({a}).into()"), "inline:always"),
        23 => (format!("c20lib::scale_slow({a}).into()"), "inline:never"),
        24 => (format!("twice({a}) + c20lib::small({b})"), "inline:twice+small"),
        25 => (format!("classify({})", a % 5), "match:classify"),
        26 => (format!("match level_of({}) {{ Level::Low => 0, Level::Mid(x) => x.into(), Level::High((x, y)) => x.into() + y.into() }}", a * 2), "match:level_of"),
        27 => (format!("add_n({a}, {b}).into()"), "closure:add_n"),
        28 => (format!("sum_to({c}).into()"), "loop:sum_to"),
        29 => (format!("sum_array(array![{a}, {b}, {c}].span()).into()"), "loop:sum_array"),
        30 => (format!("fact({c})"), "recursion:fact"),
        31 => (format!("c20lib::must(c20lib::checked({a}, {b})).into()"), "panic:must"),
        32 => (format!("{{ let (x, y) = ShapeNamed::wrap({a}); x + y + ShapeNamed::name() + ShapeNamed::ID }}"), "assoc:ShapeNamed"),
        33 => (format!("LocalNamed::wrap({a}) + LocalNamed::name()"), "assoc:LocalNamed"),
        34 => (format!("{{ let mut cn = CounterTrait::new({c}); cn.bump(); cn.bump(); cn.reset(); cn.bump(); if cn.full() {{ 1 }} else {{ cn.hits.into() }} }}"), "generate_trait:Counter"),
        35 => (format!("c20lib::boxed_sum(BoxTrait::new({a}), BoxTrait::new({b})).into()"), "box:boxed_sum"),
        36 => (format!("c20lib::snap_len(@array![{a}_u8, {b}]).into()"), "snapshot:snap_len"),
        37 => (format!("{{ let mut v = array![{a}, {b}]; v.append({c}); let x = v.pop_front().unwrap(); x + v.len().into() }}"), "core:array"),
        38 => (format!("core::cmp::min({a}_u32, {b}_u32).into()"), "core:cmp"),
        39 => (format!("{{ let x: u256 = {a}; let y: u256 = {b}; ((x * y + 1) % 1000).try_into().unwrap() }}"), "core:u256"),
        40 => (format!("core::pedersen::pedersen({a}, {b})"), "core:pedersen"),
        41 => (format!("core::poseidon::poseidon_hash_span(array![{a}, {b}].span())"), "core:poseidon"),
        42 => (format!("{{ let mut d: Felt252Dict<u32> = Default::default(); d.insert({a}, {b}); d.get({a}).into() }}"), "core:dict"),
        43 => (format!("{{ let s: ByteArray = \"abc{a}\"; s.len().into() }}"), "core:bytearray"),
        44 => (format!("{{ let x: Option<u8> = {}_u64.try_into(); match x {{ Option::Some(v) => v.into(), Option::None => {b} }} }}", a * 5), "core:try_into"),
        // the three-crate graph (c20lib -> c20util v1; this program -> c20util v2)
        46 => (format!("c20lib::graph::util_tag() + c20lib::graph::util_bump({a})"), "graph:through-lib"),
        47 => (format!("c20lib::graph::pair_sum(c20lib::graph::make_pair({a})) + c20lib::graph::leaf()"), "graph:v1-types"),
        48 => (format!("c20util::tag() + c20util::bump({a}) + c20util::only_v2()"), "graph:v2-direct"),
        49 => (format!("{{ let p = c20util::Pair {{ a: {a}, b: {b} }}; c20util::Summable::sum(@p) + c20lib::graph::sum_any(@c20lib::graph::UtilPair {{ a: {a}, b: {b} }}) }}"), "graph:both-versions"),
        50 => (format!("c20lib::graph::code_of(c20lib::graph::mode_of({flag})) + c20lib::graph::code_of(c20lib::graph::Mode::Fast({c}))"), "graph:reexported-enum"),
        // visibilities (public surface)
        51 => (format!("c20lib::vis::public_fn() + c20lib::vis::PUB_C + c20lib::vis::mixed().a + c20lib::vis::open::f()"), "vis:pub-items"),
        52 => (format!("c20lib::vis::reexported_f() + c20lib::vis::from_g1() + c20lib::vis::g1::from_g1() + c20lib::vis::through_globs()"), "vis:pub-uses"),
        53 => (format!("c20lib::vis::PubImplAlias::t(@{a}) + c20lib::vis::PubTrait::t(@{b}) + c20lib::vis::through_traits({c})"), "vis:pub-traits"),
        54 => (format!("match c20lib::vis::PubEnum::B({a}) {{ c20lib::vis::PubEnum::A => 0, c20lib::vis::PubEnum::B(x) => x }}"), "vis:pub-enum"),
        55 => (format!("{{ let t: c20lib::vis::PubAlias = {a}; c20lib::vis::aliases(t, {b}, {c}) }}"), "vis:type-alias"),
        // feature kinds / attributes
        56 => ("c20lib::feat::stable_fn() + c20lib::feat::hidden()".to_string(), "feat:stable"),
        57 => (format!("c20lib::feat::unstable_fn() + c20lib::feat::deprecated_fn() + {a}"), "feat:warns"),
        58 => (format!("{{ c20lib::feat::important(); c20lib::feat::token(); c20lib::feat::OLD + {a} }}"), "feat:must-use+deprecated-const"),
        // generics of every kind
        59 => (format!("c20lib::generic::arr_len(@[{a}_u16, {b}, {c}]).into() + c20lib::generic::times::<{c}>({a}).into()"), "generic:const"),
        60 => (format!("c20lib::generic::Describe::describe(@{a}_u8) + c20lib::generic::Describe::describe(@{a}_u64)"), "generic:negative-impl"),
        61 => (format!("{{ let w: Option<u8> = c20lib::generic::WrapU8::wrap({c}); match w {{ Option::Some(x) => x.into(), Option::None => 0 }} }}"), "generic:impl-alias"),
        62 => (format!("{{ let f: u16 = c20lib::generic::Container::first(@array![{a}_u16]); f.into() + c20lib::generic::ArrContainer::cap().into() + c20lib::generic::PairContainer::CAP.into() }}"), "generic:trait-items"),
        63 => (format!("match c20lib::generic::OuterImpl::go({a}) {{ Option::Some(x) => x.into(), Option::None => 0 }}"), "generic:impl-impl"),
        64 => (format!("{{ let h = c20lib::generic::holder3({c}); let [x, _, _] = h.items; x.into() }}"), "generic:const-struct"),
        // macros declared in the library, cfg items
        65 => (format!("c20lib::mac::add_one!({a}) + c20lib::mac::twice_sum!({a}, {b}) + c20lib::mac::twice_sum!({c})"), "macro:lib-declared"),
        66 => (format!("c20lib::mac::uses_own_macros({a})"), "macro:used-in-lib"),
        67 => ("c20lib::cfgd::speed() + c20lib::cfgd::not_slow() + c20lib::cfgd::TARGET".to_string(), "cfg:items"),
        // extern functions / types of the (cached) core library, called directly
        68 => (format!("{{ let x: Box<felt252> = BoxTrait::new({a}); x.unbox() + core::felt252_div({b}, {c}.try_into().unwrap()) }}"), "core:extern"),
        69 => (format!("{{ let n: NonZero<u32> = {c}; let (q, r) = core::traits::DivRem::div_rem({a}_u32, n); (q + r).into() }}"), "core:nonzero"),
        70 => (format!("{{ let (lo, hi) = core::integer::u128_wide_mul({a}, {b}); (lo + hi).into() }}"), "core:wide-mul"),
        71 => (format!("{{ let s = array![{a}_u8, {b}].span(); match s.get(1) {{ Option::Some(x) => (*x.unbox()).into(), Option::None => 0 }} }}"), "core:span-get"),
        _ => (format!("{{ let x: u8 = {a}; let y: u8 = {}; core::num::traits::WrappingAdd::wrapping_add(x, y).into() }}", b % 90 + 160), "core:wrapping"),
    }
}

fn gen_program(rng: &mut Rng, idx: usize) -> (String, Vec<&'static str>) {
    let mut s = String::from(PRELUDE);
    let n = 3 + rng.below(5) as usize;
    let mut kinds = vec![];
    for i in 0..n {
        let (body, kind) = snippet(rng);
        kinds.push(kind);
        let inline = match rng.below(4) {
            0 => "#[inline(always)]\n",
            1 => "#[inline(never)]\n",
            _ => "",
        };
        writeln!(s, "\n{inline}fn f_{idx}_{i}() -> felt252 {{\n    {body}\n}}").unwrap();
    }
    let calls: Vec<String> = (0..n).map(|i| format!("f_{idx}_{i}()")).collect();
    writeln!(s, "\nfn main() -> felt252 {{\n    {}\n}}", calls.join(" + ")).unwrap();
    (s, kinds)
}

/// One function body that must be REJECTED (or warned about) because of something stored in the cache:
/// visibility, feature kind, crate identity, cfg, generic parameters of cached items.
fn diag_snippet(rng: &mut Rng) -> (String, &'static str) {
    let a = rng.below(50);
    match rng.below(30) {
        0 => ("c20lib::vis::crate_fn()".into(), "vis:crate-fn"),
        1 => ("c20lib::vis::private_fn()".into(), "vis:private-fn"),
        2 => ("c20lib::vis::CRATE_C + c20lib::vis::PRIV_C".into(), "vis:consts"),
        3 => ("{ let m = c20lib::vis::mixed(); m.b + m.c }".into(), "vis:members"),
        4 => ("{ let s = c20lib::vis::CrateStruct { x: 1 }; s.x }".into(), "vis:crate-struct"),
        5 => ("{ let s = c20lib::vis::PrivStruct { x: 1 }; s.x }".into(), "vis:private-struct"),
        6 => ("{ let _e = c20lib::vis::CrateEnum::C; let _f = c20lib::vis::PrivEnum::D; 0 }".into(), "vis:enums"),
        7 => ("c20lib::vis::open::g() + c20lib::vis::crate_mod::f()".into(), "vis:crate-mod"),
        8 => ("c20lib::vis::closed::f()".into(), "vis:private-mod"),
        9 => ("c20lib::vis::crate_reexport() + c20lib::vis::priv_alias()".into(), "vis:uses"),
        10 => (format!("c20lib::vis::CrateTrait::u(@{a}) + c20lib::vis::CrateImpl::u(@{a})"), "vis:crate-trait-impl"),
        11 => (format!("c20lib::vis::PrivTrait::v(@{a}) + c20lib::vis::PrivImpl::v(@{a})"), "vis:private-trait-impl"),
        12 => ("{ let _a: c20lib::vis::CrateAlias = 1; let _b: c20lib::vis::PrivAlias = 2; 0 }".into(), "vis:type-aliases"),
        13 => (format!("c20lib::vis::CrateImplAlias::u(@{a})"), "vis:impl-alias"),
        14 => ("c20lib::vis::from_g2()".into(), "vis:crate-glob"),
        15 => ("c20lib::vis::from_g3()".into(), "vis:private-glob"),
        16 => ("c20lib::vis::g1_crate_only() + c20lib::vis::g1::g1_crate_only()".into(), "vis:crate-fn-through-pub-glob"),
        17 => ("c20lib::feat::unstable_fn() + c20lib::feat::unstable_nonote()".into(), "feat:unstable"),
        18 => ("c20lib::feat::deprecated_fn() + c20lib::feat::OLD".into(), "feat:deprecated"),
        19 => ("c20lib::feat::internal_fn()".into(), "feat:internal"),
        20 => ("{ let s = c20lib::feat::UnstableStruct { a: 1 }; s.a + c20lib::feat::unstable_mod::inside() }".into(), "feat:unstable-struct-mod"),
        21 => ("{ c20lib::feat::important(); c20lib::feat::token(); let _p = c20lib::feat::Ph {}; 0 }".into(), "feat:must-use-phantom"),
        22 => ("{ let p2 = c20util::Pair { a: 3, b: 4 }; c20lib::graph::pair_sum(p2) }".into(), "graph:mixed-versions"),
        23 => ("c20util::deep::leaf() + c20lib::graph::only_v2()".into(), "graph:items-of-other-version"),
        24 => ("c20lib::cfgd::only_slow()".into(), "cfg:absent-item"),
        25 => ("c20lib::generic::small_only(1_u32) + c20lib::generic::times::<99999999999>(1).into()".into(), "generic:bounds"),
        26 => ("{ let _d: c20lib::generic::Holder<u8, 2> = c20lib::generic::holder3(1); 0 }".into(), "generic:const-arg"),
        27 => ("c20lib::mac::crate_only!(1) + c20lib::mac::add_one!()".into(), "macro:misuse"),
        28 => ("c20lib::shapes::translate(1, 2, 3).x.into() + c20lib::algo::fact(true)".into(), "types:cached-signatures"),
        _ => ("{ let s = c20lib::shapes::Shape::Square(1); s.no_such_method() + c20lib::no_such_item() }".into(), "names:cached-paths"),
    }
}

fn gen_diag_program(rng: &mut Rng, idx: usize) -> (String, Vec<&'static str>) {
    let mut s = String::new();
    let n = 3 + rng.below(4) as usize;
    let mut kinds = vec![];
    for i in 0..n {
        let (body, kind) = diag_snippet(rng);
        kinds.push(kind);
        writeln!(s, "fn d_{idx}_{i}() -> felt252 {{\n    {body}\n}}\n").unwrap();
    }
    writeln!(s, "fn main() -> felt252 {{\n    c20lib::feat::stable_fn()\n}}").unwrap();
    (s, kinds)
}

fn collect_programs(work: &Path, tier: &str, rng: &mut Rng, kinds_seen: &mut BTreeMap<String, usize>) -> Vec<Prog> {
    let mut progs = vec![];
    let mut add = |name: String, text: &str, flavor: u8, origin: String| {
        let dir = work.join(&name);
        std::fs::create_dir_all(&dir).unwrap();
        std::fs::write(dir.join("lib.cairo"), text).unwrap();
        progs.push(Prog { name, dir: dir.canonicalize().unwrap(), uses_lib: flavor == 0 || flavor == 3, origin, flavor });
    };
    for p in cairo_files(&corpus_dir("progs")) {
        let name = p.file_stem().unwrap().to_string_lossy().to_string();
        let flavor = if name.contains("old_edition") { 3 } else { 0 };
        add(name, &std::fs::read_to_string(&p).unwrap(), flavor, p.to_string_lossy().to_string());
    }
    // dependents of the core library only: the examples of the repository
    let mut ex: Vec<PathBuf> = cairo_files(Path::new(&format!("{}/examples", h13::repo()))).into_iter().filter(|p| p.file_stem().unwrap() != "lib").collect();
    let n_ex = if tier == "thorough" { ex.len() } else if tier == "probe" { 0 } else { 12 };
    for _ in 0..n_ex.min(ex.len()) {
        let i = rng.below(ex.len() as u64) as usize;
        let p = ex.swap_remove(i);
        let name = format!("ex_{}", p.file_stem().unwrap().to_string_lossy());
        add(name, &std::fs::read_to_string(&p).unwrap(), 1, p.to_string_lossy().to_string());
    }
    let mut bugs: Vec<PathBuf> = cairo_files(Path::new(&format!("{}/tests/bug_samples", h13::repo()))).into_iter().filter(|p| p.file_stem().unwrap() != "lib").collect();
    let n_bug = if tier == "thorough" { bugs.len() } else if tier == "probe" { 0 } else { 24 };
    for _ in 0..n_bug.min(bugs.len()) {
        let i = rng.below(bugs.len() as u64) as usize;
        let p = bugs.swap_remove(i);
        let name = format!("bug_{}", p.file_stem().unwrap().to_string_lossy());
        add(name, &std::fs::read_to_string(&p).unwrap(), 2, p.to_string_lossy().to_string());
    }
    let n_gen = if tier == "thorough" { 400 } else if tier == "probe" { 0 } else { 60 };
    let n_gen = std::env::var("H20_GENERATED").ok().and_then(|s| s.parse().ok()).unwrap_or(n_gen);
    for i in 0..n_gen {
        let (text, kinds) = gen_program(rng, i);
        for k in kinds {
            *kinds_seen.entry(k.to_string()).or_insert(0) += 1;
        }
        add(format!("gen_{i:03}"), &text, 0, format!("generated #{i} (VERIF_SEED)"));
    }
    // programs that must be rejected / warned about because of what the cache stores
    let n_diag = if tier == "thorough" { 120 } else if tier == "probe" { 3 } else { 24 };
    for i in 0..n_diag {
        let (text, kinds) = gen_diag_program(rng, i);
        for k in kinds {
            *kinds_seen.entry(format!("diag/{k}")).or_insert(0) += 1;
        }
        add(format!("gdiag_{i:03}"), &text, if i % 6 == 5 { 3 } else { 0 }, format!("generated diagnostics program #{i} (VERIF_SEED)"));
    }
    progs
}

// =====================================================================================================
// the comparison
// =====================================================================================================

/// Self-test of the oracle: a blob generated from a *different* library source (consts and bodies
/// changed) is supplied as the cache of the unchanged library. If the cache is really consulted,
/// dependents must now compile differently. Returns how many programs changed.
fn sensitivity_control(opt: &Optimizations, progs: &[Prog], source_outs: &[Out], work: &Path) -> Result<(usize, usize), String> {
    let alt = work.join("altlib");
    h13::copy_dir(&corpus_dir("lib/src"), &alt).map_err(|e| e.to_string())?;
    let lp = alt.join("lib.cairo");
    let t = std::fs::read_to_string(&lp).map_err(|e| e.to_string())?;
    let t2 = t.replace("x * SCALE + 0", "x * SCALE + 1").replace("    x + 1\n", "    x + 2\n").replace("(x, x)", "(x, x,).clone()");
    let sp = alt.join("shapes.cairo");
    let st = std::fs::read_to_string(&sp).map_err(|e| e.to_string())?;
    let st2 = st.replace("            Shape::Empty => 0,", "            Shape::Empty => 1,").replace("acc += s.area();", "acc += s.area() + 1;");
    if t2 == t || st2 == st {
        return Err("sensitivity control: the library source no longer contains the lines to change".into());
    }
    std::fs::write(&lp, t2).map_err(|e| e.to_string())?;
    std::fs::write(&sp, st2).map_err(|e| e.to_string())?;
    // blob of the altered library
    let blob = {
        let (db, lib, _) = open_db_with_lib(opt, &[], &[], &alt);
        let r = vcommon::catch(AssertUnwindSafe(|| {
            let id = CrateInput::into_crate_ids(&db, vec![lib.clone()])[0];
            generate_crate_cache(&db, id).map_err(|e| format!("altered {LIB_NAME}: {e}"))
        }));
        match r {
            Ok(b) => b?,
            Err(e) => return Err(format!("panic in generate_crate_cache (altered library): {e}")),
        }
    };
    let (db, _, inputs) = open_db(opt, progs, &[(lib_input(), blob)]);
    let mut changed = 0;
    let mut users = 0;
    for (i, p) in progs.iter().enumerate() {
        if !p.uses_lib {
            continue;
        }
        users += 1;
        let (sierra, _) = sierra_and_casm(&db, &inputs[i]);
        if sierra != source_outs[i].sierra {
            changed += 1;
        }
    }
    Ok((changed, users))
}

#[derive(Clone, Default, PartialEq)]
struct Blobs {
    core: Vec<u8>,
    lib: Vec<u8>,
    util1: Vec<u8>,
    util2: Vec<u8>,
}

fn make_blobs(opt: &Optimizations) -> Result<Blobs, String> {
    let (db, lib, _) = open_db(opt, &[], &[]);
    let r = vcommon::catch(AssertUnwindSafe(|| {
        let core = generate_crate_cache(&db, CrateId::core(&db)).map_err(|e| format!("corelib: {e}"))?;
        let one = |input: CrateInput, what: &str| {
            let id = CrateInput::into_crate_ids(&db, vec![input])[0];
            generate_crate_cache(&db, id).map_err(|e| format!("{what}: {e}"))
        };
        let libb = one(lib.clone(), LIB_NAME)?;
        let util1 = one(util_input(false), "c20util v1")?;
        let util2 = one(util_input(true), "c20util v2")?;
        Ok::<_, String>(Blobs { core, lib: libb, util1, util2 })
    }));
    match r {
        Ok(x) => x,
        Err(e) => Err(format!("panic in generate_crate_cache: {e} at {}", vcommon::last_panic_location())),
    }
}

#[derive(Clone, Copy, PartialEq, Eq, Debug)]
enum CachedSet {
    /// corelib, c20lib and both c20util crates
    Both,
    CoreOnly,
    /// c20lib only (its dependency c20util v1 is compiled from source)
    LibOnly,
    /// c20lib and both c20util crates, corelib from source
    LibUtil,
}
impl CachedSet {
    fn name(&self) -> &'static str {
        match self {
            CachedSet::Both => "corelib+c20lib+c20util",
            CachedSet::CoreOnly => "corelib",
            CachedSet::LibOnly => "c20lib",
            CachedSet::LibUtil => "c20lib+c20util",
        }
    }
    fn parse(s: Option<&str>) -> CachedSet {
        match s {
            Some("corelib") => CachedSet::CoreOnly,
            Some("c20lib") => CachedSet::LibOnly,
            Some("c20lib+c20util") => CachedSet::LibUtil,
            _ => CachedSet::Both,
        }
    }
}

struct Job {
    cfg: usize,
    set: CachedSet,
}

fn run_job(
    cfgs: &[(&'static str, Optimizations)],
    job: &Job,
    progs: &[Prog],
    blobs: &Blobs,
    source_outs: &[Out],
) -> (Vec<Value>, usize) {
    let (cname, opt) = &cfgs[job.cfg];
    // build the cached database
    let probe = build_db(Some(opt.clone()));
    let core = core_input(&probe);
    drop(probe);
    let mut cached = vec![];
    if matches!(job.set, CachedSet::Both | CachedSet::CoreOnly) {
        cached.push((core, blobs.core.clone()));
    }
    if job.set != CachedSet::CoreOnly {
        cached.push((lib_input(), blobs.lib.clone()));
    }
    if matches!(job.set, CachedSet::Both | CachedSet::LibUtil) {
        cached.push((util_input(false), blobs.util1.clone()));
        cached.push((util_input(true), blobs.util2.clone()));
    }
    let (db, _, inputs) = open_db(opt, progs, &cached);
    let mut fails = vec![];
    let mut compared = 0;
    for (i, p) in progs.iter().enumerate() {
        let o = observe(&db, &inputs[i]);
        let s = &source_outs[i];
        for (what, a, b) in [("diagnostics", &o.diag, &s.diag), ("sierra", &o.sierra, &s.sierra), ("casm", &o.casm, &s.casm)] {
            compared += 1;
            if let Some((line, x, y)) = first_diff(a, b) {
                fails.push(json!({
                    "why": format!("{what} of `{}` differ when {} is supplied as a crate cache ({cname}); first differing line {line}", p.name, job.set.name()),
                    "program": p.name, "origin": p.origin, "flavor": p.flavor, "config": cname, "cached": job.set.name(),
                    "observed": what, "first_differing_line": line, "from_cache_line": x, "from_source_line": y,
                    "program_text": std::fs::read_to_string(p.dir.join("lib.cairo")).unwrap_or_default(),
                }));
                break;
            }
        }
    }
    (fails, compared)
}

fn main() {
    let args: Vec<String> = std::env::args().collect();
    vcommon::quiet_panics();
    if args.len() >= 3 && args[1] == "shape" {
        let (text, stats) = shape::translate();
        shape::write_if_changed(&args[2], &text);
        println!("{}", serde_json::to_string_pretty(&stats).unwrap());
        return;
    }
    if args.len() >= 3 && args[1] == "replay" {
        return replay(&args[2]);
    }
    if args.len() >= 2 && args[1] == "probe" {
        // debugging aid: diagnostics of the library crates and of the corpus programs, from source
        let work = PathBuf::from(format!("/tmp/C20/probe-{}", std::process::id()));
        std::fs::create_dir_all(&work).unwrap();
        let mut rng = Rng::from_env();
        let mut kinds = BTreeMap::new();
        let progs: Vec<Prog> = collect_programs(&work, "probe", &mut rng, &mut kinds);
        let (db, lib, inputs) = open_db(&configs()[0].1, &progs, &[]);
        for (n, i) in [("c20util v1", util_input(false)), ("c20util v2", util_input(true)), ("c20lib", lib)] {
            println!("===== {n}\n{}", diagnostics_text(&db, &[i]));
        }
        for (p, i) in progs.iter().zip(inputs.iter()) {
            let o = observe(&db, i);
            println!("===== {} ({} sierra lines)\n{}", p.name, o.sierra.lines().count(), o.diag);
        }
        let _ = std::fs::remove_dir_all(&work);
        return;
    }
    if args.len() < 3 {
        eprintln!("usage: h20 <out_dir> <tier> | h20 shape <file.v> | h20 replay <replay.json>");
        std::process::exit(2);
    }
    let (out, tier) = (args[1].clone(), args[2].clone());
    std::fs::create_dir_all(&out).unwrap();
    let t0 = Instant::now();
    let mut summary = serde_json::Map::new();
    let mut samples: Vec<String> = vec![];

    // ---------------- translator ----------------
    let (shape_text, shape_stats) = shape::translate();
    let shape_path = std::env::var("H20_SHAPE_OUT").unwrap_or_else(|_| format!("{}/coq/GenC20/Shape.v", h13::verif_root()));
    let changed = shape::write_if_changed(&shape_path, &shape_text);
    summary.insert("shape".into(), shape_stats);
    summary.insert("shape_file_rewritten".into(), json!(changed));

    // ---------------- oracle ----------------
    let mut failures: Vec<Value> = vec![];
    if std::env::var("H20_NO_ORACLE").is_err() {
        let mut rng = Rng::from_env();
        let work = PathBuf::from(format!("{out}/../work"));
        let _ = std::fs::remove_dir_all(&work);
        std::fs::create_dir_all(&work).unwrap();
        let mut kinds_seen = BTreeMap::new();
        let progs = collect_programs(&work, &tier, &mut rng, &mut kinds_seen);
        let cfgs = configs();
        // blobs: the cache stores the lowering before optimisations, so one generation serves all
        // configurations; the thorough tier generates them per configuration and checks that.
        let tb = Instant::now();
        let blobs = match make_blobs(&cfgs[0].1) {
            Ok(b) => b,
            Err(e) => {
                failures.push(json!({"why": format!("generate_crate_cache failed: {e}"), "program": "-", "config": cfgs[0].0}));
                Blobs::default()
            }
        };
        summary.insert("blob_core_bytes".into(), json!(blobs.core.len()));
        summary.insert("blob_lib_bytes".into(), json!(blobs.lib.len()));
        summary.insert("blob_util_bytes".into(), json!([blobs.util1.len(), blobs.util2.len()]));
        summary.insert("blob_seconds".into(), json!(tb.elapsed().as_secs_f64()));
        if !blobs.core.is_empty() {
            let mut jobs: Vec<Job> = vec![];
            for c in 0..cfgs.len() {
                jobs.push(Job { cfg: c, set: CachedSet::Both });
            }
            if tier == "thorough" {
                for c in 0..cfgs.len() {
                    jobs.push(Job { cfg: c, set: CachedSet::CoreOnly });
                    jobs.push(Job { cfg: c, set: CachedSet::LibOnly });
                    jobs.push(Job { cfg: c, set: CachedSet::LibUtil });
                }
            } else {
                let c = (rng.below(cfgs.len() as u64)) as usize;
                jobs.push(Job { cfg: c, set: CachedSet::CoreOnly });
                jobs.push(Job { cfg: (c + 1) % cfgs.len(), set: CachedSet::LibOnly });
                jobs.push(Job { cfg: (c + 2) % cfgs.len(), set: CachedSet::LibUtil });
            }
            // from-source outputs, one database per configuration
            let source: Mutex<BTreeMap<usize, Vec<Out>>> = Mutex::new(BTreeMap::new());
            std::thread::scope(|sc| {
                for c in 0..cfgs.len() {
                    let (progs, cfgs, source) = (&progs, &cfgs, &source);
                    sc.spawn(move || {
                        let (db, _, inputs) = open_db(&cfgs[c].1, progs, &[]);
                        let outs: Vec<Out> = inputs.iter().map(|i| observe(&db, i)).collect();
                        source.lock().unwrap().insert(c, outs);
                    });
                }
            });
            let source = source.into_inner().unwrap();
            let results: Mutex<Vec<(Vec<Value>, usize)>> = Mutex::new(vec![]);
            std::thread::scope(|sc| {
                for j in &jobs {
                    let (progs, cfgs, source, blobs, results) = (&progs, &cfgs, &source, &blobs, &results);
                    sc.spawn(move || {
                        let r = run_job(cfgs, j, progs, blobs, &source[&j.cfg]);
                        results.lock().unwrap().push(r);
                    });
                }
            });
            let mut compared = 0;
            for (f, n) in results.into_inner().unwrap() {
                failures.extend(f);
                compared += n;
            }
            // statistics on what the from-source outputs look like
            let src0 = &source[&0];
            let with_sierra = src0.iter().filter(|o| !o.sierra.starts_with("NO SIERRA") && !o.sierra.starts_with("PANIC")).count();
            let with_diag = src0.iter().filter(|o| o.diag.lines().count() > 1).count();
            let with_casm = src0.iter().filter(|o| o.casm.contains("ret;")).count();
            let distinct: std::collections::HashSet<u64> = source.values().flat_map(|v| v.iter().map(|o| fnv(&o.sierra) ^ fnv(&o.diag).rotate_left(9))).collect();
            let cfg_sensitive = (0..progs.len()).filter(|i| source.values().map(|v| fnv(&v[*i].sierra)).collect::<std::collections::HashSet<_>>().len() > 1).count();
            summary.insert("programs".into(), json!(progs.len()));
            summary.insert("programs_using_c20lib".into(), json!(progs.iter().filter(|p| p.uses_lib).count()));
            summary.insert("programs_with_sierra".into(), json!(with_sierra));
            summary.insert("programs_with_casm".into(), json!(with_casm));
            summary.insert("programs_with_diagnostics".into(), json!(with_diag));
            let diag_heads: Vec<String> = progs
                .iter()
                .zip(src0.iter())
                .filter(|(_, o)| o.diag.lines().count() > 1)
                .map(|(p, o)| format!("{}: {}", p.name, o.diag.lines().next().unwrap_or("")))
                .collect();
            summary.insert("programs_with_diagnostics_first_line".into(), json!(diag_heads));
            summary.insert("programs_whose_sierra_depends_on_config".into(), json!(cfg_sensitive));
            summary.insert("distinct_outputs".into(), json!(distinct.len()));
            summary.insert("configs".into(), json!(cfgs.iter().map(|c| c.0).collect::<Vec<_>>()));
            summary.insert("jobs".into(), json!(jobs.iter().map(|j| format!("{} / cached {}", cfgs[j.cfg].0, j.set.name())).collect::<Vec<_>>()));
            summary.insert("comparisons".into(), json!(compared));
            summary.insert("generated_snippet_kinds".into(), json!(kinds_seen));
            for p in progs.iter().filter(|p| p.name.starts_with("gen_")).take(2) {
                let t = std::fs::read_to_string(p.dir.join("lib.cairo")).unwrap();
                let body: Vec<&str> = t.lines().skip(PRELUDE.lines().count()).filter(|l| !l.trim().is_empty()).collect();
                samples.push(format!("program {}: {}", p.name, body.join(" ")));
            }
            samples.push(format!(
                "program {} ({}): from source {} Sierra lines, {} CASM lines; identical from cache in {} job(s)",
                progs[0].name,
                progs[0].origin,
                src0[0].sierra.lines().count(),
                src0[0].casm.lines().count(),
                jobs.len()
            ));
            match sensitivity_control(&cfgs[2].1, &progs, &source[&2], &work) {
                Ok((changed, users)) => {
                    summary.insert("control_programs_changed_by_wrong_blob".into(), json!(changed));
                    summary.insert("control_programs_using_lib".into(), json!(users));
                }
                Err(e) => {
                    summary.insert("control_error".into(), json!(e));
                }
            }
            if tier == "thorough" {
                // the blob does not depend on the optimisation configuration
                for c in 1..cfgs.len() {
                    match make_blobs(&cfgs[c].1) {
                        Ok(b) => {
                            summary.insert(format!("blob_identical_{}", cfgs[c].0), json!(b == blobs));
                        }
                        Err(e) => failures.push(json!({"why": format!("generate_crate_cache failed: {e}"), "program": "-", "config": cfgs[c].0})),
                    }
                }
            }
        }
        let _ = std::fs::remove_dir_all(&work);
    }
    summary.insert("seconds".into(), json!(t0.elapsed().as_secs_f64()));
    std::fs::write(format!("{out}/summary.json"), serde_json::to_string_pretty(&Value::Object(summary.clone())).unwrap()).unwrap();
    std::fs::write(format!("{out}/samples.txt"), samples.join("\n") + "\n").unwrap();
    std::fs::write(format!("{out}/oracle_failures.json"), serde_json::to_string_pretty(&failures).unwrap()).unwrap();
    println!(
        "h20: shape types={} | programs={} comparisons={} failures={} ({:.0}s)",
        summary["shape"]["types"],
        summary.get("programs").cloned().unwrap_or(json!(0)),
        summary.get("comparisons").cloned().unwrap_or(json!(0)),
        failures.len(),
        t0.elapsed().as_secs_f64()
    );
}

fn replay(path: &str) {
    let v: Value = serde_json::from_str(&std::fs::read_to_string(path).expect("read replay")).expect("json");
    let work = PathBuf::from(format!("/tmp/C20/replay-{}", std::process::id()));
    let dir = work.join("prog");
    std::fs::create_dir_all(&dir).unwrap();
    std::fs::write(dir.join("lib.cairo"), v["program_text"].as_str().expect("program_text")).unwrap();
    let prog = Prog { name: v["program"].as_str().unwrap_or("prog").to_string(), dir: dir.canonicalize().unwrap(), uses_lib: true, origin: "replay".into(), flavor: v["flavor"].as_u64().unwrap_or(0) as u8 };
    let cfgs = configs();
    let c = cfgs.iter().position(|c| Some(c.0) == v["config"].as_str()).unwrap_or(0);
    let set = CachedSet::parse(v["cached"].as_str());
    let blobs = make_blobs(&cfgs[c].1).expect("blobs");
    let progs = vec![prog];
    let (db, _, inputs) = open_db(&cfgs[c].1, &progs, &[]);
    let src = vec![observe(&db, &inputs[0])];
    let (fails, _) = run_job(&cfgs, &Job { cfg: c, set }, &progs, &blobs, &src);
    let _ = std::fs::remove_dir_all(&work);
    if fails.is_empty() {
        println!("no difference on this program");
    } else {
        println!("{}", serde_json::to_string_pretty(&fails[0]).unwrap());
        std::process::exit(1);
    }
}
