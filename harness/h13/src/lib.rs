//! Shared by the two binaries of this package: building compiler databases, observing what the
//! properties C13/C20 talk about (diagnostics text, Sierra text, CASM text), small utilities.
use std::panic::AssertUnwindSafe;
use std::path::{Path, PathBuf};

use cairo_lang_compiler::db::RootDatabase;
use cairo_lang_compiler::diagnostics::DiagnosticsReporter;
use cairo_lang_diagnostics::ToOption;
use cairo_lang_filesystem::db::init_dev_corelib;
use cairo_lang_filesystem::ids::CrateInput;
use cairo_lang_lowering::optimizations::config::Optimizations;
use cairo_lang_sierra_generator::db::SierraGenGroup;
use cairo_lang_sierra_generator::replace_ids::replace_sierra_ids_in_program;

pub mod disk;
pub mod shape;

/// The compiler checkout under test: `VERIF_REPO` (set by lib/seedeval.sh for scratch worktrees) or /repo.
pub fn repo() -> String {
    std::env::var("VERIF_REPO").ok().filter(|s| !s.is_empty()).unwrap_or_else(|| "/repo".to_string())
}
/// The /verif checkout this binary belongs to (…/harness/target/debug/<bin> -> …), so that a scratch
/// worktree reads its own corpus.
pub fn verif_root() -> String {
    if let Ok(r) = std::env::var("VERIF_ROOT") {
        return r;
    }
    let exe = std::env::current_exe().ok();
    let root = exe.as_ref().and_then(|e| e.parent()).and_then(|p| p.parent()).and_then(|p| p.parent()).and_then(|p| p.parent());
    match root {
        Some(r) if r.join("corpus").is_dir() => r.to_string_lossy().to_string(),
        _ => "/verif".to_string(),
    }
}
pub fn corelib() -> String {
    format!("{}/corelib/src", repo())
}

/// A database as `cairo-compile` builds it (default plugins, auto withdraw gas), with the
/// development corelib compiled from source.
pub fn build_db(opt: Option<Optimizations>) -> RootDatabase {
    let mut b = RootDatabase::builder();
    if let Some(o) = opt {
        b.with_optimizations(o);
    }
    let mut db = b.build().expect("RootDatabase");
    init_dev_corelib(&mut db, PathBuf::from(corelib()));
    db
}

/// All diagnostics (errors and warnings, with file:line:col and the code snippet) of the given
/// crates, exactly as `DiagnosticsReporter::write_to_string` formats them. A compiler panic is data.
pub fn diagnostics_text(db: &RootDatabase, inputs: &[CrateInput]) -> String {
    let r = vcommon::catch(AssertUnwindSafe(|| {
        let mut s = String::new();
        let failed = DiagnosticsReporter::write_to_string(&mut s).with_crates(inputs).check(db);
        format!("{s}[failed={failed}]\n")
    }));
    match r {
        Ok(s) => s,
        Err(e) => format!("PANIC in diagnostics: {e} at {}\n", strip_loc(&vcommon::last_panic_location())),
    }
}

/// The Sierra program of the crates as text, ids replaced by their debug names (the numeric ids are
/// interning indices and legitimately depend on the order in which a database saw things).
pub fn sierra_text(db: &RootDatabase, inputs: &[CrateInput]) -> String {
    let r = vcommon::catch(AssertUnwindSafe(|| {
        let crate_ids = CrateInput::into_crate_ids(db, inputs.to_vec());
        match db.get_sierra_program(crate_ids).to_option() {
            Some(p) => replace_sierra_ids_in_program(db, &p.program).to_string(),
            None => "NO SIERRA (diagnostics)\n".to_string(),
        }
    }));
    match r {
        Ok(s) => s,
        Err(e) => format!("PANIC in sierra generation: {e} at {}\n", strip_loc(&vcommon::last_panic_location())),
    }
}

fn strip_loc(s: &str) -> String {
    s.to_string()
}

/// First line at which two texts differ: (1-based line number, line of a, line of b).
pub fn first_diff(a: &str, b: &str) -> Option<(usize, String, String)> {
    if a == b {
        return None;
    }
    let mut la = a.lines();
    let mut lb = b.lines();
    let mut n = 0;
    loop {
        n += 1;
        match (la.next(), lb.next()) {
            (Some(x), Some(y)) if x == y => continue,
            (x, y) => {
                return Some((n, x.unwrap_or("<end>").to_string(), y.unwrap_or("<end>").to_string()));
            }
        }
    }
}

pub fn fnv(s: &str) -> u64 {
    let mut h: u64 = 0xcbf29ce484222325;
    for b in s.bytes() {
        h ^= b as u64;
        h = h.wrapping_mul(0x100000001b3);
    }
    h
}

pub fn copy_dir(src: &Path, dst: &Path) -> std::io::Result<()> {
    std::fs::create_dir_all(dst)?;
    for e in std::fs::read_dir(src)? {
        let e = e?;
        let p = e.path();
        let d = dst.join(e.file_name());
        if p.is_dir() {
            copy_dir(&p, &d)?;
        } else {
            std::fs::copy(&p, &d)?;
        }
    }
    Ok(())
}

/// All `.cairo` files under `dir`, sorted.
pub fn cairo_files(dir: &Path) -> Vec<PathBuf> {
    let mut res = vec![];
    let mut stack = vec![dir.to_path_buf()];
    while let Some(d) = stack.pop() {
        let Ok(rd) = std::fs::read_dir(&d) else { continue };
        for e in rd.flatten() {
            let p = e.path();
            if p.is_dir() {
                stack.push(p);
            } else if p.extension().and_then(|s| s.to_str()) == Some("cairo") {
                res.push(p);
            }
        }
    }
    res.sort();
    res
}
