//! C13, on-disk histories. A scratch project directory whose files are really created, deleted,
//! rewritten and renamed on disk between the steps, interleaved with override edits and override
//! unsets (falling back to the disk content).
//!
//! Semantics of a step: "what a fresh database sees now on the same disk + the same overrides". The
//! live database is REQUIRED to agree after every step that contains an input change: an override
//! set / unset (also of an unrelated file, also a no-op re-set of the same content). A step that
//! only touches the disk changes no input: salsa re-reads on-disk files only in a new revision, so the
//! live database may legitimately serve the memoized answer; such steps are compared too, but a
//! difference there is only counted (`disk_only_steps_stale`), never an alarm.
use std::collections::BTreeMap;
use std::path::{Path, PathBuf};
use std::sync::Mutex;
use std::sync::atomic::{AtomicUsize, Ordering};

use cairo_lang_compiler::db::RootDatabase;
use cairo_lang_compiler::project::setup_project;
use cairo_lang_filesystem::db::FilesGroup;
use cairo_lang_filesystem::ids::{CrateInput, FileLongId};
use cairo_lang_filesystem::override_file_content;
use cairo_lang_utils::Intern;
use salsa::Database;
use serde_json::{Value, json};
use vcommon::Rng;

use crate::{build_db, diagnostics_text, first_diff, fnv, sierra_text};

const PROJECT_TOML: &str = "[crate_roots]\napp = \"src\"\ndep = \"dep\"\n\n[config.global]\nedition = \"2024_07\"\n\n[config.global.dependencies]\ndep = { discriminator = \"dep\" }\n";

/// One primitive operation; paths are relative to the project directory.
#[derive(Clone, Debug)]
pub enum Op {
    Write { path: String, text: String },
    Delete { path: String },
    Rename { from: String, to: String },
    /// set (Some) or unset (None) the override of a file - an input change
    Override { path: String, text: Option<String> },
}
impl Op {
    fn is_input_change(&self) -> bool {
        matches!(self, Op::Override { .. })
    }
    fn to_json(&self) -> Value {
        match self {
            Op::Write { path, text } => json!({"op": "write", "path": path, "text": text}),
            Op::Delete { path } => json!({"op": "delete", "path": path}),
            Op::Rename { from, to } => json!({"op": "rename", "from": from, "to": to}),
            Op::Override { path, text } => json!({"op": "override", "path": path, "text": text}),
        }
    }
    fn from_json(v: &Value) -> Op {
        let s = |k: &str| v[k].as_str().unwrap_or("").to_string();
        match v["op"].as_str().unwrap_or("") {
            "write" => Op::Write { path: s("path"), text: s("text") },
            "delete" => Op::Delete { path: s("path") },
            "rename" => Op::Rename { from: s("from"), to: s("to") },
            _ => Op::Override { path: s("path"), text: v["text"].as_str().map(|x| x.to_string()) },
        }
    }
}

#[derive(Clone, Debug)]
pub struct Step {
    pub kind: String,
    pub ops: Vec<Op>,
}

/// What the generator knows about the project.
struct World {
    disk: BTreeMap<String, String>,
    over: BTreeMap<String, String>,
    counter: usize,
}
impl World {
    fn cur(&self, p: &str) -> Option<&String> {
        self.over.get(p).or_else(|| self.disk.get(p))
    }
}

fn module_text(k: usize, flavor: u64, name: &str) -> String {
    match flavor {
        0 => format!("pub fn val() -> felt252 {{\n    {k}\n}}\n"),
        1 => format!("pub const K: felt252 = {k};\n\npub fn val() -> felt252 {{\n    K + {k}\n}}\n"),
        2 => format!("pub fn val() -> felt252 {{\n    undefined_{k}\n}}\n"),
        3 => format!("mod b;\n\npub fn val() -> felt252 {{\n    b::val() + {k}\n}}\n"),
        4 => format!("pub fn val() -> felt252 {{\n    let unused_{k} = {k};\n    {k}\n}}\n"),
        _ => format!("// module {name}\npub fn val() -> felt252 {{\n    let a: Array<felt252> = array![{k}];\n    let _b = a;\n    let _c = a;\n    {k}\n}}\n"),
    }
}

fn lib_text(mods: &[String], use_dep: bool, k: usize) -> String {
    let mut s = String::new();
    for m in mods {
        s.push_str(&format!("mod {m};\n"));
    }
    let mut terms: Vec<String> = mods.iter().map(|m| format!("{m}::val()")).collect();
    if use_dep {
        terms.push("dep::two()".into());
    }
    terms.push(k.to_string());
    s.push_str(&format!("\nfn main() -> felt252 {{\n    {}\n}}\n", terms.join(" + ")));
    s
}

fn declared_mods(lib: &str) -> Vec<String> {
    lib.lines().filter_map(|l| l.strip_prefix("mod ").and_then(|r| r.strip_suffix(';'))).map(|s| s.to_string()).collect()
}

struct Gen<'a> {
    rng: &'a mut Rng,
}

const NAMES: [&str; 6] = ["a", "m1", "m2", "m3", "util", "zz"];

impl Gen<'_> {
    fn initial(&mut self) -> World {
        let mut disk = BTreeMap::new();
        disk.insert("cairo_project.toml".to_string(), PROJECT_TOML.to_string());
        // some declared modules have no file yet
        let mut mods = vec!["util".to_string()];
        for n in ["a", "m1", "m2"] {
            if self.rng.below(3) > 0 {
                mods.push(n.to_string());
            }
        }
        disk.insert("src/lib.cairo".into(), lib_text(&mods, self.rng.bool(), 0));
        disk.insert("src/util.cairo".into(), module_text(1, 0, "util"));
        for n in ["a", "m1", "m2", "m3"] {
            if self.rng.below(2) == 0 {
                disk.insert(format!("src/{n}.cairo"), module_text(2, self.rng.below(2), n));
            }
        }
        if self.rng.bool() {
            disk.insert("dep/lib.cairo".into(), "pub fn two() -> felt252 {\n    2\n}\n".into());
        }
        World { disk, over: BTreeMap::new(), counter: 10 }
    }

    /// An input change that does not touch what the disk step was about.
    fn unrelated_override(&mut self, w: &mut World) -> Op {
        w.counter += 1;
        let p = "src/util.cairo".to_string();
        let base = w.cur(&p).cloned().unwrap_or_else(|| module_text(1, 0, "util"));
        Op::Override { path: p, text: Some(format!("{base}// touch {}\n", w.counter)) }
    }

    fn noop_override(&mut self, w: &World) -> Op {
        // the same content as the current override of util (or, without one, its disk content)
        let p = "src/util.cairo".to_string();
        let t = w.cur(&p).cloned().unwrap_or_else(|| module_text(1, 0, "util"));
        Op::Override { path: p, text: Some(t) }
    }

    fn step(&mut self, w: &mut World) -> Step {
        w.counter += 1;
        let k = w.counter;
        let lib_path = "src/lib.cairo".to_string();
        let lib = w.cur(&lib_path).cloned().unwrap_or_default();
        let mods = declared_mods(&lib);
        let use_dep = lib.contains("dep::two()");
        // a declared module without a file is the most interesting target
        let missing: Vec<String> = mods.iter().filter(|m| w.cur(&format!("src/{m}.cairo")).is_none()).cloned().collect();
        let name = if !missing.is_empty() && self.rng.below(10) < 6 { self.rng.pick(&missing).clone() } else { self.rng.pick(&NAMES).to_string() };
        let file = format!("src/{name}.cairo");
        let (kind, mut ops): (&str, Vec<Op>) = match self.rng.below(100) {
            0..=13 => {
                // declare a module (its file may not exist yet), on disk or through an override
                let mut m2 = mods.clone();
                if !m2.contains(&name) {
                    m2.push(name.clone());
                }
                let t = lib_text(&m2, use_dep, k);
                if self.rng.bool() && !w.over.contains_key(&lib_path) {
                    ("disk:declare-module", vec![Op::Write { path: lib_path.clone(), text: t }])
                } else {
                    ("override:declare-module", vec![Op::Override { path: lib_path.clone(), text: Some(t) }])
                }
            }
            14..=20 => {
                let m2: Vec<String> = mods.iter().filter(|m| **m != name).cloned().collect();
                let t = lib_text(&m2, use_dep, k);
                if self.rng.bool() && !w.over.contains_key(&lib_path) {
                    ("disk:undeclare-module", vec![Op::Write { path: lib_path.clone(), text: t }])
                } else {
                    ("override:undeclare-module", vec![Op::Override { path: lib_path.clone(), text: Some(t) }])
                }
            }
            21..=38 => {
                if w.disk.contains_key(&file) {
                    ("disk:rewrite-file", vec![Op::Write { path: file.clone(), text: module_text(k, self.rng.below(6), &name) }])
                } else {
                    ("disk:create-file", vec![Op::Write { path: file.clone(), text: module_text(k, self.rng.below(6), &name) }])
                }
            }
            39..=48 => {
                if w.disk.contains_key(&file) {
                    ("disk:delete-file", vec![Op::Delete { path: file.clone() }])
                } else {
                    ("disk:create-file", vec![Op::Write { path: file.clone(), text: module_text(k, self.rng.below(3), &name) }])
                }
            }
            49..=54 => {
                // rename a module file; sometimes the declaration follows
                let other = self.rng.pick(&NAMES).to_string();
                let to = format!("src/{other}.cairo");
                if w.disk.contains_key(&file) && !w.disk.contains_key(&to) && other != name {
                    let mut ops = vec![Op::Rename { from: file.clone(), to }];
                    if self.rng.bool() && !w.over.contains_key(&lib_path) {
                        let m2: Vec<String> = mods.iter().map(|m| if *m == name { other.clone() } else { m.clone() }).collect();
                        ops.push(Op::Write { path: lib_path.clone(), text: lib_text(&m2, use_dep, k) });
                    }
                    ("disk:rename-file", ops)
                } else {
                    ("disk:create-file", vec![Op::Write { path: file.clone(), text: module_text(k, 0, &name) }])
                }
            }
            55..=64 => {
                // directory module: `a.cairo` declares `mod b;`, its file is src/a/b.cairo
                let sub = format!("src/{name}/b.cairo");
                if w.disk.contains_key(&sub) {
                    if self.rng.bool() {
                        ("disk:delete-submodule-file", vec![Op::Delete { path: sub }])
                    } else {
                        ("disk:rewrite-submodule-file", vec![Op::Write { path: sub, text: module_text(k, self.rng.below(3), "b") }])
                    }
                } else if self.rng.bool() {
                    ("disk:create-submodule-file", vec![Op::Write { path: sub, text: module_text(k, 0, "b") }])
                } else {
                    ("disk:module-gets-submodule", vec![Op::Write { path: file.clone(), text: module_text(k, 3, &name) }])
                }
            }
            65..=74 => {
                // the second crate root
                let p = "dep/lib.cairo".to_string();
                let mut ops = if w.disk.contains_key(&p) && self.rng.below(3) == 0 {
                    vec![Op::Delete { path: p }]
                } else {
                    vec![Op::Write { path: p, text: format!("pub fn two() -> felt252 {{\n    {}\n}}\n", k) }]
                };
                if !use_dep && !w.over.contains_key(&lib_path) && self.rng.bool() {
                    ops.push(Op::Write { path: lib_path.clone(), text: lib_text(&mods, true, k) });
                }
                ("disk:second-crate", ops)
            }
            75..=86 => {
                // override of a file that may or may not exist on disk
                ("override:set", vec![Op::Override { path: file.clone(), text: Some(module_text(k, self.rng.below(6), &name)) }])
            }
            _ => {
                // unset: fall back to whatever the disk holds now (possibly nothing)
                let cands: Vec<String> = w.over.keys().cloned().collect();
                if cands.is_empty() {
                    ("override:set", vec![Op::Override { path: file.clone(), text: Some(module_text(k, 0, &name)) }])
                } else {
                    let p = self.rng.pick(&cands).clone();
                    ("override:unset", vec![Op::Override { path: p, text: None }])
                }
            }
        };
        // what follows a disk step: (a) nothing, (b) an unrelated override edit, (c) a no-op re-set
        let mut kind = kind.to_string();
        if !ops.iter().any(|o| o.is_input_change()) {
            match self.rng.below(10) {
                0..=2 => kind.push_str(" + (a) nothing"),
                3..=6 => {
                    ops.push(self.unrelated_override(w));
                    kind.push_str(" + (b) unrelated override edit");
                }
                _ => {
                    ops.push(self.noop_override(w));
                    kind.push_str(" + (c) no-op override set");
                }
            }
        }
        Step { kind, ops }
    }
}

fn apply_world(w: &mut World, op: &Op) {
    match op {
        Op::Write { path, text } => {
            w.disk.insert(path.clone(), text.clone());
        }
        Op::Delete { path } => {
            w.disk.remove(path);
        }
        Op::Rename { from, to } => {
            if let Some(t) = w.disk.remove(from) {
                w.disk.insert(to.clone(), t);
            }
        }
        Op::Override { path, text } => match text {
            Some(t) => {
                w.over.insert(path.clone(), t.clone());
            }
            None => {
                w.over.remove(path);
            }
        },
    }
}

fn set_override(db: &mut RootDatabase, p: &Path, content: Option<&str>) {
    let db_mut: &mut dyn Database = db;
    let fid = FileLongId::OnDisk(p.to_path_buf()).intern(db_mut);
    let c: Option<std::sync::Arc<str>> = content.map(|s| s.into());
    override_file_content!(db_mut, fid, c);
}

fn open_db(root: &Path) -> Result<(RootDatabase, Vec<CrateInput>), String> {
    let mut db = build_db(None);
    let inputs = setup_project(&mut db, root).map_err(|e| format!("{e:?}"))?;
    // diagnostics / Sierra of the application crate (the dependency is reached through it)
    let app: Vec<CrateInput> = inputs
        .into_iter()
        .filter(|c| matches!(c, CrateInput::Real { name, .. } if name == "app"))
        .collect();
    Ok((db, app))
}

pub struct Failure {
    pub step: usize,
    pub what: String,
    pub line: usize,
    pub live: String,
    pub fresh: String,
}

#[derive(Default)]
pub struct Stats {
    pub steps: usize,
    pub required: usize,
    pub disk_only: usize,
    pub disk_only_stale: usize,
    pub kinds: BTreeMap<String, usize>,
    pub with_sierra: usize,
    pub with_missing_file_diag: usize,
    pub outputs: std::collections::HashSet<u64>,
}

/// Runs a history: generated from `rng` (n steps) or recorded.
pub fn run_history(work: &Path, n: usize, rng: Option<&mut Rng>, initial: Option<&Value>, recorded: &[Step], stats: &mut Stats, verbose: bool)
-> (Value, Vec<Step>, Option<Failure>) {
    let _ = std::fs::remove_dir_all(work);
    std::fs::create_dir_all(work).unwrap();
    let root = work.canonicalize().unwrap();
    let mut generator = rng.map(|r| Gen { rng: r });
    let mut world = match (generator.as_mut(), initial) {
        (Some(g), _) => g.initial(),
        (None, Some(v)) => World {
            disk: v.as_object().unwrap().iter().map(|(k, t)| (k.clone(), t.as_str().unwrap_or("").to_string())).collect(),
            over: BTreeMap::new(),
            counter: 10,
        },
        _ => panic!("no initial contents"),
    };
    let initial_json = json!(world.disk);
    for (p, t) in &world.disk {
        let fp = root.join(p);
        std::fs::create_dir_all(fp.parent().unwrap()).unwrap();
        std::fs::write(fp, t).unwrap();
    }
    let (mut db, inputs) = match open_db(&root) {
        Ok(x) => x,
        Err(e) => panic!("setup_project on the scratch project: {e}"),
    };
    // first query: some module files are missing now
    let d0 = diagnostics_text(&db, &inputs);
    let _ = sierra_text(&db, &inputs);
    if verbose {
        println!("initial: {} diagnostics lines", d0.lines().count());
    }
    let mut done = vec![];
    for i in 0..n {
        let step = match generator.as_mut() {
            Some(g) => g.step(&mut world),
            None => match recorded.get(i) {
                Some(s) => s.clone(),
                None => break,
            },
        };
        let mut input_changed = false;
        for op in &step.ops {
            match op {
                Op::Write { path, text } => {
                    let fp = root.join(path);
                    std::fs::create_dir_all(fp.parent().unwrap()).unwrap();
                    std::fs::write(fp, text).unwrap();
                }
                Op::Delete { path } => {
                    let _ = std::fs::remove_file(root.join(path));
                }
                Op::Rename { from, to } => {
                    let tp = root.join(to);
                    std::fs::create_dir_all(tp.parent().unwrap()).unwrap();
                    let _ = std::fs::rename(root.join(from), tp);
                }
                Op::Override { path, text } => {
                    set_override(&mut db, &root.join(path), text.as_deref());
                    input_changed = true;
                }
            }
            apply_world(&mut world, op);
        }
        stats.steps += 1;
        *stats.kinds.entry(step.kind.clone()).or_insert(0) += 1;
        done.push(step.clone());
        // the fresh database: same disk, same overrides
        let (mut fresh, finputs) = open_db(&root).expect("fresh database");
        for (p, t) in &world.over {
            set_override(&mut fresh, &root.join(p), Some(t));
        }
        let fd = diagnostics_text(&fresh, &finputs);
        let fs = sierra_text(&fresh, &finputs);
        drop(fresh);
        let ld = diagnostics_text(&db, &inputs);
        let ls = sierra_text(&db, &inputs);
        stats.outputs.insert(fnv(&fd) ^ fnv(&fs).rotate_left(13));
        if !fs.starts_with("NO SIERRA") && !fs.starts_with("PANIC") {
            stats.with_sierra += 1;
        }
        if fd.contains("Module file not found") || fd.contains("not found.\n") {
            stats.with_missing_file_diag += 1;
        }
        if verbose {
            println!("step {i} {:60} required={} diag_lines={} sierra_lines={}", step.kind, input_changed, fd.lines().count(), fs.lines().count());
        }
        let diff = [("diagnostics", &ld, &fd), ("sierra", &ls, &fs)]
            .iter()
            .find_map(|(what, a, b)| first_diff(a, b).map(|(line, x, y)| (what.to_string(), line, x, y)));
        if input_changed {
            stats.required += 1;
            if let Some((what, line, x, y)) = diff {
                return (initial_json, done, Some(Failure { step: i, what, line, live: x, fresh: y }));
            }
        } else {
            stats.disk_only += 1;
            if diff.is_some() {
                stats.disk_only_stale += 1;
            }
        }
    }
    (initial_json, done, None)
}

/// The leg: returns (summary entries, samples, failures).
pub fn run_leg(out: &str, tier: &str) -> (serde_json::Map<String, Value>, Vec<String>, Vec<Value>) {
    let seed = std::env::var("VERIF_SEED").ok().and_then(|s| s.parse::<u64>().ok()).unwrap_or(1);
    let (n_hist, n_steps) = if tier == "thorough" { (60usize, 30usize) } else { (24, 12) };
    let n_hist = std::env::var("H13_DISK_HISTORIES").ok().and_then(|s| s.parse().ok()).unwrap_or(n_hist);
    let threads = if tier == "thorough" { 8 } else { 12 };
    let next = AtomicUsize::new(0);
    let all: Mutex<(Vec<Stats>, Vec<Value>, Vec<String>)> = Mutex::new((vec![], vec![], vec![]));
    std::thread::scope(|sc| {
        for _ in 0..threads.min(n_hist) {
            sc.spawn(|| {
                loop {
                    let h = next.fetch_add(1, Ordering::SeqCst);
                    if h >= n_hist {
                        break;
                    }
                    let mut rng = Rng(seed.wrapping_mul(0x9E3779B97F4A7C15).wrapping_add(770_000 + h as u64));
                    let work = PathBuf::from(format!("{out}/../work/disk{h}"));
                    let mut st = Stats::default();
                    let (initial, steps, fail) = run_history(&work, n_steps, Some(&mut rng), None, &[], &mut st, false);
                    let mut g = all.lock().unwrap();
                    if h < 2 {
                        let ks: Vec<&str> = steps.iter().map(|s| s.kind.as_str()).collect();
                        g.2.push(format!("disk: history {h}: {}", ks.join(" -> ")));
                    }
                    if let Some(f) = fail {
                        g.1.push(json!({
                            "why": format!("on-disk history: {} of the live database differ from a fresh database on the same disk + overrides (step {}, `{}`, first differing line {})", f.what, f.step, steps[f.step].kind, f.line),
                            "project": "disk (scratch project generated by the harness)", "history_index": h, "step_index": f.step,
                            "observed": f.what, "first_differing_line": f.line, "incremental_line": f.live, "fresh_line": f.fresh,
                            "disk_initial": initial,
                            "disk_history": steps.iter().map(|s| json!({"kind": s.kind, "ops": s.ops.iter().map(|o| o.to_json()).collect::<Vec<_>>()})).collect::<Vec<_>>(),
                        }));
                    }
                    g.0.push(st);
                    drop(g);
                    let _ = std::fs::remove_dir_all(&work);
                }
            });
        }
    });
    let (stats, failures, samples) = all.into_inner().unwrap();
    let mut kinds: BTreeMap<String, usize> = BTreeMap::new();
    let (mut steps, mut req, mut donly, mut stale, mut ws, mut miss) = (0, 0, 0, 0, 0, 0);
    let mut outputs = std::collections::HashSet::new();
    for s in &stats {
        steps += s.steps;
        req += s.required;
        donly += s.disk_only;
        stale += s.disk_only_stale;
        ws += s.with_sierra;
        miss += s.with_missing_file_diag;
        outputs.extend(s.outputs.iter().copied());
        for (k, v) in &s.kinds {
            *kinds.entry(k.clone()).or_insert(0) += v;
        }
    }
    let mut m = serde_json::Map::new();
    m.insert("disk_histories".into(), json!(stats.len()));
    m.insert("disk_steps".into(), json!(steps));
    m.insert("disk_steps_required_to_match".into(), json!(req));
    m.insert("disk_only_steps".into(), json!(donly));
    m.insert("disk_only_steps_stale".into(), json!(stale));
    m.insert("disk_steps_with_sierra_program".into(), json!(ws));
    m.insert("disk_steps_with_missing_file_diagnostics".into(), json!(miss));
    m.insert("disk_distinct_outputs".into(), json!(outputs.len()));
    m.insert("disk_step_kinds".into(), json!(kinds));
    (m, samples, failures)
}

pub fn replay(v: &Value) -> ! {
    let steps: Vec<Step> = v["disk_history"]
        .as_array()
        .expect("disk_history")
        .iter()
        .map(|s| Step { kind: s["kind"].as_str().unwrap_or("").to_string(), ops: s["ops"].as_array().unwrap().iter().map(Op::from_json).collect() })
        .collect();
    let work = PathBuf::from(format!("/tmp/C13/replay-disk-{}", std::process::id()));
    let mut st = Stats::default();
    let (_, _, fail) = run_history(&work, steps.len(), None, Some(&v["disk_initial"]), &steps, &mut st, true);
    let _ = std::fs::remove_dir_all(&work);
    match fail {
        Some(f) => {
            println!("DIFFERENCE at step {} in {} (line {}):\n  live : {}\n  fresh: {}", f.step, f.what, f.line, f.live, f.fresh);
            std::process::exit(1);
        }
        None => {
            println!("no difference on this history");
            std::process::exit(0);
        }
    }
}
