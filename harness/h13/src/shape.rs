//! C20 translator: reads the three `cache/mod.rs` files of /repo's working tree with `syn` and prints,
//! per mirrored `*Cached` type, its variants/fields and, for the saving functions (`new`, `from_raw`)
//! and the loading functions (`embed`, `get_embedded`), what they produce / consume and the
//! arm-to-arm mapping of their `match` expressions, as a Coq term (coq/GenC20/Shape.v).
use std::fmt::Write as _;

use serde_json::{Value, json};
use syn::visit::Visit;

pub const FILES: [(&str, &str); 3] = [
    ("defs", "/repo/crates/cairo-lang-defs/src/cache/mod.rs"),
    ("semantic", "/repo/crates/cairo-lang-semantic/src/cache/mod.rs"),
    ("lowering", "/repo/crates/cairo-lang-lowering/src/cache/mod.rs"),
];
const FNS: [&str; 4] = ["new", "from_raw", "embed", "get_embedded"];
const DIVERGING: [&str; 4] = ["unreachable", "panic", "todo", "unimplemented"];

#[derive(Default, Clone)]
struct Arm {
    pats: Vec<(String, String)>,
    body: Vec<(String, String)>,
    macros: Vec<String>,
    wild: bool,
}
#[derive(Default, Clone)]
struct FnShape {
    name: String,
    produces: Vec<String>,
    consumes: Vec<String>,
    arms: Vec<Arm>,
    defaulted: Vec<(String, String)>,
    rest: bool,
    /// internal: every (Type, Variant) constructed / matched anywhere in the function
    all_constructed: Vec<(String, String)>,
    all_matched: Vec<(String, String)>,
    /// `self` used as a whole value (map key, argument, method receiver)
    whole_self: bool,
}
struct Ty {
    file: String,
    name: String,
    kind: &'static str,
    members: Vec<String>,
    fns: Vec<FnShape>,
    foreign_produced: Vec<String>,
    foreign_consumed: Vec<String>,
}

fn push_unique<T: PartialEq>(v: &mut Vec<T>, x: T) {
    if !v.contains(&x) {
        v.push(x);
    }
}

/// `a::b::Type::Variant` -> (Type, Variant); `Self::V` -> (self_ty, V); fewer than two segments -> None
fn last_two(path: &syn::Path, self_ty: &str) -> Option<(String, String)> {
    let n = path.segments.len();
    if n < 2 {
        return None;
    }
    let t = path.segments[n - 2].ident.to_string();
    let v = path.segments[n - 1].ident.to_string();
    // variants are CamelCase; `Type::function` is not a construction
    if !v.chars().next().is_some_and(|c| c.is_uppercase()) || !t.chars().next().is_some_and(|c| c.is_uppercase()) {
        return None;
    }
    Some((if t == "Self" { self_ty.to_string() } else { t }, v))
}

fn is_self_ty(path: &syn::Path, self_ty: &str) -> bool {
    path.segments.len() == 1 && {
        let s = path.segments[0].ident.to_string();
        s == "Self" || s == self_ty
    }
}

struct PatScan<'a> {
    self_ty: &'a str,
    paths: Vec<(String, String)>,
    consumed_fields: Vec<String>,
    rest: bool,
}
impl<'ast> Visit<'ast> for PatScan<'_> {
    fn visit_pat_tuple_struct(&mut self, p: &'ast syn::PatTupleStruct) {
        if let Some(x) = last_two(&p.path, self.self_ty) {
            push_unique(&mut self.paths, x);
        }
        if is_self_ty(&p.path, self.self_ty) {
            for i in 0..p.elems.len() {
                push_unique(&mut self.consumed_fields, i.to_string());
            }
        }
        syn::visit::visit_pat_tuple_struct(self, p);
    }
    fn visit_pat_struct(&mut self, p: &'ast syn::PatStruct) {
        if let Some(x) = last_two(&p.path, self.self_ty) {
            push_unique(&mut self.paths, x);
        }
        if is_self_ty(&p.path, self.self_ty) {
            for f in &p.fields {
                if let syn::Member::Named(id) = &f.member {
                    push_unique(&mut self.consumed_fields, id.to_string());
                }
            }
            if p.rest.is_some() {
                self.rest = true;
            }
        }
        syn::visit::visit_pat_struct(self, p);
    }
    fn visit_expr_path(&mut self, p: &'ast syn::ExprPath) {
        // unit variants in patterns are parsed as paths
        if let Some(x) = last_two(&p.path, self.self_ty) {
            push_unique(&mut self.paths, x);
        }
    }
}

fn pat_is_catch_all(p: &syn::Pat) -> bool {
    match p {
        syn::Pat::Wild(_) => true,
        syn::Pat::Ident(i) => i.subpat.is_none() && i.ident.to_string().chars().next().is_some_and(|c| c.is_lowercase()),
        syn::Pat::Or(o) => o.cases.iter().any(pat_is_catch_all),
        syn::Pat::Paren(p) => pat_is_catch_all(&p.pat),
        _ => false,
    }
}

struct BodyScan<'a> {
    self_ty: &'a str,
    paths: Vec<(String, String)>,
    macros: Vec<String>,
}
impl<'ast> Visit<'ast> for BodyScan<'_> {
    fn visit_expr_path(&mut self, p: &'ast syn::ExprPath) {
        if let Some(x) = last_two(&p.path, self.self_ty) {
            push_unique(&mut self.paths, x);
        }
    }
    fn visit_expr_struct(&mut self, s: &'ast syn::ExprStruct) {
        if let Some(x) = last_two(&s.path, self.self_ty) {
            push_unique(&mut self.paths, x);
        }
        syn::visit::visit_expr_struct(self, s);
    }
    fn visit_macro(&mut self, m: &'ast syn::Macro) {
        if let Some(s) = m.path.segments.last() {
            let n = s.ident.to_string();
            if DIVERGING.contains(&n.as_str()) {
                push_unique(&mut self.macros, n);
            }
        }
    }
}

/// `unreachable!(..)` etc. as the whole body of an arm (possibly inside a block)
fn diverging_body(e: &syn::Expr) -> Option<String> {
    let name = |m: &syn::Macro| {
        m.path.segments.last().map(|s| s.ident.to_string()).filter(|n| DIVERGING.contains(&n.as_str()))
    };
    match e {
        syn::Expr::Macro(m) => name(&m.mac),
        syn::Expr::Block(b) => match b.block.stmts.last() {
            Some(syn::Stmt::Macro(m)) => name(&m.mac),
            Some(syn::Stmt::Expr(e, _)) => diverging_body(e),
            _ => None,
        },
        syn::Expr::Paren(p) => diverging_body(&p.expr),
        _ => None,
    }
}

fn expr_is_default(e: &syn::Expr) -> bool {
    match e {
        syn::Expr::Call(c) => {
            c.args.is_empty()
                && matches!(&*c.func, syn::Expr::Path(p) if p.path.segments.last().is_some_and(|s| s.ident == "default" || s.ident == "new"))
        }
        syn::Expr::Path(p) => p.path.is_ident("None"),
        syn::Expr::Lit(_) => true,
        syn::Expr::Macro(m) => m.mac.tokens.is_empty(),
        _ => false,
    }
}

struct FnScan<'a> {
    self_ty: &'a str,
    kind: &'static str,
    out: FnShape,
}
impl<'ast> Visit<'ast> for FnScan<'_> {
    // patterns are read by PatScan (a unit variant in a pattern is an ExprPath: not a construction)
    fn visit_pat(&mut self, _p: &'ast syn::Pat) {}
    fn visit_expr_match(&mut self, m: &'ast syn::ExprMatch) {
        for arm in &m.arms {
            let mut ps = PatScan { self_ty: self.self_ty, paths: vec![], consumed_fields: vec![], rest: false };
            ps.visit_pat(&arm.pat);
            let mut bs = BodyScan { self_ty: self.self_ty, paths: vec![], macros: vec![] };
            bs.visit_expr(&arm.body);
            // only arms that talk about enum-like paths, or catch-alls of such matches, matter
            let wild = pat_is_catch_all(&arm.pat);
            for x in &ps.paths {
                push_unique(&mut self.out.all_matched, x.clone());
            }
            for (t, v) in &ps.paths {
                if t == self.self_ty && self.kind == "KEnum" {
                    push_unique(&mut self.out.consumes, v.clone());
                }
            }
            let _ = bs.macros;
            let macros: Vec<String> = diverging_body(&arm.body).into_iter().collect();
            self.out.arms.push(Arm { pats: ps.paths, body: bs.paths, macros, wild });
        }
        syn::visit::visit_expr_match(self, m);
    }
    fn visit_expr_path(&mut self, p: &'ast syn::ExprPath) {
        if p.path.is_ident("self") {
            self.out.whole_self = true;
        }
        if let Some((t, v)) = last_two(&p.path, self.self_ty) {
            push_unique(&mut self.out.all_constructed, (t.clone(), v.clone()));
            if t == self.self_ty && self.kind == "KEnum" {
                push_unique(&mut self.out.produces, v);
            }
        }
    }
    fn visit_expr_struct(&mut self, s: &'ast syn::ExprStruct) {
        if is_self_ty(&s.path, self.self_ty) {
            for f in &s.fields {
                if let syn::Member::Named(id) = &f.member {
                    push_unique(&mut self.out.produces, id.to_string());
                }
            }
            if s.rest.is_some() {
                self.out.rest = true;
            }
        } else if let Some((t, v)) = last_two(&s.path, self.self_ty) {
            push_unique(&mut self.out.all_constructed, (t.clone(), v.clone()));
            if t == self.self_ty && self.kind == "KEnum" {
                push_unique(&mut self.out.produces, v);
            }
        } else if let Some(seg) = s.path.segments.last() {
            // a literal of another struct (the original, when loading): which fields carry no data?
            for f in &s.fields {
                if let syn::Member::Named(id) = &f.member {
                    if expr_is_default(&f.expr) {
                        push_unique(&mut self.out.defaulted, (seg.ident.to_string(), id.to_string()));
                    }
                }
            }
        }
        syn::visit::visit_expr_struct(self, s);
    }
    fn visit_expr_call(&mut self, c: &'ast syn::ExprCall) {
        if let syn::Expr::Path(p) = &*c.func {
            if is_self_ty(&p.path, self.self_ty) && self.kind == "KTuple" {
                for i in 0..c.args.len() {
                    push_unique(&mut self.out.produces, i.to_string());
                }
            }
        }
        syn::visit::visit_expr_call(self, c);
    }
    fn visit_expr_field(&mut self, f: &'ast syn::ExprField) {
        if let syn::Expr::Path(p) = &*f.base {
            if p.path.is_ident("self") {
                let m = match &f.member {
                    syn::Member::Named(id) => id.to_string(),
                    syn::Member::Unnamed(i) => i.index.to_string(),
                };
                push_unique(&mut self.out.consumes, m);
                return; // `self.f` is not a use of `self` as a whole
            }
        }
        syn::visit::visit_expr_field(self, f);
    }
    fn visit_local(&mut self, l: &'ast syn::Local) {
        // `let Self { a, b } = self;`
        let mut ps = PatScan { self_ty: self.self_ty, paths: vec![], consumed_fields: vec![], rest: false };
        ps.visit_pat(&l.pat);
        for f in ps.consumed_fields {
            push_unique(&mut self.out.consumes, f);
        }
        for x in ps.paths {
            if x.0 == self.self_ty && self.kind == "KEnum" {
                push_unique(&mut self.out.consumes, x.1.clone());
            }
            push_unique(&mut self.out.all_matched, x);
        }
        self.out.rest |= ps.rest;
        syn::visit::visit_local(self, l);
    }
    fn visit_expr_let(&mut self, l: &'ast syn::ExprLet) {
        let mut ps = PatScan { self_ty: self.self_ty, paths: vec![], consumed_fields: vec![], rest: false };
        ps.visit_pat(&l.pat);
        for x in ps.paths {
            push_unique(&mut self.out.all_matched, x);
        }
        syn::visit::visit_expr_let(self, l);
    }
}

fn self_ty_name(t: &syn::Type) -> Option<String> {
    match t {
        syn::Type::Path(p) => p.path.segments.last().map(|s| s.ident.to_string()),
        _ => None,
    }
}

fn read_file(tag: &str, path: &str, out: &mut Vec<Ty>) -> Result<(), String> {
    let src = std::fs::read_to_string(path).map_err(|e| format!("{path}: {e}"))?;
    let file = syn::parse_file(&src).map_err(|e| format!("{path}: {e}"))?;
    let start = out.len();
    for item in &file.items {
        match item {
            syn::Item::Enum(e) if e.ident.to_string().ends_with("Cached") => out.push(Ty {
                file: tag.to_string(),
                name: e.ident.to_string(),
                kind: "KEnum",
                members: e.variants.iter().map(|v| v.ident.to_string()).collect(),
                fns: vec![],
                foreign_produced: vec![],
                foreign_consumed: vec![],
            }),
            syn::Item::Struct(s) if s.ident.to_string().ends_with("Cached") => {
                let (kind, members) = match &s.fields {
                    syn::Fields::Named(n) => ("KStruct", n.named.iter().map(|f| f.ident.as_ref().unwrap().to_string()).collect()),
                    syn::Fields::Unnamed(u) => ("KTuple", (0..u.unnamed.len()).map(|i| i.to_string()).collect()),
                    syn::Fields::Unit => ("KStruct", vec![]),
                };
                out.push(Ty { file: tag.to_string(), name: s.ident.to_string(), kind, members, fns: vec![], foreign_produced: vec![], foreign_consumed: vec![] });
            }
            _ => {}
        }
    }
    for item in &file.items {
        let syn::Item::Impl(im) = item else { continue };
        if im.trait_.is_some() {
            continue;
        }
        let Some(name) = self_ty_name(&im.self_ty) else { continue };
        let Some(ty) = out[start..].iter_mut().find(|t| t.name == name) else { continue };
        for it in &im.items {
            let syn::ImplItem::Fn(f) = it else { continue };
            let fname = f.sig.ident.to_string();
            if !FNS.contains(&fname.as_str()) {
                continue;
            }
            let mut sc = FnScan { self_ty: &name, kind: ty.kind, out: FnShape { name: fname, ..Default::default() } };
            sc.visit_block(&f.block);
            if sc.out.whole_self && ty.kind != "KEnum" {
                // the value is used as a whole (e.g. as the key of the lookup table)
                for m in &ty.members {
                    push_unique(&mut sc.out.consumes, m.clone());
                }
            }
            ty.fns.push(sc.out);
        }
    }
    Ok(())
}

fn q(s: &str) -> String {
    format!("\"{s}\"")
}
fn pairs(v: &[(String, String)]) -> String {
    format!("[{}]", v.iter().map(|(a, b)| format!("({}, {})", q(a), q(b))).collect::<Vec<_>>().join("; "))
}
fn strs(v: &[String]) -> String {
    format!("[{}]", v.iter().map(|s| q(s)).collect::<Vec<_>>().join("; "))
}

/// Returns the text of Shape.v and statistics.
pub fn translate() -> (String, Value) {
    let mut tys = vec![];
    let mut errors = vec![];
    // H20_REPO: only for testing the translator on a mutated copy of the sources
    let root = std::env::var("H20_REPO").ok().filter(|s| !s.is_empty()).unwrap_or_else(crate::repo);
    for (tag, path) in FILES {
        let path = if root.is_empty() { path.to_string() } else { path.replacen("/repo", &root, 1) };
        if let Err(e) = read_file(tag, &path, &mut tys) {
            errors.push(e);
        }
    }
    // variants of a cached enum constructed / matched by functions of *other* cached types
    let mut fp: Vec<(String, String)> = vec![];
    let mut fc: Vec<(String, String)> = vec![];
    for t in &tys {
        for f in &t.fns {
            for (ty, v) in &f.all_constructed {
                if ty != &t.name {
                    push_unique(&mut fp, (ty.clone(), v.clone()));
                }
            }
            for (ty, v) in &f.all_matched {
                if ty != &t.name {
                    push_unique(&mut fc, (ty.clone(), v.clone()));
                }
            }
        }
    }
    for t in tys.iter_mut() {
        t.foreign_produced = fp.iter().filter(|(ty, _)| ty == &t.name).map(|(_, v)| v.clone()).collect();
        t.foreign_consumed = fc.iter().filter(|(ty, _)| ty == &t.name).map(|(_, v)| v.clone()).collect();
    }
    let mut s = String::new();
    s.push_str("(* GENERATED by harness/h13 (h20 shape) from /repo/crates/cairo-lang-{defs,semantic,lowering}/src/cache/mod.rs.\n   Do not edit: regenerated on every run of ./check C20. *)\n");
    s.push_str("From Coq Require Import List String.\nFrom C20 Require Import ShapeDefs.\nImport ListNotations.\nLocal Open Scope string_scope.\n\n");
    for e in &errors {
        writeln!(s, "(* translator error: {} *)", e.replace("*)", "* )")).unwrap();
    }
    let mut names = vec![];
    let (mut n_arms, mut n_fns, mut n_members) = (0, 0, 0);
    for t in &tys {
        n_members += t.members.len();
        let fns: Vec<String> = t
            .fns
            .iter()
            .map(|f| {
                n_fns += 1;
                let arms: Vec<String> = f
                    .arms
                    .iter()
                    .filter(|a| {
                        // keep arms that mention the cached type or are catch-alls / diverging
                        a.wild || !a.macros.is_empty() || a.pats.iter().chain(a.body.iter()).any(|(ty, _)| ty == &t.name)
                    })
                    .map(|a| {
                        n_arms += 1;
                        format!(
                            "mk_arm {} {} {} {}",
                            pairs(&a.pats),
                            pairs(&a.body),
                            strs(&a.macros),
                            if a.wild { "true" } else { "false" }
                        )
                    })
                    .collect();
                format!(
                    "    mk_fn {} {} {}\n      [{}]\n      {} {}",
                    q(&f.name),
                    strs(&f.produces),
                    strs(&f.consumes),
                    arms.join(";\n       "),
                    pairs(&f.defaulted),
                    if f.rest { "true" } else { "false" }
                )
            })
            .collect();
        let id = format!("t_{}_{}", t.file, t.name);
        writeln!(
            s,
            "Definition {id} : cached_type :=\n  mk_type {} {} {} {}\n  [{}]\n  {} {}.\n",
            q(&t.file),
            q(&t.name),
            t.kind,
            strs(&t.members),
            fns.join(";\n"),
            strs(&t.foreign_produced),
            strs(&t.foreign_consumed)
        )
        .unwrap();
        names.push(id);
    }
    writeln!(s, "Definition shapes : list cached_type :=\n  [{}].", names.join(";\n   ")).unwrap();
    writeln!(s, "Definition translator_errors : nat := {}.", errors.len()).unwrap();
    let stats = json!({
        "types": tys.len(), "enums": tys.iter().filter(|t| t.kind == "KEnum").count(),
        "members": n_members, "functions": n_fns, "arms": n_arms, "errors": errors,
    });
    (s, stats)
}

/// Writes the file only when the content changes (so that Coq does not rebuild for nothing).
pub fn write_if_changed(path: &str, text: &str) -> bool {
    if std::fs::read_to_string(path).map(|old| old == text).unwrap_or(false) {
        return false;
    }
    if let Some(dir) = std::path::Path::new(path).parent() {
        let _ = std::fs::create_dir_all(dir);
    }
    std::fs::write(path, text).expect("write Shape.v");
    true
}
