//! h10 - harness of C10 (the syntax tree is lossless) and C09 (the front end is total).
//!
//! usage: h10 <out_dir> <tier> <C10|C09>     driver (VERIF_SEED from the environment)
//!        h10 worker                         child process (see worker.rs)
//!        h10 replay <file>                  run every check on the text in <file>, print the answer
//!
//! The driver builds the input list (gen.rs), runs every input through the real lexer / parser /
//! formatter in watched child processes (pool.rs, worker.rs: the impl-level oracle), minimises
//! failing inputs by delta debugging, and writes
//!   lex_NNN.v    real Lexer terminals vs Syntax/Lexer.v          (check_lex)
//!   tree_NNN.v   real red trees vs Syntax/Green.v offsets/widths   (check_tree)
//!   summary.json, samples.txt, oracle_failures.json
mod coqfmt;
mod inputs;
mod hook;
mod pool;
mod worker;

use std::collections::{BTreeMap, HashSet};
use std::fmt::Write as _;
use std::fs;
use std::time::{Duration, Instant};

use inputs::Input;
use pool::{Outcome, Proc, classes_of, fails_of, minimise};
use serde_json::{Value, json};
use vcommon::Rng;
use worker::*;

const C10_CLASSES: &[&str] = &[
    "lexer-lossless", "lexer-width", "lossless-concat", "leaf-offset", "width-sum", "token-text", "get-text",
    "span-children", "node-span-vs-leaves", "root-span", "span-offset-width",
];

fn property_of(class: &str) -> &'static str {
    if C10_CLASSES.contains(&class) { "C10" } else { "C09" }
}

fn chunk_lines(s: &str, max: usize) -> Vec<String> {
    let mut res = vec![];
    let mut cur = String::new();
    for line in s.split_inclusive('\n') {
        if !cur.is_empty() && cur.len() + line.len() > max {
            res.push(std::mem::take(&mut cur));
        }
        cur.push_str(line);
    }
    if !cur.is_empty() {
        res.push(cur);
    }
    res
}

/// A window of about `max` bytes of `s`, cut at line boundaries.
fn window(rng: &mut Rng, s: &str, max: usize) -> String {
    if s.len() <= max {
        return s.to_string();
    }
    let cs = chunk_lines(s, max);
    cs[rng.below(cs.len() as u64) as usize].clone()
}

struct Plan {
    n_chunk_files: usize,
    n_soups: usize,
    n_soups_coq: usize,
    n_mutants: usize,
    n_mutants_coq: usize,
    n_trunc_files: usize,
    depths: Vec<usize>,
    n_tree: usize,
    n_oplog: usize,
    coq_budget_bytes: usize,
}

fn plan(tier: &str, prop: &str) -> Plan {
    let thorough = tier == "thorough";
    match (prop, thorough) {
        ("C10", false) => Plan {
            n_chunk_files: 40, n_soups: 500, n_soups_coq: 250, n_mutants: 1500, n_mutants_coq: 500,
            n_trunc_files: 3, depths: vec![1, 2, 3, 10, 50, 100, 200], n_tree: 120, n_oplog: 400, coq_budget_bytes: 900_000,
        },
        ("C10", true) => Plan {
            n_chunk_files: 400, n_soups: 5000, n_soups_coq: 2500, n_mutants: 30000, n_mutants_coq: 6000,
            n_trunc_files: 12, depths: vec![1, 2, 3, 5, 10, 20, 50, 100, 150, 200], n_tree: 1200, n_oplog: 5000,
            coq_budget_bytes: 12_000_000,
        },
        (_, false) => Plan {
            n_chunk_files: 10, n_soups: 1500, n_soups_coq: 100, n_mutants: 5000, n_mutants_coq: 150,
            n_trunc_files: 6, depths: vec![1, 2, 3, 10, 50, 100, 200], n_tree: 0, n_oplog: 150, coq_budget_bytes: 250_000,
        },
        (_, true) => Plan {
            n_chunk_files: 60, n_soups: 20000, n_soups_coq: 1000, n_mutants: 120000, n_mutants_coq: 1500,
            n_trunc_files: 40, depths: vec![1, 2, 3, 5, 10, 20, 50, 100, 150, 200], n_tree: 0, n_oplog: 1500,
            coq_budget_bytes: 3_000_000,
        },
    }
}

fn build_inputs(rng: &mut Rng, pl: &Plan) -> Vec<Input> {
    let corpus = inputs::load_corpus();
    let files = corpus.files;
    let mut inputs: Vec<Input> = vec![];
    // 1. the corpus itself (impl-level oracle only: files can be large)
    inputs.extend(files.iter().cloned());
    // 2. chunks of corpus files for the Coq legs
    let mut budget = pl.coq_budget_bytes as i64;
    for _ in 0..pl.n_chunk_files {
        let f = &files[rng.below(files.len() as u64) as usize];
        let chunks = chunk_lines(&f.text, 2500);
        // the first chunk (file header: comments, attributes, imports) and up to two random ones
        let mut picks = vec![0usize];
        for _ in 0..2 {
            picks.push(rng.below(chunks.len() as u64) as usize);
        }
        picks.dedup();
        for k in picks {
            if chunks[k].len() > 6000 {
                continue; // a single very long line
            }
            inputs.push(Input {
                text: chunks[k].clone(),
                cat: format!("chunk:{}", f.cat.trim_start_matches("corpus:")),
                origin: format!("{} chunk {k}", f.origin),
                coq: true,
            });
        }
    }
    // 3. hand-written edge cases and the two-character table
    for (i, s) in inputs::edge_cases().into_iter().enumerate() {
        inputs.push(Input { text: s, cat: "edge".into(), origin: format!("edge #{i}"), coq: true });
    }
    // 4. token soups
    for i in 0..pl.n_soups {
        let n = 1 + rng.below(40) as usize;
        inputs.push(Input {
            text: inputs::token_soup(rng, n),
            cat: "soup".into(),
            origin: format!("soup #{i} ({n} tokens)"),
            coq: i < pl.n_soups_coq,
        });
    }
    // 5. mutants of corpus texts
    for i in 0..pl.n_mutants {
        let f = &files[rng.below(files.len() as u64) as usize];
        let coq = i < pl.n_mutants_coq;
        let base = window(rng, &f.text, if coq { 1200 } else { 12_000 });
        let mut text = base;
        let rounds = 1 + rng.below(3);
        let mut kinds = vec![];
        for _ in 0..rounds {
            let (k, t) = inputs::mutate(rng, &text);
            kinds.push(k);
            text = t;
        }
        inputs.push(Input { text, cat: format!("mutant:{}", kinds[0]), origin: format!("{} {:?}", f.origin, kinds), coq });
    }
    // 6. truncation at every (crude) token boundary of sample texts
    let small: Vec<&Input> = files.iter().filter(|f| f.text.len() >= 200 && f.text.len() <= 1500).collect();
    for j in 0..pl.n_trunc_files {
        if small.is_empty() {
            break;
        }
        let f = small[rng.below(small.len() as u64) as usize];
        for (k, (_, end)) in inputs::crude_tokens(&f.text).into_iter().enumerate() {
            inputs.push(Input {
                text: f.text[..end].to_string(),
                cat: "truncate-token".into(),
                origin: format!("{} truncated after token {k}", f.origin),
                coq: j == 0 && k % 3 == 0,
            });
        }
    }
    // 7. nesting up to depth 200
    for &d in &pl.depths {
        for (name, s) in inputs::nested(d) {
            inputs.push(Input { text: s, cat: "nested".into(), origin: name, coq: d <= 50 });
        }
    }
    // Coq budget: drop the coq flag once the budget is used (deterministic order)
    let mut seen: HashSet<String> = HashSet::new();
    for inp in inputs.iter_mut() {
        if inp.coq {
            if budget <= 0 || !seen.insert(inp.text.clone()) {
                inp.coq = false;
            } else {
                budget -= inp.text.len() as i64 + 40;
            }
        }
    }
    inputs
}

fn size_bucket(n: usize) -> &'static str {
    match n {
        0..=15 => "0-15B",
        16..=127 => "16-127B",
        128..=1023 => "128B-1KB",
        1024..=8191 => "1-8KB",
        8192..=65535 => "8-64KB",
        _ => ">=64KB",
    }
}

fn write_shards(dir: &str, leg: &str, header: &str, check: &str, cases: &[String], max_bytes: usize, max_cases: usize) -> usize {
    let mut shard = 0usize;
    let mut cur: Vec<&String> = vec![];
    let mut bytes = 0usize;
    let flush = |cur: &mut Vec<&String>, shard: &mut usize| {
        if cur.is_empty() {
            return;
        }
        let mut s = String::new();
        s.push_str(header);
        let _ = writeln!(s, "Definition cases := [");
        for (i, c) in cur.iter().enumerate() {
            let _ = writeln!(s, " {}{}", c, if i + 1 < cur.len() { ";" } else { "" });
        }
        let _ = writeln!(s, "].\nDefinition bad := Eval vm_compute in {check} cases.\nPrint bad.");
        fs::write(format!("{dir}/{leg}_{:03}.v", *shard), s).expect("write shard");
        *shard += 1;
        cur.clear();
    };
    for c in cases {
        if !cur.is_empty() && (bytes + c.len() > max_bytes || cur.len() >= max_cases) {
            flush(&mut cur, &mut shard);
            bytes = 0;
        }
        bytes += c.len();
        cur.push(c);
    }
    flush(&mut cur, &mut shard);
    shard
}

fn driver(out_dir: &str, tier: &str, prop: &str) {
    let t0 = Instant::now();
    fs::create_dir_all(out_dir).expect("out dir");
    let mut rng = Rng::from_env();
    let pl = plan(tier, prop);
    let inputs = build_inputs(&mut rng, &pl);
    // which inputs also export their tree (Green.v leg): the first n_tree coq inputs <= 700 bytes
    let mut tree_sel: HashSet<usize> = HashSet::new();
    for (i, inp) in inputs.iter().enumerate() {
        if tree_sel.len() >= pl.n_tree {
            break;
        }
        if inp.coq && inp.text.len() <= 700 && (inp.cat != "edge" || i % 7 == 0) {
            tree_sel.insert(i);
        }
    }
    // which inputs also return the parser's op log (TokenStream.v leg): coq inputs <= 1500 bytes
    let mut oplog_sel: HashSet<usize> = HashSet::new();
    for (i, inp) in inputs.iter().enumerate() {
        if oplog_sel.len() >= pl.n_oplog {
            break;
        }
        if inp.coq && inp.text.len() <= 1500 && (inp.cat != "edge" || i % 3 == 0 || inp.text.len() > 6) {
            oplog_sel.insert(i);
        }
    }
    let c09 = prop == "C09";
    let jobs: Vec<(u32, &str)> = inputs
        .iter()
        .enumerate()
        .map(|(i, inp)| {
            let mut f = F_LEX | F_ORACLE;
            if inp.coq {
                f |= F_LEXTERM;
            }
            if tree_sel.contains(&i) {
                f |= F_TREE;
            }
            if oplog_sel.contains(&i) {
                f |= F_OPLOG;
            }
            if inp.coq && inp.text.len() <= 2500 {
                f |= F_LOOPS;
            }
            if c09 {
                f |= F_FORMAT | F_MODES;
            }
            (f, inp.text.as_str())
        })
        .collect();
    let ncpu = std::thread::available_parallelism().map(|n| n.get()).unwrap_or(8);
    let nworkers = ncpu.clamp(2, 12);
    let timeout = Duration::from_secs(40);
    let outcomes = pool::run_all(&jobs, nworkers, timeout);
    let t_run = t0.elapsed().as_secs_f64();

    // ---- collect ----
    let mut by_cat: BTreeMap<String, u64> = BTreeMap::new();
    let mut by_size: BTreeMap<&'static str, u64> = BTreeMap::new();
    let mut total_bytes = 0u64;
    let mut distinct: HashSet<&str> = HashSet::new();
    let (mut with_diag, mut error_free, mut with_skipped, mut with_missing, mut non_ascii) = (0u64, 0u64, 0u64, 0u64, 0u64);
    let (mut nodes, mut tokens, mut lex_terminals, mut max_depth) = (0u64, 0u64, 0u64, 0u64);
    let (mut fmt_accepted, mut expr_not_cover, mut stmts_not_cover) = (0u64, 0u64, 0u64);
    let mut nontrivial = 0u64;
    let mut failing: Vec<(usize, String, String, String)> = vec![]; // (input idx, class, detail, signature)
    let mut f1_lists = 0u64;
    let mut lex_cases: Vec<String> = vec![];
    let mut tree_cases: Vec<String> = vec![];
    let mut oplog_cases: Vec<String> = vec![];
    let mut oplog_f1 = 0u64;
    let mut loops_cases: Vec<String> = vec![];
    let (mut loop_runs, mut loop_iters) = (0u64, 0u64);
    let mut samples: Vec<String> = vec![];
    for (i, (inp, o)) in inputs.iter().zip(outcomes.iter()).enumerate() {
        *by_cat.entry(inp.cat.clone()).or_default() += 1;
        *by_size.entry(size_bucket(inp.text.len())).or_default() += 1;
        total_bytes += inp.text.len() as u64;
        let fresh = distinct.insert(inp.text.as_str());
        if !inp.text.is_ascii() {
            non_ascii += 1;
        }
        let mut seen_keys: HashSet<(String, String)> = HashSet::new();
        for (c, d, g) in classes_of(o) {
            // one entry per (class, signature) and input
            if seen_keys.insert((c.clone(), g.clone())) {
                failing.push((i, c, d, g));
            }
        }
        if let Outcome::Answer(v) = o {
            let st = &v["stats"];
            if st.is_object() {
                let g = |k: &str| st[k].as_u64().unwrap_or(0);
                nodes += g("nodes");
                tokens += g("tokens");
                max_depth = max_depth.max(g("max_depth"));
                f1_lists += g("f1");
                if g("diags") > 0 {
                    with_diag += 1;
                }
                if st["error_free"].as_bool() == Some(true) {
                    error_free += 1;
                }
                if g("skipped_tokens") + g("skipped_nodes") > 0 {
                    with_skipped += 1;
                }
                if g("missing") > 0 {
                    with_missing += 1;
                }
                // distinct non-trivial: a distinct text whose real tree has at least one non-EOF terminal
                if fresh && g("terminals") >= 2 {
                    nontrivial += 1;
                }
            }
            lex_terminals += v["n_lex_terminals"].as_u64().unwrap_or(0);
            if v["fmt_accepted"].as_bool() == Some(true) {
                fmt_accepted += 1;
            }
            if v["expr_covers"].as_bool() == Some(false) {
                expr_not_cover += 1;
            }
            if v["stmts_cover"].as_bool() == Some(false) {
                stmts_not_cover += 1;
            }
            if let Some(l) = v["lex"].as_str() {
                lex_cases.push(format!("({},\n  {})", coqfmt::coq_str(&inp.text), l));
                if samples.len() < 12 && inp.text.len() < 80 && (i % 97 == 0 || samples.len() < 3) {
                    samples.push(format!(
                        "{} | input {:?} | real lexer terminals: {}",
                        inp.cat,
                        inp.text,
                        l.replace('\n', " ").chars().take(300).collect::<String>()
                    ));
                }
            }
            loop_runs += v["n_loop_runs"].as_u64().unwrap_or(0);
            loop_iters += v["n_loop_iters"].as_u64().unwrap_or(0);
            // loop runs: every input without an unclassified failure
            if let Some(l) = v["loops"].as_str().filter(|_| fails_of(v).iter().all(|(_, _, g)| g == SIG_F1)) {
                loops_cases.push(l.to_string());
            }
            // the op log: inputs whose only failures are the known signature F1 stay in (the model's
            // side conditions must fail exactly there); other failing inputs are decided by the oracle
            if let Some(l) = v["oplog"].as_str().filter(|_| fails_of(v).iter().all(|(_, _, g)| g == SIG_F1)) {
                let f1 = v["stats"]["f1"].as_u64().unwrap_or(0) > 0;
                if f1 {
                    oplog_f1 += 1;
                }
                oplog_cases.push(format!("({},\n  {},\n  {})", coqfmt::coq_str(&inp.text), l, f1));
            }
            // a tree on which the oracle already failed is decided there (violation / known finding),
            // it is not a correspondence case
            if let Some(t) = v["tree"].as_str().filter(|_| fails_of(v).is_empty()) {
                tree_cases.push(format!("({},\n  {})", coqfmt::coq_str(&inp.text), t));
            }
        }
    }

    // ---- minimise failing inputs (at most 3 per class) ----
    let mut oracle_failures: Vec<Value> = vec![];
    let mut per_class: BTreeMap<String, usize> = BTreeMap::new();
    let mut p = Proc::spawn();
    let max_per_class: usize = std::env::var("H10_MAX_PER_CLASS").ok().and_then(|s| s.parse().ok()).unwrap_or(3);
    for (i, class, detail, sig) in &failing {
        let k = per_class.entry(format!("{class}/{sig}")).or_default();
        *k += 1;
        if *k > max_per_class {
            continue;
        }
        let inp = &inputs[*i];
        let flags = jobs[*i].0 & !(F_LEXTERM | F_TREE | F_OPLOG | F_LOOPS);
        let crash = class == "hang" || class == "died";
        let to = if class == "hang" { Duration::from_secs(15) } else { Duration::from_secs(40) };
        let (min, tests) = minimise(&mut p, flags, &inp.text, class, sig, to);
        // the detail of the minimised input
        let det_min = if crash {
            detail.clone()
        } else {
            classes_of(&p.request(flags, &min, Duration::from_secs(40)))
                .into_iter()
                .find(|(c, _, g)| c == class && g == sig)
                .map(|(_, d, _)| d)
                .unwrap_or_else(|| detail.clone())
        };
        let path = format!("{out_dir}/failing_input_{}.txt", oracle_failures.len());
        fs::write(&path, &min).expect("write failing input");
        oracle_failures.push(json!({
            "class": class, "sig": sig, "property": property_of(class), "why": det_min, "detail_original": detail,
            "input": min, "input_bytes_hex": min.bytes().map(|b| format!("{b:02x}")).collect::<String>(),
            "input_file": path, "original_len": inp.text.len(), "minimised_len": min.len(), "ddmin_tests": tests,
            "category": inp.cat, "origin": inp.origin, "flags": flags,
        }));
    }
    drop(p);
    let mut class_counts: BTreeMap<String, u64> = BTreeMap::new();
    for (_, c, _, g) in &failing {
        *class_counts.entry(if g.is_empty() { c.clone() } else { format!("{c} [{g}]") }).or_default() += 1;
    }

    // ---- case shards ----
    let header =
        "From Syntax Require Import Lexer Green TokenStream Recovery Corr.\nOpen Scope string_scope.\nOpen Scope N_scope.\n";
    let n_lex_shards = write_shards(out_dir, "lex", header, "check_lex", &lex_cases, 400_000, 400);
    let n_tree_shards = write_shards(out_dir, "tree", header, "check_tree", &tree_cases, 600_000, 60);
    let n_oplog_shards = write_shards(out_dir, "oplog", header, "check_oplog", &oplog_cases, 500_000, 80);
    let n_loops_shards = write_shards(out_dir, "loops", header, "check_loops", &loops_cases, 600_000, 400);

    let n = inputs.len() as u64;
    let summary = json!({
        "property": prop, "tier": tier, "seed": std::env::var("VERIF_SEED").unwrap_or_else(|_| "1".into()),
        "inputs": n, "distinct_inputs": distinct.len(), "distinct_nontrivial": nontrivial,
        "total_bytes": total_bytes, "non_ascii_inputs": non_ascii,
        "by_category": by_cat, "by_size": by_size,
        "inputs_with_parser_diagnostics": with_diag, "inputs_error_free": error_free,
        "inputs_with_skipped_tokens_or_nodes": with_skipped, "inputs_with_missing_nodes": with_missing,
        "real_tree_nodes_walked": nodes, "real_tree_tokens_walked": tokens, "real_lexer_terminals": lex_terminals,
        "max_tree_depth": max_depth, "formatter_accepted": fmt_accepted,
        "expr_mode_tree_does_not_cover_text": expr_not_cover, "stmts_mode_tree_does_not_cover_text": stmts_not_cover,
        "lex_cases": lex_cases.len(), "lex_shards": n_lex_shards,
        "tree_cases": tree_cases.len(), "tree_shards": n_tree_shards,
        "loops_cases": loops_cases.len(), "loops_shards": n_loops_shards,
        "real_parser_loop_runs_watched": loop_runs, "real_parser_loop_iterations_watched": loop_iters,
        "oplog_cases": oplog_cases.len(), "oplog_shards": n_oplog_shards, "oplog_cases_with_F1": oplog_f1,
        "oracle_failure_classes": class_counts, "oracle_failing_inputs": failing.len(),
        "trivia_lists_with_signature_F1": f1_lists,
        "workers": nworkers, "run_seconds": t_run, "total_seconds": t0.elapsed().as_secs_f64(),
    });
    fs::write(format!("{out_dir}/summary.json"), serde_json::to_string_pretty(&summary).unwrap()).unwrap();
    fs::write(format!("{out_dir}/oracle_failures.json"), serde_json::to_string_pretty(&Value::Array(oracle_failures)).unwrap())
        .unwrap();
    fs::write(format!("{out_dir}/samples.txt"), samples.join("\n") + "\n").unwrap();
    println!(
        "h10 {prop} {tier}: {n} inputs ({} distinct, {} bytes), {} lex / {} tree / {} oplog cases, {} failing, {:.0}s",
        distinct.len(),
        total_bytes,
        lex_cases.len(),
        tree_cases.len(),
        oplog_cases.len(),
        failing.len(),
        t0.elapsed().as_secs_f64()
    );
}

fn main() {
    let args: Vec<String> = std::env::args().collect();
    match args.get(1).map(|s| s.as_str()) {
        Some("worker") => worker::main(),
        Some("replay") => {
            let text = fs::read_to_string(&args[2]).expect("read input");
            let flags = args.get(3).and_then(|s| s.parse().ok()).unwrap_or(F_LEX | F_ORACLE | F_FORMAT | F_MODES);
            let mut p = Proc::spawn();
            let o = p.request(flags, &text, Duration::from_secs(120));
            let cs = classes_of(&o);
            for (c, d, g) in &cs {
                println!("FAIL {c} [{g}]: {d}");
            }
            if cs.is_empty() {
                println!("no failure on this input");
            }
            std::process::exit(if cs.is_empty() { 0 } else { 1 });
        }
        Some("tree") => {
            // debugging aid: print the real tree (with trivia) and the diagnostics of the text in <file>
            let text = fs::read_to_string(&args[2]).expect("read input");
            println!("{}", worker::print_real_tree(&text));
        }
        Some(out) if args.len() >= 4 => driver(out, &args[2], &args[3]),
        _ => {
            eprintln!("usage: h10 <out_dir> <tier> <C10|C09> | h10 worker | h10 replay <file> [flags]");
            std::process::exit(2);
        }
    }
}
