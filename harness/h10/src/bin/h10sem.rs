//! h10sem - optional leg of C09: semantic + lowering diagnostics (`DiagnosticsReporter::check`, the
//! entry point of cairo-compile) on generated texts, for totality only: no panic, no hang, no
//! process death.  Built only with `--features sem` (links the whole compiler).
//!
//! usage: h10sem <out_dir> <tier>   driver          h10sem worker   child process
//!        h10sem replay <file>
#[path = "../inputs.rs"]
#[allow(dead_code)]
mod inputs;
#[path = "../attrsoup.rs"]
mod attrsoup;
#[path = "../pool.rs"]
#[allow(dead_code)]
mod pool;

use std::collections::{BTreeMap, HashSet};
use std::fs;
use std::io::{BufRead, Read, Write};
use std::panic::AssertUnwindSafe;
use std::path::PathBuf;
use std::time::{Duration, Instant};

use cairo_lang_compiler::db::RootDatabase;
use cairo_lang_compiler::diagnostics::DiagnosticsReporter;
use cairo_lang_filesystem::db::init_dev_corelib;
use cairo_lang_filesystem::ids::{CrateLongId, FileKind, FileLongId, SmolStrId, VirtualFile};
use cairo_lang_utils::Intern;
use pool::{Outcome, Proc, classes_of, minimise};
use serde_json::{Value, json};
use vcommon::Rng;

fn new_db() -> RootDatabase {
    let mut db = RootDatabase::builder().build().expect("RootDatabase");
    init_dev_corelib(&mut db, PathBuf::from(format!("{}/corelib/src", std::env::var("VERIF_REPO").ok().filter(|s| !s.is_empty()).unwrap_or_else(|| "/repo".to_string()))));
    db
}

/// Semantic + lowering diagnostics of a one-file crate holding `text`; returns the number of
/// diagnostics reported.
fn sem_check(db: &RootDatabase, text: &str) -> usize {
    let file_id = FileLongId::Virtual(VirtualFile {
        parent: None,
        name: SmolStrId::from(db, "lib.cairo"),
        content: SmolStrId::from(db, text),
        code_mappings: [].into(),
        kind: FileKind::Module,
        original_item_removed: false,
    })
    .intern(db);
    let crate_id = CrateLongId::Virtual {
        name: SmolStrId::from(db, "h10sem"),
        file_id,
        settings: "edition = \"2024_07\"\n[experimental_features]\nnegative_impls = true\nassociated_item_constraints = true\ncoupons = true\nuser_defined_inline_macros = true\nrepr_ptrs = true\n"
            .to_string(),
        cache_file: None,
    }
    .intern(db);
    let input = crate_id.long(db).clone().into_crate_input(db);
    let mut n = 0usize;
    DiagnosticsReporter::callback(|_entry| n += 1).with_crates(&[input]).check(db);
    n
}

fn worker() {
    vcommon::quiet_panics();
    let t = std::thread::Builder::new()
        .stack_size(1 << 30)
        .spawn(|| {
            let stdin = std::io::stdin();
            let mut inp = stdin.lock();
            let stdout = std::io::stdout();
            let mut out = stdout.lock();
            let mut line = String::new();
            let mut db: Option<RootDatabase> = None;
            let mut served = 0usize;
            loop {
                line.clear();
                if inp.read_line(&mut line).unwrap_or(0) == 0 {
                    break;
                }
                let mut it = line.split_whitespace();
                let (Some(_f), Some(n)) = (it.next(), it.next()) else { break };
                let Ok(n) = n.parse::<usize>() else { break };
                let mut buf = vec![0u8; n];
                if inp.read_exact(&mut buf).is_err() {
                    break;
                }
                let Ok(text) = String::from_utf8(buf) else { break };
                if db.is_none() || served % 150 == 149 {
                    db = Some(new_db());
                }
                served += 1;
                let r = vcommon::catch(AssertUnwindSafe(|| sem_check(db.as_ref().unwrap(), &text)));
                let resp = match r {
                    Ok(n) => json!({"fails": [], "n_diags": n}),
                    Err(m) => {
                        db = None; // a panic may leave the salsa database in any state
                        // signatures of recognised root causes: the panicking query / assertion
                        let sig = if m.contains("dependency graph cycle when querying extern_type_declaration_data") {
                            "F6-extern-type-const-param-cycle"
                        } else if m.contains("cycle when querying priv_global_use_imported_module_tracked") {
                            "F7-global-use-cycle"
                        } else if m.contains("Tuple-like pattern must be a tuple or fixed size array") {
                            "F8-tuple-pattern-on-missing-type"
                        } else if m.contains("cycle when querying module_macro_modules") {
                            "F9-macro-modules-cycle"
                        } else if m.contains("`Result::unwrap()` on an `Err` value: DiagnosticAdded")
                            && vcommon::last_panic_location().contains("cairo-lang-semantic/src/expr/compute.rs")
                        {
                            "F10-deref-replay-unwrap"
                        } else if m.contains("cycle when querying visible_importables_in_crate_tracked") {
                            "F12-use-crate-importables-cycle"
                        } else if m.contains("`Result::unwrap()` on an `Err` value: DiagnosticAdded")
                            && vcommon::last_panic_location().contains("cairo-lang-semantic/src/items/macro_call.rs")
                        {
                            "F13-macro-expand-unwrap"
                        } else if m.contains("cycle when querying free_function_declaration_data") {
                            "F14-free-function-declaration-cycle"
                        } else if m.contains("Missing pattern in semantic model") {
                            "F15-missing-pattern-lowering"
                        } else if m.contains("TextOffset out of range")
                            && (text.contains("\\u") || text.contains("\\x"))
                        {
                            // a diagnostic located past the end of the file, on a text with an escape
                            // in a (format) string literal
                            "F11-format-string-escape-offset"
                        } else {
                            ""
                        };
                        json!({"fails": [{"class": "panic-semantic", "sig": sig,
                            "detail": format!("{} @ {}", m.lines().take(12).collect::<Vec<_>>().join(" / "), vcommon::last_panic_location())}]})
                    }
                };
                let _ = writeln!(out, "{}", resp);
                let _ = out.flush();
            }
        })
        .unwrap();
    let _ = t.join();
}

fn driver(out_dir: &str, tier: &str) {
    let t0 = Instant::now();
    fs::create_dir_all(out_dir).expect("out dir");
    let mut rng = Rng::from_env();
    let (n_base, n_mut) = if tier == "thorough" { (3000, 30000) } else { (200, 800) };
    let corpus = inputs::load_corpus().files;
    // compilable-looking texts: small .cairo files and Cairo sections of the test data
    let small: Vec<&inputs::Input> =
        corpus.iter().filter(|f| f.text.len() <= 3000 && f.cat != "corpus:test_data-other").collect();
    let mut list: Vec<inputs::Input> = vec![];
    for _ in 0..n_base {
        list.push(small[rng.below(small.len() as u64) as usize].clone());
    }
    for _ in 0..n_mut {
        let f = small[rng.below(small.len() as u64) as usize];
        let (k, t) = inputs::mutate(&mut rng, &f.text);
        list.push(inputs::Input { text: t, cat: format!("mutant:{k}"), origin: f.origin.clone(), coq: false });
    }
    for (i, s) in inputs::edge_cases().into_iter().enumerate() {
        if s.len() > 4 {
            list.push(inputs::Input { text: s, cat: "edge".into(), origin: format!("edge #{i}"), coq: false });
        }
    }
    // attribute / inline-macro argument soup (names enumerated from the sources)
    let n_before = list.len();
    for (text, cat, origin) in attrsoup::generate(&mut rng, tier == "thorough") {
        list.push(inputs::Input { text, cat, origin, coq: false });
    }
    let n_soup = list.len() - n_before;
    let mut seen = HashSet::new();
    list.retain(|i| seen.insert(i.text.clone()));
    let jobs: Vec<(u32, &str)> = list.iter().map(|i| (0u32, i.text.as_str())).collect();
    let ncpu = std::thread::available_parallelism().map(|n| n.get()).unwrap_or(8);
    let outcomes = pool::run_all(&jobs, ncpu.clamp(2, 8), Duration::from_secs(120));
    let mut by_cat: BTreeMap<String, u64> = BTreeMap::new();
    let (mut with_diags, mut clean) = (0u64, 0u64);
    let mut failing: Vec<(usize, String, String, String)> = vec![];
    for (i, (inp, o)) in list.iter().zip(outcomes.iter()).enumerate() {
        *by_cat.entry(inp.cat.clone()).or_default() += 1;
        if let Outcome::Answer(v) = o {
            match v["n_diags"].as_u64() {
                Some(0) => clean += 1,
                Some(_) => with_diags += 1,
                None => {}
            }
        }
        for (c, d, g) in classes_of(o) {
            failing.push((i, c, d, g));
        }
    }
    let mut fails: Vec<Value> = vec![];
    let mut p = Proc::spawn();
    let mut per_class: BTreeMap<String, usize> = BTreeMap::new();
    for (i, class, detail, sig) in &failing {
        let k = per_class.entry(format!("{class}/{sig}")).or_default();
        *k += 1;
        if *k > 3 {
            continue;
        }
        let to = if class == "hang" { Duration::from_secs(60) } else { Duration::from_secs(120) };
        let (min, tests) = minimise(&mut p, 0, &list[*i].text, class, sig, to);
        let path = format!("{out_dir}/sem_failing_input_{}.txt", fails.len());
        fs::write(&path, &min).expect("write");
        fails.push(json!({
            "class": class, "sig": sig, "property": "C09", "why": detail, "input": min,
            "input_bytes_hex": min.bytes().map(|b| format!("{b:02x}")).collect::<String>(),
            "input_file": path, "original_len": list[*i].text.len(), "ddmin_tests": tests,
            "category": list[*i].cat, "origin": list[*i].origin, "flags": 0, "leg": "semantic",
        }));
    }
    drop(p);
    let summary = json!({
        "leg": "semantic+lowering diagnostics (DiagnosticsReporter::check)", "tier": tier,
        "inputs": list.len(), "attr_macro_soup_generated": n_soup, "by_category": by_cat, "inputs_without_diagnostics": clean,
        "inputs_with_diagnostics": with_diags, "failing": failing.len(),
        "seconds": t0.elapsed().as_secs_f64(),
    });
    fs::write(format!("{out_dir}/sem_summary.json"), serde_json::to_string_pretty(&summary).unwrap()).unwrap();
    fs::write(format!("{out_dir}/sem_failures.json"), serde_json::to_string_pretty(&Value::Array(fails)).unwrap()).unwrap();
    println!(
        "h10sem {tier}: {} inputs ({clean} without diagnostics, {with_diags} with), {} failing, {:.0}s",
        list.len(),
        failing.len(),
        t0.elapsed().as_secs_f64()
    );
}

fn main() {
    let args: Vec<String> = std::env::args().collect();
    match args.get(1).map(|s| s.as_str()) {
        Some("worker") => worker(),
        Some("replay") => {
            let text = fs::read_to_string(&args[2]).expect("read input");
            let mut p = Proc::spawn();
            let cs = classes_of(&p.request(0, &text, Duration::from_secs(300)));
            for (c, d, _) in &cs {
                println!("FAIL {c}: {d}");
            }
            if cs.is_empty() {
                println!("no failure on this input");
            }
            std::process::exit(if cs.is_empty() { 0 } else { 1 });
        }
        Some(out) if args.len() >= 3 => driver(out, &args[2]),
        _ => {
            eprintln!("usage: h10sem <out_dir> <tier> | h10sem worker | h10sem replay <file>");
            std::process::exit(2);
        }
    }
}
