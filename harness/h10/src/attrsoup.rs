//! Attribute / inline-macro argument soup for the semantic leg (h10sem): every attribute name the
//! compiler or its plugins interpret - enumerated from /repo's sources so that new ones are picked
//! up - with argument lists from a small grammar (empty, missing parens, named, `=` values, nested
//! calls with empty inner lists, literals of every kind, trailing commas, duplicates, unknown
//! names, a few malformed lists), placed on every item kind that accepts attributes; and every
//! inline macro with empty / malformed arguments.
use std::collections::BTreeSet;
use std::fs;
use std::path::{Path, PathBuf};

use vcommon::Rng;

fn repo() -> String {
    std::env::var("VERIF_REPO").ok().filter(|s| !s.is_empty()).unwrap_or_else(|| "/repo".to_string())
}

fn rs_files(dir: &Path, out: &mut Vec<PathBuf>) {
    let Ok(rd) = fs::read_dir(dir) else { return };
    let mut es: Vec<_> = rd.filter_map(|e| e.ok()).map(|e| e.path()).collect();
    es.sort();
    for p in es {
        if p.is_dir() {
            let n = p.file_name().and_then(|s| s.to_str()).unwrap_or("");
            if n != "target" && !n.contains("test_data") {
                rs_files(&p, out);
            }
        } else if p.extension().and_then(|s| s.to_str()) == Some("rs") {
            out.push(p);
        }
    }
}

fn is_name(v: &str) -> bool {
    !v.is_empty()
        && v.len() <= 40
        && v.chars().next().map(|c| c.is_ascii_alphabetic() || c == '_').unwrap_or(false)
        && v.chars().all(|c| c.is_ascii_alphanumeric() || c == '_' || c == ':')
        && !v.ends_with(':')
}

/// (attribute / argument names, inline macro names, derive names) found in the sources:
/// every `const X: &str = "name";` (attribute and argument-name constants alike - both are useful
/// words), `const NAME: &'static str = "macro"` of the inline macro plugins, and the capitalised
/// string literals of the derive plugin.
pub fn names_from_source() -> (Vec<String>, Vec<String>, Vec<String>) {
    let mut attrs: BTreeSet<String> = BTreeSet::new();
    let mut macros: BTreeSet<String> = BTreeSet::new();
    let mut derives: BTreeSet<String> = BTreeSet::new();
    let root = PathBuf::from(repo()).join("crates");
    for krate in [
        "cairo-lang-plugins", "cairo-lang-semantic", "cairo-lang-defs", "cairo-lang-syntax", "cairo-lang-lowering",
        "cairo-lang-test-plugin", "cairo-lang-executable-plugin", "cairo-lang-starknet", "cairo-lang-filesystem",
        "cairo-lang-sierra-generator", "cairo-lang-compiler", "cairo-lang-doc", "cairo-lang-formatter",
    ] {
        let mut files = vec![];
        rs_files(&root.join(krate).join("src"), &mut files);
        for f in files {
            let Ok(s) = fs::read_to_string(&f) else { continue };
            let in_derive = f.to_string_lossy().contains("/derive/");
            for line in s.lines() {
                let l = line.trim();
                if let Some(i) = l.find("const ") {
                    let rest = &l[i..];
                    if let Some(j) = rest.find("str = \"") {
                        let v = &rest[j + 7..];
                        if let Some(k) = v.find('"') {
                            let v = &v[..k];
                            if is_name(v) {
                                if rest.contains("const NAME:") {
                                    macros.insert(v.to_string());
                                } else {
                                    attrs.insert(v.to_string());
                                }
                            }
                        }
                    }
                }
                if in_derive {
                    for part in l.split('"').skip(1).step_by(2) {
                        if is_name(part) && part.chars().next().map(|c| c.is_ascii_uppercase()).unwrap_or(false) {
                            derives.insert(part.to_string());
                        }
                    }
                }
            }
        }
    }
    // the names the task lists, in case a refactoring hides one from the scan above
    for a in [
        "cfg", "derive", "generate_trait", "inline", "must_use", "feature", "deprecated", "unstable", "allow", "doc",
        "path", "phantom", "implicit_precedence", "default", "panic_with", "external", "cairofmt::skip", "test",
        "available_gas", "should_panic", "ignore", "executable", "executable_raw", "starknet::contract",
        "starknet::interface", "unknown_attr",
    ] {
        attrs.insert(a.to_string());
    }
    for m in ["array", "assert", "format", "write", "writeln", "print", "println", "panic", "consteval_int", "selector", "no_such_macro"] {
        macros.insert(m.to_string());
    }
    for d in ["Drop", "Copy", "Clone", "Debug", "Default", "Destruct", "PanicDestruct", "Hash", "PartialEq", "Serde", "Unknown"] {
        derives.insert(d.to_string());
    }
    (attrs.into_iter().collect(), macros.into_iter().collect(), derives.into_iter().collect())
}

/// Where an attribute can be written; `@` is replaced by `#[...]` (plus a newline).
pub const PLACES: &[(&str, &str)] = &[
    ("fn", "@fn f() {}"),
    ("struct", "@struct S { a: u8 }"),
    ("enum", "@enum E { A, B: u8 }"),
    ("member", "struct S { @a: u8, b: u8 }"),
    ("variant", "enum E { @A, B: u8 }"),
    ("trait", "@trait T { fn f(); }"),
    ("trait-item", "trait T { @fn f(); @type X; @const C: u8; }"),
    ("impl", "trait T { fn f(); } @impl I of T { fn f() {} }"),
    ("impl-item", "trait T { fn f(); } impl I of T { @fn f() {} }"),
    ("mod", "@mod m { fn g() {} }"),
    ("mod-decl", "@mod m;"),
    ("use", "@use core::array::ArrayTrait;"),
    ("const", "@const C: u8 = 1;"),
    ("extern-fn", "@extern fn e() nopanic;"),
    ("extern-type", "@extern type X;"),
    ("type-alias", "@type A = u8;"),
    ("impl-alias", "@impl I = core::traits::DropImpl::<u8>;"),
    ("statement", "fn f() { @let x = 1; @x; }"),
    ("expr-statement", "fn f() -> u8 { @{ 1 } }"),
    ("match-arm", "fn f(x: u8) { match x { @0 => {}, _ => {} } }"),
    ("param", "fn f(@x: u8) {}"),
    ("generic-fn", "@fn f<T, +Drop<T>>(x: T) {}"),
    ("macro-decl", "@macro m { () => { 1 }; }"),
    ("item-macro", "@array![1];"),
    ("inner-first", "@fn f() {}\n@struct S {}"),
];

/// The argument-list forms every name is tried with (`{n}` = the attribute's own name, `{w}` a
/// word from the source, `{d}` a derive name).
pub const ARG_FORMS: &[&str] = &[
    "", "()", "(,)", "({w})", "({w},)", "({w}, {w})", "({w}, {w}, {w}, a, b, c, d, e, f)", "({w}, {w},,)",
    "({w}: {w})", "({w}: \"x\")", "({w}: 1)", "({w}: true)", "({w}: )", "(: {w})", "({w} = {w})", "({w} = \"x\")",
    "({w}=1)", "({w} =)", "(= {w})", "({w}: {w}, {w}: {w})", "({w}: 1, {w}: 1)",
    "(not())", "(and())", "(or())", "(not(not()))", "(and({w}, not()))", "(or(not()))", "(not({w}, {w}))",
    "(and(or(not({w})), or()))", "(not)", "(and)", "(not({w}: \"x\"))", "(not(\"x\"))", "(and({w}, {w}: \"x\", not({w})))",
    "({w}())", "({w}({w}()))", "({w}({w}({w}())))", "({w}(,))", "({n}())", "({n}({n}))",
    "(\"s\")", "(\"a\\\"\\n\\u{7B}{\")", "(\"\")", "('ss')", "('a\\'')", "(0)", "(1)", "(-1)",
    "(340282366920938463463374607431768211456000000000000000000000000000000000000000000000000000000000000)",
    "(0x)", "(1_u8)", "(true)", "(false)", "(a::b)", "(a::<b>)", "(crate::x)", "(_)", "(@x)", "(*x)", "(!x)",
    "((a, b))", "([1, 2])", "({ 1 })", "(a + b)", "(a.b)", "(a?)", "(if a { 1 } else { 2 })", "(|x| x)",
    "({d})", "({d}, {d})", "({d},)", "({d}, {d}, {d}, {d}, {d}, {d})", "({d}: 1)", "({d}())", "(starknet::Store)",
    "(expected: \"x\")", "(expected: ('a', 'b'))", "(expected: 1)", "(expected: )", "(expected: (,))",
    "(l1_gas: 1, l2_gas: 2)", "(static)", "(always)", "(never)", "(hidden)", "(group: \"g\")",
    "(feature: \"f\", since: \"1\", note: \"n\")", "(feature: )", "(since)", "(target: \"test\")", "(test)",
    "(", "(a", "(a b)", "(a,, b)", "[a]", "{a}", "(a))", "(\"unterminated)",
];

fn fill(rng: &mut Rng, form: &str, name: &str, words: &[String], derives: &[String]) -> String {
    let mut s = String::new();
    let mut rest = form;
    while let Some(i) = rest.find('{') {
        s.push_str(&rest[..i]);
        let tail = &rest[i..];
        if let Some(t) = tail.strip_prefix("{w}") {
            s.push_str(rng.pick(words).as_str());
            rest = t;
        } else if let Some(t) = tail.strip_prefix("{d}") {
            s.push_str(rng.pick(derives).as_str());
            rest = t;
        } else if let Some(t) = tail.strip_prefix("{n}") {
            s.push_str(name);
            rest = t;
        } else {
            s.push('{');
            rest = &tail[1..];
        }
    }
    s.push_str(rest);
    s
}

fn place(rng: &mut Rng, attr: &str, idx: Option<usize>) -> (String, &'static str) {
    let (kind, tpl) = match idx {
        Some(i) => PLACES[i % PLACES.len()],
        None => *rng.pick(PLACES),
    };
    (tpl.replace('@', &format!("{attr}\n")), kind)
}

/// A random argument list from the grammar (depth-bounded).
fn random_args(rng: &mut Rng, words: &[String], depth: u32) -> String {
    let n = match rng.below(6) {
        0 => 0,
        1 | 2 => 1,
        3 => 2,
        _ => 1 + rng.below(5) as usize,
    };
    let mut parts = vec![];
    for _ in 0..n {
        let w = rng.pick(words).clone();
        let atom = |rng: &mut Rng| -> String {
            match rng.below(12) {
                0 => "\"s\"".into(),
                1 => "'c'".into(),
                2 => "1".into(),
                3 => "-1".into(),
                4 => "true".into(),
                5 => "a::b".into(),
                6 => "a::<b>".into(),
                7 => "\"\\u{7B}\"".into(),
                8 => "99999999999999999999999999999999999999999999999999999999999999999999999999999999".into(),
                _ => rng.pick(words).clone(),
            }
        };
        parts.push(match rng.below(8) {
            0 => format!("{w}: {}", atom(rng)),
            1 => format!("{w} = {}", atom(rng)),
            2 if depth < 3 => format!("{}({})", ["not", "and", "or"][rng.below(3) as usize], random_args(rng, words, depth + 1)),
            3 if depth < 3 => format!("{w}({})", random_args(rng, words, depth + 1)),
            4 => format!(":{w}"),
            _ => atom(rng),
        });
    }
    let mut s = parts.join(", ");
    if rng.below(5) == 0 {
        s.push(',');
    }
    s
}

pub const MACRO_ARG_FORMS: &[&str] = &[
    "()", "[]", "{}", "(,)", "[,]", "(,,)", "(1)", "(1,)", "(1, 2, 3)", "[1; 3]", "(x)", "(x, y)", "(x: y)", "(\"\")",
    "(\"{\")", "(\"}\")", "(\"{}\")", "(\"{}\", )", "(\"{}\", 1)", "(\"{} {}\", 1)", "(\"{x}\")", "(\"{:?}\", 1)",
    "(\"{:x}\", 1)", "(\"{0}\", 1)", "(\"{{}}\")", "(\"\\u{7B}a}\")", "(\"\\x7B\")", "(f, \"{}\")", "(f)", "(f, )",
    "(f, \"{\", 1)", "(1 == 1)", "(1 == 1, )", "(1 == 1, \"m\")", "(1 == 1, \"{}\", )", "(false, 'a', 'b')", "('a')",
    "(('a', 'b'))", "(-1)", "(1 + )", "(99999999999999999999999999999999999999999999999999999999999999999999999999999999999)",
    "(a::b)", "(\"name\")", "(name)", "(@)", "(#[a])", "(fn)", "(", "[", "(1", "(\"", "!()",
];

/// (text, category, description)
pub fn generate(rng: &mut Rng, thorough: bool) -> Vec<(String, String, String)> {
    let (attrs, macros, derives) = names_from_source();
    let mut out = vec![];
    // every name x every form, on a placement that rotates (so every placement is hit by every form)
    let mut k = 0usize;
    for name in &attrs {
        for form in ARG_FORMS {
            let reps = if thorough { 3 } else { 1 };
            for r in 0..reps {
                let args = fill(rng, form, name, &attrs, &derives);
                let attr = format!("#[{name}{args}]");
                let (text, kind) = place(rng, &attr, if r == 0 { Some(k) } else { None });
                k += 1;
                out.push((text, "attr-soup".to_string(), format!("{attr} on {kind}")));
            }
        }
    }
    // the predicate nestings and a few key forms on EVERY placement, for the attributes with a
    // structured argument language
    for name in ["cfg", "derive", "feature", "deprecated", "unstable", "allow", "inline", "doc", "should_panic", "available_gas", "implicit_precedence", "panic_with", "generate_trait"] {
        for form in ["(not())", "(and())", "(or(not()))", "(and(a, not()))", "()", "(a: )", "(a = )", "(,)", "(a())"] {
            for i in 0..PLACES.len() {
                let attr = format!("#[{name}{form}]");
                let (text, kind) = place(rng, &attr, Some(i));
                out.push((text, "attr-soup".to_string(), format!("{attr} on {kind}")));
            }
        }
    }
    // inner attributes and attribute stacks
    for name in &attrs {
        out.push((format!("#![{name}]\nfn f() {{}}"), "attr-soup".into(), format!("inner #![{name}]")));
        out.push((format!("#[{name}]\n#[{name}()]\n#[{name}(a)]\nfn f() {{}}"), "attr-soup".into(), format!("stacked {name}")));
    }
    // random argument lists
    let n_random = if thorough { 12000 } else { 400 };
    for _ in 0..n_random {
        let name = rng.pick(&attrs).clone();
        let attr = format!("#[{name}({})]", random_args(rng, &attrs, 0));
        let (text, kind) = place(rng, &attr, None);
        out.push((text, "attr-soup-random".into(), format!("{attr} on {kind}")));
    }
    // inline macros: every name x every form, as expression, statement, item and nested argument
    for m in &macros {
        for form in MACRO_ARG_FORMS {
            let call = format!("{m}!{form}");
            for (ctx, tpl) in [
                ("expr", "fn f() { let _x = @; }"),
                ("stmt", "fn f(ref g: core::fmt::Formatter) { @; }"),
                ("item", "@;"),
                ("tail", "fn f() -> u8 { @ }"),
            ] {
                if !thorough && ctx == "tail" {
                    continue;
                }
                out.push((tpl.replace('@', &call), "macro-soup".into(), format!("{call} as {ctx}")));
            }
        }
    }
    // user macros: no matching rule, malformed rules, empty expansions
    for (d, t) in [
        ("no matching rule", "macro m { ($x:ident) => { 1 }; }\nfn f() { let _a = m!(1 2); }"),
        ("no rules", "macro m { }\nfn f() { m!(); }"),
        ("empty call", "macro m { ($x:expr) => { $x }; }\nfn f() { let _a = m!(); }"),
        ("item call no match", "macro m { (a) => { fn g() {} }; }\nm!(b);"),
        ("unknown placeholder", "macro m { () => { $y }; }\nfn f() { let _a = m!(); }"),
        ("repetition mismatch", "macro m { ($($x:expr),*) => { $($x)+ $x }; }\nfn f() { let _a = m!(1, 2); }"),
        ("recursive", "macro m { () => { m!() }; }\nfn f() { let _a = m!(); }"),
        ("bad kind", "macro m { ($x:nonsense) => { 1 }; }\nfn f() { let _a = m!(1); }"),
        ("expose", "macro m { () => { expose!(let a = 1;); }; }\nfn f() { m!(); a; }"),
        ("callsite", "macro m { () => { $callsite::x }; }\nfn f() { let _a = m!(); }"),
    ] {
        out.push((t.to_string(), "macro-soup".into(), format!("user macro: {d}")));
    }
    out
}
