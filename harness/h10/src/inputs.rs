//! Input space of C09/C10: every `.cairo` file of /repo, the Cairo sections of the `test_data`
//! files, and generated texts (edge cases, token soups, char/token level mutants, truncations at
//! every token boundary, deep nesting).  Everything random derives from `VERIF_SEED`.
use std::collections::HashSet;
use std::fs;
use std::path::{Path, PathBuf};

use vcommon::Rng;

#[derive(Clone)]
pub struct Input {
    pub text: String,
    /// category, e.g. `corpus:corelib`, `mutant:char-delete`
    pub cat: String,
    /// where it came from (file path / generator parameters)
    pub origin: String,
    /// also goes through the Coq legs (lexer model, green model, plumbing model)
    pub coq: bool,
}

fn walk(dir: &Path, out: &mut Vec<PathBuf>) {
    let Ok(rd) = fs::read_dir(dir) else { return };
    let mut es: Vec<_> = rd.filter_map(|e| e.ok()).map(|e| e.path()).collect();
    es.sort();
    for p in es {
        if p.is_dir() {
            let name = p.file_name().and_then(|s| s.to_str()).unwrap_or("");
            if name == "target" || name == ".git" || name == "node_modules" {
                continue;
            }
            walk(&p, out);
        } else {
            out.push(p);
        }
    }
}

/// Sections `//! > name` of a cairo-lang-test-utils test file.
fn sections(content: &str) -> Vec<(String, String)> {
    let mut res = vec![];
    let mut name: Option<String> = None;
    let mut body = String::new();
    for line in content.split_inclusive('\n') {
        if let Some(rest) = line.strip_prefix("//! > ") {
            if let Some(n) = name.take() {
                res.push((n, std::mem::take(&mut body)));
            }
            body.clear();
            let rest = rest.trim_end();
            if !rest.starts_with("=====") {
                name = Some(rest.to_string());
            }
        } else if name.is_some() {
            body.push_str(line);
        }
    }
    if let Some(n) = name.take() {
        res.push((n, body));
    }
    res
}

fn is_cairo_section(name: &str) -> bool {
    let n = name;
    (n.contains("cairo") || n.contains("code") || n == "function_body" || n == "cairo_program")
        && !n.contains("sierra")
        && !n.contains("hash")
}

pub struct Corpus {
    pub files: Vec<Input>,
}

pub fn load_corpus() -> Corpus {
    let mut files = vec![];
    let mut seen: HashSet<String> = HashSet::new();
    for top in ["corelib", "examples", "tests", "crates"] {
        let mut ps = vec![];
        walk(&Path::new(&std::env::var("VERIF_REPO").ok().filter(|s| !s.is_empty()).unwrap_or_else(|| "/repo".to_string())).join(top), &mut ps);
        for p in ps {
            let ps_ = p.to_string_lossy().to_string();
            let in_test_data = ps_.contains("test_data");
            let ext = p.extension().and_then(|s| s.to_str()).unwrap_or("");
            if ext == "cairo" {
                if let Ok(s) = fs::read_to_string(&p) {
                    if seen.insert(s.clone()) {
                        files.push(Input {
                            text: s,
                            cat: format!("corpus:{top}"),
                            origin: ps_.clone(),
                            coq: false,
                        });
                    }
                }
            } else if in_test_data
                && !matches!(ext, "json" | "sierra" | "toml" | "casm" | "cairofmtignore" | "md" | "txt")
            {
                let Ok(s) = fs::read_to_string(&p) else { continue };
                if !s.contains("//! > ") {
                    continue;
                }
                let mut k_other = 0usize;
                for (i, (name, body)) in sections(&s).into_iter().enumerate() {
                    // the test framework trims the section; keep the raw body (trailing newline
                    // included) - it is just another text
                    if body.trim().is_empty() {
                        continue;
                    }
                    let cairo = is_cairo_section(&name);
                    if !cairo {
                        // a thin sample of the non-Cairo sections (trees with box-drawing
                        // characters, diagnostics with carets, sierra): garbage-like inputs
                        k_other += 1;
                        if k_other % 23 != 0 || body.len() > 16 * 1024 {
                            continue;
                        }
                    }
                    if seen.insert(body.clone()) {
                        files.push(Input {
                            text: body,
                            cat: if cairo { "corpus:test_data".into() } else { "corpus:test_data-other".into() },
                            origin: format!("{ps_}#{i}:{name}"),
                            coq: false,
                        });
                    }
                }
            }
        }
    }
    Corpus { files }
}

// ---------------------------------------------------------------------------------------------
// a crude, implementation-independent tokenizer (used only to choose mutation points)
pub fn crude_tokens(s: &str) -> Vec<(usize, usize)> {
    let cs: Vec<(usize, char)> = s.char_indices().collect();
    let mut res = vec![];
    let mut i = 0;
    let class = |c: char| {
        if c.is_ascii_alphanumeric() || c == '_' {
            1
        } else if c == ' ' || c == '\t' || c == '\r' {
            2
        } else {
            3
        }
    };
    while i < cs.len() {
        let (start, c) = cs[i];
        let k = class(c);
        let mut j = i + 1;
        if k != 3 {
            while j < cs.len() && class(cs[j].1) == k {
                j += 1;
            }
        } else if j < cs.len() && "=<>!&|:-.+*/%".contains(c) && "=>&|:.".contains(cs[j].1) {
            j += 1;
        }
        let end = if j < cs.len() { cs[j].0 } else { s.len() };
        res.push((start, end));
        i = j;
    }
    res
}

pub const PUNCT: &[&str] = &[
    "&", "&&", "@", "|", "||", "^", "==", "!=", ">=", ">", "<=", "<", "!", "~", "+", "+=", "-", "-=",
    "*", "*=", "/", "/=", "%", "%=", ":", "::", ",", "$", ".", "..", "..=", "=", "#", ";", "?", "_",
    "{", "}", "[", "]", "(", ")", "->", "=>",
];
pub const KEYWORDS: &[&str] = &[
    "as", "const", "false", "true", "extern", "type", "fn", "trait", "impl", "of", "mod", "struct",
    "enum", "let", "return", "match", "macro", "if", "loop", "continue", "break", "else", "while",
    "use", "implicits", "ref", "mut", "for", "nopanic", "pub",
];
pub const LITERALS: &[&str] = &[
    "0", "1", "00", "0x", "0xA2", "0xg", "0b01", "0b2", "0o17", "0o8", "123_u8", "1_", "0x1f_u128",
    "9__", "'a'", "''", "'a\\'b'", "'abc'_u8", "'", "'ab", "\"\"", "\"abc\"", "\"a\\\"b\"", "\"",
    "\"ab", "\"\\", "'\\", "abc", "_az12f", "A90g5__", "__", "a1", "r#x", "\u{e9}", "\u{65e5}\u{672c}",
    "\u{1F600}", "\u{0}", "\u{c}", "\u{b}", "\u{85}", "\u{a0}", "\u{2028}", "\u{feff}", "`", "\\",
];
pub const SEPARATORS: &[&str] = &[
    "", "", " ", " ", "  ", "\n", "\n\n", "\t", "\r", "\r\n", " \n ", "// c\n", "/// doc\n",
    "//! inner\n", "//// four\n", "//", " // é\n", "/", "\n    ",
];

pub fn edge_cases() -> Vec<String> {
    let mut v: Vec<String> = vec![
        "", " ", "\n", "\r", "\r\n", "\t", "\0", "\u{c}", "//", "///", "////", "//!", "// a", "/// a\n",
        "//! a\n//// b\n/// c\n// d", "/", "/ /", "a//b", "a/ /b", "'", "\"", "'\\", "\"\\", "'a", "\"a\nb",
        "'a\nb'", "\"\\\"", "'\\''_", "'a'_u8_", "''_", "0", "0x", "0o", "0b", "0_", "0x_", "0xx", "0b12",
        "0o78", "1__u8 2", "1e5", "1.5", "1..5", "1..=5", "a.b", "a..b", "a...b", "....", "..==", "-", "->",
        "-=", "->>", "-->", "=", "==", "=>", "===", "==>", "=>=", "<", "<=", "<<", "<=>", ">", ">=", ">>",
        ">>=", ":", "::", ":::", "&", "&&", "&&&", "|", "||", "|||", "!", "!=", "!!", "!==", "+", "+=",
        "++", "*", "*=", "**", "%", "%=", "/=", "/==", "//=", "_", "__", "_a", "a_", "_1", "1_a",
        "as", "asx", "As", "fn", "fnn", "nopanic", "implicits", "macro", "r#fn",
        "\u{e9}", "a\u{e9}b", "\u{65e5}\u{672c}\u{8a9e}", "\u{1F600}", "'\u{1F600}'", "\"\u{e9}\"",
        "// \u{65e5}\u{672c}\n", "\u{feff}fn f() {}", "a\u{2028}b", "a\u{a0}b", "a\u{85}b", "\u{7f}",
        "fn", "fn f", "fn f(", "fn f()", "fn f() {", "fn f() {}", "fn f() -> ", "fn f() { let }",
        "fn f() { let x = ; }", "fn f() { 1 + }", "fn f() { (1 }", "fn f() { [1 }", "fn f() { {1 ) }",
        "}", ")", "]", "{", "(", "[", "}}", "))", "]]", "#", "#[", "#[a", "#[a]", "#[a(", "#[a(b", "#![a]",
        "mod", "mod a", "mod a {", "mod a;", "use", "use a::", "use a::{", "use a::{b,", "use a::*",
        "struct", "struct A", "struct A {", "struct A { a }", "struct A { a: }", "struct A<", "struct A<T",
        "enum A { B(", "trait T {", "impl T of", "impl T of U {", "impl<", "const", "const A", "const A:",
        "const A: u8 =", "type", "type A =", "extern", "extern fn", "extern type", "extern fn f() ->",
        "pub", "pub(", "pub(crate", "pub(crate)", "pub fn", "macro", "macro m {", "macro m { ($x:expr) => {",
        "fn f() { match }", "fn f() { match x { }", "fn f() { match x { a => }", "fn f() { if }",
        "fn f() { if let }", "fn f() { if let a = b && let }", "fn f() { while }", "fn f() { for x in }",
        "fn f() { loop }", "fn f() { return }", "fn f() { break }", "fn f() { a!( }", "fn f() { a![ }",
        "fn f() { a!{ }", "fn f() { a!(,,,) }", "fn f() { a::<> }", "fn f() { a::< }", "fn f() { a::<b }",
        "fn f() { |a }", "fn f() { |a| }", "fn f() { || }", "fn f() { x.0.1 }", "fn f() { x. }",
        "fn f() { x? }", "fn f() { x[ }", "fn f() { @ }", "fn f() { & }", "fn f() { && }", "fn f() { * }",
        "fn f() { - }", "fn f() { ! }", "fn f() { ~ }", "fn f() { $x }", "fn f() { $ }", "fn f<", "fn f<T,",
        "fn f<T, +", "fn f<T, -", "fn f<const", "fn f<impl", "fn f(ref", "fn f(mut", "fn f(ref self",
        "fn f(a: ", "fn f(a: @", "fn f(a: (", "fn f(a: [u8; ", "fn f() implicits(", "fn f() nopanic",
        "fn f() -> ( {", "// only a comment", "/// only a doc comment", "//! only an inner comment\n",
        "// c\nfn f() {}\n", "// c\n\n/// d\nfn f() {}\n", "//! i\n// c\n/// d\nfn f() {}", "\n\n\n",
        "   \n\t\r\n  ", "fn f() {} \u{c} fn g() {}", "fn \u{c} f() {}", "\u{c}", "\u{c}\u{c} \u{c}",
        " \u{c} ", "a \u{c}\n \u{c} b", "#\u{c}[a]", "fn f() { let x = 1 \u{c} ; }",
        "fn f() { let x = 'a ; }", "fn f() { let x = \"a ; }\n}", "fn f() {\n  // c\n}", "fn f() {\n  /// d\n}",
        "fn f() { 1 ;;; 2 }", ";;;", ",,,", "fn f(,) {}", "fn f(a,,b) {}", "struct A { ,a: u8 }",
        "enum E { , }", "use a::{,};", "fn f() { (,) }", "fn f() { [,] }", "fn f() { A { , } }",
        "fn f() { A { ..} }", "fn f() { A { ..a, } }", "fn f() { A { a: } }", "fn f() { let A { a, .. } = }",
        // inputs of findings F1..F5 (regressions: every seed sees them)
        "#fn", "$fn", "t::<:", "#((:", "$break$of", "k():y::<e:r:", "a1/ \u{e9}$match", "+ #fn", "#[a] $fn",
        "pub a!();", "pub d{", "pub(crate) a!();", "#[x] pub a!{}",
        "struct{pub", "struct A { pub }", "struct A { pub, a: u8 }", "struct A { pub(crate) }", "struct\u{e9}pub\n ",
        "enum A { pub }", "trait T { pub }", "impl I of T { pub }", "mod m { pub }", "pub", "pub pub fn f() {}",
        "fn{r($:", "#($:", "fn f() { g($a: 1) }", "fn f() { g($a::b: 1) }", "fn f() { A { $a: 1 } }",
        "fn f(){'\\x\u{65e5}4'}", "fn f(){\"\\x\u{e9}\"}", "fn f(){'\\q'}", "fn f(){\"a\\q\u{e9}\"}", "fn f(){'\\u{110000}\u{e9}'}",
        "fn f(){\"\u{e9}\\q\"}", "const A: felt252 = '\u{e9}\\x';", "'\\x\u{65e5}4'",
        // F6 (semantic leg): a const generic parameter of an extern type mentioning the type itself
        "extern type A<const C: A>;", "extern type A<const C: A<1>>;",
        "extern type A<const C: B>; extern type B<const C: A>;", "struct S<const C: S> {}",
        "enum E<const C: E> { A }", "type T<const C: T> = u8;", "extern fn f<const C: f>() nopanic;",
        "extern type A<T, impl I: X<A<T>>>;", "extern type A<+A<u8>>;", "extern type A<const C: [A; 1]>;",
        // F7 / F8 / F9 (semantic leg)
        "mod c { use e::*; } use c::*; use x;", "mod c{use e::*}use c::*use", "mod c { use e::*; } use c::*;",
        "fn g() -> X { } fn f() { let () = g(); }", "fn g() -> fn() { } fn f() { let (a,) = g(); }",
        "fn f(x: X) { let (a, b) = x; }", "fn g() -> X { } fn f() { let [a] = g(); }",
        "mod inner { e!(); } use inner::*; use x;", "mod inner{e(}use inner::*use", "mod inner { e!(); } use inner::*;",
        // F12 - F15 (semantic leg)
        "use crate; fn g(x: u8) { x.e(); }", "use crate as c; fn g(x: u8) { x.e(); }", "use crate fn{f.e(",
        "macro m { () => { $( }; } m!();", "macro m() { $( } } m!()", "macro define_bar_twice(){$(}}define_bar_twice!()",
        "fn f(r: [u8; f()]) {}", "fn f() -> [u8; f()] {}", "fn bar_ext(r:[f;bar_ext(",
        "py)]\nstruct SB {\n    a: ,\n    b: fel    c: y)]\nstruct NoDrop;\n}\n\n\nfn bar(keep: bool, s: SB) {\n     bar_ext(s);\n    let SB { a, b: _b, c } = s;\n  let NoDrop {. } = c;\n  \n#_coern fn bar_ext(s: S",
        // F10 / F11 (semantic leg)
        "struct W {} impl I of core::ops::Deref<W> { type (fe u } fn f(w: W) -> u8 { w.1 }",
        "fn f() { write!(f,\"\\u007Bace}\")", "fn{write!(f,\"\\u007Bace}\")", "fn f() { write!(f,\"\\x7Bace}\") }",
    ]
    .into_iter()
    .map(String::from)
    .collect();
    // every two-character combination of the punctuation alphabet (multi-char operator table)
    let alpha = "&@|^=!><~+-*/%:,$.#;?_{}[]()'\"\\";
    for a in alpha.chars() {
        for b in alpha.chars() {
            v.push(format!("{a}{b}"));
        }
    }
    v
}

pub fn token_soup(rng: &mut Rng, n: usize) -> String {
    let mut s = String::new();
    for _ in 0..n {
        let t = match rng.below(10) {
            0..=3 => *rng.pick(PUNCT),
            4..=6 => *rng.pick(KEYWORDS),
            _ => *rng.pick(LITERALS),
        };
        s.push_str(t);
        s.push_str(*rng.pick(SEPARATORS));
    }
    s
}

pub const NOISE: &[&str] = &[
    "\0", "\u{c}", "\r", "'", "\"", "\\", "/", "//", "\n", " ", "\u{e9}", "\u{65e5}", "\u{1F600}", "{", "}",
    "(", ")", "[", "]", "<", ">", ";", ",", "::", "#", "$", "@", "&&", "..", "=>", "->", "!", "?", "`",
    "\u{feff}", "\u{2028}", "0x", "_",
];

fn char_boundaries(s: &str) -> Vec<usize> {
    let mut v: Vec<usize> = s.char_indices().map(|(i, _)| i).collect();
    v.push(s.len());
    v
}

/// One random mutant of `s`; returns (kind, text).
pub fn mutate(rng: &mut Rng, s: &str) -> (&'static str, String) {
    let toks = crude_tokens(s);
    let bounds = char_boundaries(s);
    let nb = bounds.len() as u64;
    let choice = if toks.len() < 2 { rng.below(4) } else { rng.below(11) };
    match choice {
        0 => {
            // delete one char
            if bounds.len() < 2 {
                return ("char-insert", format!("{s}{}", rng.pick(NOISE)));
            }
            let i = rng.below(nb - 1) as usize;
            ("char-delete", format!("{}{}", &s[..bounds[i]], &s[bounds[i + 1]..]))
        }
        1 => {
            let i = bounds[rng.below(nb) as usize];
            ("char-insert", format!("{}{}{}", &s[..i], rng.pick(NOISE), &s[i..]))
        }
        2 => {
            if bounds.len() < 2 {
                return ("char-insert", format!("{s}{}", rng.pick(NOISE)));
            }
            let i = rng.below(nb - 1) as usize;
            ("char-replace", format!("{}{}{}", &s[..bounds[i]], rng.pick(NOISE), &s[bounds[i + 1]..]))
        }
        3 => {
            // truncate at a random char boundary
            let i = bounds[rng.below(nb) as usize];
            ("truncate-char", s[..i].to_string())
        }
        4 => {
            let k = rng.below(toks.len() as u64) as usize;
            ("token-delete", format!("{}{}", &s[..toks[k].0], &s[toks[k].1..]))
        }
        5 => {
            let k = rng.below(toks.len() as u64) as usize;
            ("token-duplicate", format!("{}{}{}", &s[..toks[k].1], &s[toks[k].0..toks[k].1], &s[toks[k].1..]))
        }
        6 => {
            let k = rng.below(toks.len() as u64) as usize;
            let r = match rng.below(3) {
                0 => *rng.pick(PUNCT),
                1 => *rng.pick(KEYWORDS),
                _ => *rng.pick(LITERALS),
            };
            ("token-replace", format!("{}{}{}", &s[..toks[k].0], r, &s[toks[k].1..]))
        }
        7 => {
            let a = rng.below(toks.len() as u64 - 1) as usize;
            let b = a + 1 + rng.below((toks.len() - a - 1).min(6) as u64) as usize;
            let b = b.min(toks.len() - 1);
            (
                "token-swap",
                format!(
                    "{}{}{}{}{}",
                    &s[..toks[a].0],
                    &s[toks[b].0..toks[b].1],
                    &s[toks[a].1..toks[b].0],
                    &s[toks[a].0..toks[a].1],
                    &s[toks[b].1..]
                ),
            )
        }
        8 => {
            // delete a range of tokens (subtree-ish: up to 12 tokens)
            let a = rng.below(toks.len() as u64) as usize;
            let b = (a + 1 + rng.below(12) as usize).min(toks.len());
            ("range-delete", format!("{}{}", &s[..toks[a].0], &s[toks[b - 1].1..]))
        }
        9 => {
            // copy a range of tokens somewhere else (subtree-ish transplant)
            let a = rng.below(toks.len() as u64) as usize;
            let b = (a + 1 + rng.below(12) as usize).min(toks.len());
            let at = toks[rng.below(toks.len() as u64) as usize].0;
            ("range-transplant", format!("{}{}{}", &s[..at], &s[toks[a].0..toks[b - 1].1], &s[at..]))
        }
        _ => {
            // drop one closing / opening bracket (unbalance)
            let idx: Vec<usize> = toks
                .iter()
                .enumerate()
                .filter(|(_, t)| matches!(&s[t.0..t.1], "{" | "}" | "(" | ")" | "[" | "]" | "<" | ">"))
                .map(|(i, _)| i)
                .collect();
            if idx.is_empty() {
                let i = bounds[rng.below(nb) as usize];
                return ("char-insert", format!("{}{}{}", &s[..i], rng.pick(NOISE), &s[i..]));
            }
            let k = idx[rng.below(idx.len() as u64) as usize];
            ("unbalance", format!("{}{}", &s[..toks[k].0], &s[toks[k].1..]))
        }
    }
}

/// Nesting up to depth `d` of every bracket-like / prefix-like construct.
pub fn nested(d: usize) -> Vec<(String, String)> {
    let rep = |s: &str, n: usize| s.repeat(n);
    let mut v = vec![];
    let mut add = |name: &str, s: String| v.push((format!("{name}@{d}"), s));
    add("paren-expr", format!("fn f() {{ {}1{} }}", rep("(", d), rep(")", d)));
    add("paren-open", format!("fn f() {{ {}", rep("(", d)));
    add("brace-expr", format!("fn f() {{ {}1{} }}", rep("{", d), rep("}", d)));
    add("brace-open", format!("fn f() {}", rep("{", d)));
    add("brack-expr", format!("fn f() {{ {}1{} }}", rep("[", d), rep("]", d)));
    add("brack-open", format!("fn f() {{ {}", rep("[", d)));
    add("close-only", rep("}", d));
    add("close-paren-only", format!("fn f() {{ {} }}", rep(")", d)));
    add("unary-minus", format!("fn f() {{ {}1 }}", rep("-", d)));
    add("unary-not", format!("fn f() {{ {}x }}", rep("!", d)));
    add("unary-at", format!("fn f(a: {}u8) {{ {}x }}", rep("@", d), rep("@", d)));
    add("unary-and", format!("fn f() {{ {}x }}", rep("&", d)));
    add("unary-andand", format!("fn f() {{ {}x }}", rep("&&", d / 2 + 1)));
    add("unary-star", format!("fn f() {{ {}x }}", rep("*", d)));
    add("binary-chain", format!("fn f() {{ 1{} }}", rep(" + 1", d)));
    add("binary-mixed", format!("fn f() {{ 1{} }}", rep(" * 1 + 1 == 1 && 1", d / 4 + 1)));
    add("call", format!("fn f() {{ {}1{} }}", rep("g(", d), rep(")", d)));
    add("macro-call", format!("fn f() {{ {}1{} }}", rep("m!(", d), rep(")", d)));
    add("macro-brack", format!("fn f() {{ {}1{} }}", rep("m![", d), rep("]", d)));
    add("index", format!("fn f() {{ x{} }}", rep("[0]", d)));
    add("field", format!("fn f() {{ x{} }}", rep(".a", d)));
    add("try", format!("fn f() {{ x{} }}", rep("?", d)));
    add("if-nest", format!("fn f() {{ {}1{} }}", rep("if a { ", d), rep(" }", d)));
    add("if-else-chain", format!("fn f() {{ if a {{ 1 }}{} }}", rep(" else if a { 1 }", d)));
    add("match-nest", format!("fn f() {{ {}1{} }}", rep("match a { _ => ", d), rep(" }", d)));
    add("loop-nest", format!("fn f() {{ {}{} }}", rep("loop { ", d), rep(" }", d)));
    add("closure-nest", format!("fn f() {{ {}1 }}", rep("|a| ", d)));
    add("mod-nest", format!("{}{}", rep("mod a { ", d), rep(" }", d)));
    add("mod-open", rep("mod a { ", d));
    add("generic-type", format!("fn f(a: {}u8{}) {{}}", rep("A<", d), rep(">", d)));
    add("generic-type-open", format!("fn f(a: {}u8", rep("A<", d)));
    add("generic-expr", format!("fn f() {{ {}u8{}() }}", rep("a::<", d), rep(">", d)));
    add("tuple-type", format!("fn f(a: {}u8{}) {{}}", rep("(", d), rep(",)", d)));
    add("array-type", format!("fn f(a: {}u8{}) {{}}", rep("[", d), rep("; 1]", d)));
    add("snapshot-type", format!("fn f(a: {}u8) {{}}", rep("@", d)));
    add("path", format!("use a{};", rep("::a", d)));
    add("use-tree", format!("use a::{}b{};", rep("{a::", d), rep("}", d)));
    add("use-tree-open", format!("use a::{}", rep("{a::", d)));
    add("attr-args", format!("#[a{}{}]\nfn f() {{}}", rep("(b", d), rep(")", d)));
    add("attr-many", format!("{}fn f() {{}}", rep("#[a]\n", d)));
    add("pattern-tuple", format!("fn f() {{ let {}a{} = 1; }}", rep("(", d), rep(",)", d)));
    add("pattern-enum", format!("fn f() {{ let {}a{} = 1; }}", rep("A(", d), rep(")", d)));
    add("struct-ctor", format!("fn f() {{ {}1{} }}", rep("A { a: ", d), rep(" }", d)));
    add("token-tree", format!("macro m {{ ({}) => {{ {} }}; }}", rep("(", d) + &rep(")", d), rep("{", d) + &rep("}", d)));
    add("dollar-rep", format!("macro m {{ ({}$x:expr{}) => {{ 1 }}; }}", rep("$(", d), rep("),*", d)));
    add("comments", rep("// c\n", d));
    add("doc-comments", format!("{}fn f() {{}}", rep("/// d\n", d)));
    add("skipped-run", format!("fn f() {{}} {}", rep("+ ", d)));
    add("skipped-bad", rep("\u{c} ", d));
    add("string-escapes", format!("fn f() {{ \"{}\" }}", rep("\\\"", d)));
    v
}
