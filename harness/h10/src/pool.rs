//! Process pool: each worker is a child `h10 worker` process fed one input at a time.  No answer
//! within the timeout = hang (the child is killed), child death = crash; both are attributed to the
//! input in flight.
use std::io::{BufRead, BufReader, Write};
use std::process::{Child, ChildStdin, Command, Stdio};
use std::sync::atomic::{AtomicUsize, Ordering};
use std::sync::mpsc::{Receiver, RecvTimeoutError, channel};
use std::sync::{Arc, Mutex};
use std::time::{Duration, Instant};

use serde_json::Value;

pub enum Outcome {
    Answer(Value),
    Hang(f64),
    Died(String),
}

pub struct Proc {
    child: Child,
    stdin: ChildStdin,
    rx: Receiver<String>,
}

impl Proc {
    pub fn spawn() -> Proc {
        let exe = std::env::current_exe().expect("current_exe");
        let mut child = Command::new(exe)
            .arg("worker")
            .stdin(Stdio::piped())
            .stdout(Stdio::piped())
            .stderr(Stdio::null())
            .spawn()
            .expect("spawn worker");
        let stdin = child.stdin.take().unwrap();
        let stdout = child.stdout.take().unwrap();
        let (tx, rx) = channel();
        std::thread::spawn(move || {
            for line in BufReader::new(stdout).lines() {
                match line {
                    Ok(l) => {
                        if tx.send(l).is_err() {
                            break;
                        }
                    }
                    Err(_) => break,
                }
            }
        });
        Proc { child, stdin, rx }
    }

    fn kill(&mut self) {
        let _ = self.child.kill();
        let _ = self.child.wait();
    }

    /// One request; on hang or death the child is replaced.
    pub fn request(&mut self, flags: u32, text: &str, timeout: Duration) -> Outcome {
        let t0 = Instant::now();
        let hdr = format!("{} {}\n", flags, text.len());
        let sent = self.stdin.write_all(hdr.as_bytes()).is_ok()
            && self.stdin.write_all(text.as_bytes()).is_ok()
            && self.stdin.flush().is_ok();
        let res = if !sent {
            Err(RecvTimeoutError::Disconnected)
        } else {
            self.rx.recv_timeout(timeout)
        };
        match res {
            Ok(line) => match serde_json::from_str::<Value>(&line) {
                Ok(v) => Outcome::Answer(v),
                Err(e) => {
                    self.kill();
                    *self = Proc::spawn();
                    Outcome::Died(format!("unparsable answer: {e}"))
                }
            },
            Err(RecvTimeoutError::Timeout) => {
                self.kill();
                *self = Proc::spawn();
                Outcome::Hang(t0.elapsed().as_secs_f64())
            }
            Err(RecvTimeoutError::Disconnected) => {
                let status = self.child.wait().map(|s| format!("{s}")).unwrap_or_else(|e| format!("{e}"));
                *self = Proc::spawn();
                Outcome::Died(status)
            }
        }
    }
}

impl Drop for Proc {
    fn drop(&mut self) {
        self.kill();
    }
}

/// Runs `jobs` (flags, text) over `n` worker processes; results in input order.
pub fn run_all(jobs: &[(u32, &str)], n: usize, timeout: Duration) -> Vec<Outcome> {
    let next = Arc::new(AtomicUsize::new(0));
    let results: Arc<Mutex<Vec<Option<Outcome>>>> = Arc::new(Mutex::new((0..jobs.len()).map(|_| None).collect()));
    std::thread::scope(|s| {
        for _ in 0..n.max(1) {
            let next = next.clone();
            let results = results.clone();
            s.spawn(move || {
                let mut p = Proc::spawn();
                loop {
                    let i = next.fetch_add(1, Ordering::SeqCst);
                    if i >= jobs.len() {
                        break;
                    }
                    let (flags, text) = jobs[i];
                    let mut o = p.request(flags, text, timeout);
                    if let Outcome::Hang(_) = o {
                        // the machine is shared: confirm a hang with a three times longer budget
                        o = p.request(flags, text, timeout * 3);
                    }
                    results.lock().unwrap()[i] = Some(o);
                }
            });
        }
    });
    Arc::try_unwrap(results).ok().unwrap().into_inner().unwrap().into_iter().map(|o| o.unwrap()).collect()
}

/// (class, detail, signature) of every failure of one answer; the key of a failure is class+signature
pub fn fails_of(v: &Value) -> Vec<(String, String, String)> {
    v["fails"]
        .as_array()
        .map(|a| {
            a.iter()
                .map(|f| {
                    (
                        f["class"].as_str().unwrap_or("?").to_string(),
                        f["detail"].as_str().unwrap_or("").to_string(),
                        f["sig"].as_str().unwrap_or("").to_string(),
                    )
                })
                .collect()
        })
        .unwrap_or_default()
}

pub fn classes_of(o: &Outcome) -> Vec<(String, String, String)> {
    match o {
        Outcome::Answer(v) => fails_of(v),
        Outcome::Hang(t) => vec![("hang".into(), format!("no answer after {t:.0}s (twice)"), String::new())],
        Outcome::Died(s) => vec![("died".into(), format!("worker process died: {s}"), String::new())],
    }
}

/// Delta debugging (ddmin over characters): smallest text found on which `class` still occurs.
pub fn minimise(p: &mut Proc, flags: u32, text: &str, class: &str, sig: &str, timeout: Duration) -> (String, usize) {
    let t0 = Instant::now();
    let mut tests = 0usize;
    let mut cur: Vec<char> = text.chars().collect();
    let mut n = 2usize;
    let mut test = |cand: &[char], tests: &mut usize| -> bool {
        *tests += 1;
        let s: String = cand.iter().collect();
        let o = p.request(flags, &s, timeout);
        classes_of(&o).iter().any(|(c, _, g)| c == class && g == sig)
    };
    while cur.len() >= 2 && tests < 400 && t0.elapsed() < Duration::from_secs(90) {
        let len = cur.len();
        let chunk = len.div_ceil(n);
        let mut reduced = false;
        for i in 0..n {
            let (a, b) = (i * chunk, ((i + 1) * chunk).min(len));
            if a >= b {
                continue;
            }
            // complement of chunk i
            let cand: Vec<char> = cur[..a].iter().chain(cur[b..].iter()).copied().collect();
            if test(&cand, &mut tests) {
                cur = cand;
                n = (n - 1).max(2);
                reduced = true;
                break;
            }
            if tests >= 400 || t0.elapsed() >= Duration::from_secs(90) {
                break;
            }
        }
        if !reduced {
            if n >= len {
                break;
            }
            n = (2 * n).min(len);
        }
    }
    (cur.into_iter().collect(), tests)
}

