//! Child process of h10: runs the *real* front end on one input at a time and answers with one
//! JSON line.  The parent (driver.rs) watches it: no answer in time = hang, death = crash (stack
//! overflow, abort), so every failure mode of the implementation is attributed to an input.
//!
//! Impl-level oracle (written from the property text, independent of the Coq model):
//!  C10  * Lexer: concatenation of leading trivia ++ text ++ trailing trivia of the terminals == input
//!       * Parser::parse_file: preorder concatenation of the token texts of the real tree == input;
//!         every token sits at offset = number of bytes before it; text/width/span/get_text agree;
//!         every inner node: span == union of consecutive children spans, width == sum of child
//!         widths; root spans the file.
//!  C09  * no panic (catch_unwind) in lexing, parsing, tree walking, diagnostics rendering,
//!         formatting (CairoFormatter::format_to_string, format_string), expr / statement-list
//!         parsing; every diagnostic span inside [0, len] and on char boundaries.
use std::io::{BufRead, Read, Write};
use std::panic::AssertUnwindSafe;

use cairo_lang_diagnostics::DiagnosticsBuilder;
use cairo_lang_filesystem::ids::{FileKind, FileLongId, SmolStrId, VirtualFile};
use cairo_lang_formatter::{CairoFormatter, FormatterConfig};
use cairo_lang_parser::ParserDiagnostic;
use cairo_lang_parser::db::ParserGroup;
use cairo_lang_parser::lexer::Lexer;
use cairo_lang_parser::parser::Parser;
use cairo_lang_parser::utils::SimpleParserDatabase;
use cairo_lang_syntax::node::green::GreenNodeDetails;
use cairo_lang_syntax::node::kind::SyntaxKind;
use cairo_lang_syntax::node::{SyntaxNode, TypedSyntaxNode};
use cairo_lang_utils::Intern;
use serde_json::{Value, json};

use crate::coqfmt;

pub const F_LEX: u32 = 1; // run the real lexer (and its impl-level checks)
pub const F_ORACLE: u32 = 2; // parse_file + tree oracle
pub const F_FORMAT: u32 = 4; // formatter entry points
pub const F_MODES: u32 = 8; // expr / statement-list file kinds
pub const F_TREE: u32 = 16; // return the real tree as a Coq term (Green.v leg)
pub const F_OPLOG: u32 = 32; // return the token-plumbing op log (TokenStream.v leg)
pub const F_LOOPS: u32 = 128; // return the runs of the instrumented parser loops as a Coq term
pub const F_LEXTERM: u32 = 64; // with F_LEX: also return the terminals as a Coq term

pub struct Fail {
    pub class: &'static str,
    pub detail: String,
    /// root-cause signature of a recognised failure shape ("" = unclassified)
    pub sig: &'static str,
}

pub fn mkfail(class: &'static str, detail: String) -> Fail {
    Fail { class, detail, sig: "" }
}

/// Signature F1: inside one Trivia list (= the parser's pending_trivia when it was attached) a
/// TriviumSkippedNode sits *after* siblings whose text follows it in the source: an already
/// taken node was appended to pending_trivia after tokens that were skipped while (or after) it
/// was parsed (parser.rs skip_taken_node_with_offset).  Recognised only when moving skipped-node
/// children earlier - and nothing else - reproduces the input slice exactly.
pub const SIG_F1: &str = "F1-skipped-node-after-skipped-tokens";

pub struct RealTrivium {
    pub kind: String,
    pub text: String,
}
pub struct RealTerminal {
    pub kind: String,
    pub text: String,
    pub lead: Vec<RealTrivium>,
    pub trail: Vec<RealTrivium>,
    pub width: u32,
}

fn catch<T>(f: impl FnOnce() -> T) -> Result<T, String> {
    vcommon::catch(AssertUnwindSafe(f)).map_err(|m| format!("{} @ {}", m, vcommon::last_panic_location()))
}

/// Drives the real `Lexer` the way `Parser::ensure_next_k_exists` does: until the first
/// TerminalEndOfFile.
pub fn lex_real(text: &str, fails: &mut Vec<Fail>) -> Option<Vec<RealTerminal>> {
    let r = catch(|| {
        let db = SimpleParserDatabase::default();
        let db = &db;
        let mut lexer = Lexer::new(text);
        let mut res = vec![];
        let mut no_progress = None;
        let trivia = |ts: &[cairo_lang_syntax::node::ast::TriviumGreen<'_>]| -> Vec<RealTrivium> {
            ts.iter()
                .map(|t| {
                    let g = t.0.long(db);
                    match &g.details {
                        GreenNodeDetails::Token(s) => {
                            RealTrivium { kind: format!("{:?}", g.kind), text: s.long(db).to_string() }
                        }
                        GreenNodeDetails::Node { .. } => {
                            RealTrivium { kind: format!("NODE_{:?}", g.kind), text: String::new() }
                        }
                    }
                })
                .collect()
        };
        for i in 0..text.len() + 2 {
            let t = lexer.match_terminal(db);
            let rt = RealTerminal {
                kind: format!("{:?}", t.kind),
                text: t.text.long(db).to_string(),
                lead: trivia(&t.leading_trivia),
                trail: trivia(&t.trailing_trivia),
                width: t.width(db).as_u32(),
            };
            let eof = t.kind == SyntaxKind::TerminalEndOfFile;
            let total = rt.text.len()
                + rt.lead.iter().map(|x| x.text.len()).sum::<usize>()
                + rt.trail.iter().map(|x| x.text.len()).sum::<usize>();
            res.push(rt);
            if eof {
                break;
            }
            if total == 0 {
                no_progress = Some(i);
                break;
            }
        }
        (res, no_progress)
    });
    match r {
        Err(m) => {
            fails.push(mkfail("panic-lex", m));
            None
        }
        Ok((res, no_progress)) => {
            if let Some(i) = no_progress {
                fails.push(mkfail("lexer-no-progress", format!("terminal #{i} is not EndOfFile and consumed nothing")));
            }
            let mut cat = String::new();
            for t in &res {
                for x in &t.lead {
                    cat.push_str(&x.text);
                }
                cat.push_str(&t.text);
                for x in &t.trail {
                    cat.push_str(&x.text);
                }
            }
            if cat != text && no_progress.is_none() {
                let p = cat.bytes().zip(text.bytes()).take_while(|(a, b)| a == b).count();
                fails.push(mkfail("lexer-lossless", format!(
                        "concatenated lexer terminals differ from the input at byte {p} (lengths {} vs {})",
                        cat.len(),
                        text.len()
                    )));
            }
            if res.last().map(|t| t.kind != "TerminalEndOfFile").unwrap_or(true) && no_progress.is_none() {
                fails.push(mkfail("lexer-no-eof", "no EndOfFile terminal".into()));
            }
            for (i, t) in res.iter().enumerate() {
                let w = t.text.len()
                    + t.lead.iter().map(|x| x.text.len()).sum::<usize>()
                    + t.trail.iter().map(|x| x.text.len()).sum::<usize>();
                if w as u32 != t.width {
                    fails.push(mkfail("lexer-width", format!("terminal #{i}: width() = {} but its texts have {} bytes", t.width, w)));
                    break;
                }
            }
            Some(res)
        }
    }
}

#[derive(Default)]
pub struct TreeStats {
    pub nodes: u64,
    pub tokens: u64,
    pub terminals: u64,
    pub skipped_tokens: u64,
    pub skipped_nodes: u64,
    pub missing: u64,
    pub max_depth: u64,
    pub diags: u64,
    /// Trivia lists recognised as known finding F1
    pub f1: u64,
}

struct Walk<'a, 'db> {
    db: &'db SimpleParserDatabase,
    text: &'a str,
    pos: usize, // bytes of token text seen so far in preorder
    concat_ok: bool,
    /// > 0 while walking a Trivia list recognised as signature F1: the positional checks are
    /// known to fail there (consequences), the structural ones (widths, children contiguity) stay.
    in_permuted: u32,
    /// steps left for the signature matcher (backtracking)
    budget: std::cell::Cell<u64>,
    fails: Vec<Fail>,
    st: TreeStats,
    /// Coq term of the tree (F_TREE)
    want_tree: bool,
}

fn green_text(db: &dyn salsa::Database, g: &cairo_lang_syntax::node::green::GreenNode<'_>, out: &mut String) {
    match &g.details {
        GreenNodeDetails::Token(t) => out.push_str(t.long(db)),
        GreenNodeDetails::Node { children, .. } => {
            for c in children.iter() {
                green_text(db, c.long(db), out);
            }
        }
    }
}

impl<'a, 'db> Walk<'a, 'db> {
    fn fail(&mut self, class: &'static str, detail: String) {
        if self.fails.len() < 8 {
            let sig = if self.in_permuted > 0 { SIG_F1 } else { "" };
            self.fails.push(Fail { class, detail, sig });
        }
    }

    /// Matches the green subtree against the input at `pos`, allowing - inside Trivia lists only -
    /// a TriviumSkippedNode to be read before siblings that precede it in the list (signature F1).
    /// Returns the position after the subtree; `moved` counts the nodes read early.
    fn spell(&self, g: &cairo_lang_syntax::node::green::GreenNode<'db>, pos: usize, moved: &mut usize) -> Option<usize> {
        let db = self.db;
        match &g.details {
            GreenNodeDetails::Token(t) => {
                let t = t.long(db).as_str();
                self.text.get(pos..)?.starts_with(t).then_some(pos + t.len())
            }
            GreenNodeDetails::Node { children, .. } => {
                if g.kind == SyntaxKind::Trivia {
                    return self.spell_list(children, pos, moved);
                }
                let mut p = pos;
                for c in children.iter() {
                    p = self.spell(c.long(db), p, moved)?;
                }
                Some(p)
            }
        }
    }

    fn spell_list(
        &self,
        kids: &[cairo_lang_syntax::node::ids::GreenId<'db>],
        pos: usize,
        moved: &mut usize,
    ) -> Option<usize> {
        let remaining: Vec<usize> = (0..kids.len()).collect();
        self.spell_rest(kids, &remaining, pos, moved)
    }

    /// Backtracking: the next piece of the source is either the first remaining child, or a
    /// TriviumSkippedNode further right (read early).
    fn spell_rest(
        &self,
        kids: &[cairo_lang_syntax::node::ids::GreenId<'db>],
        remaining: &[usize],
        p: usize,
        moved: &mut usize,
    ) -> Option<usize> {
        let db = self.db;
        if remaining.is_empty() {
            return Some(p);
        }
        self.budget.set(self.budget.get().checked_sub(1)?);
        let mut m = 0;
        if let Some(np) = self.spell(kids[remaining[0]].long(db), p, &mut m) {
            if let Some(end) = self.spell_rest(kids, &remaining[1..], np, &mut m) {
                *moved += m;
                return Some(end);
            }
        }
        for idx in 1..remaining.len() {
            let g = kids[remaining[idx]].long(db);
            if g.kind != SyntaxKind::TriviumSkippedNode {
                continue;
            }
            let mut m = 0;
            if let Some(np) = self.spell(g, p, &mut m) {
                if np > p {
                    let mut rest: Vec<usize> = remaining.to_vec();
                    rest.remove(idx);
                    if let Some(end) = self.spell_rest(kids, &rest, np, &mut m) {
                        *moved += 1 + m;
                        return Some(end);
                    }
                }
            }
        }
        None
    }

    /// Signature F1 on a Trivia node about to be walked at input position `self.pos`: returns the
    /// total text length of the list when its children - with some TriviumSkippedNode children
    /// (possibly nested) read before siblings that precede them, and nothing else changed - spell
    /// exactly the input at `self.pos`.
    fn trivia_is_f1(&self, n: SyntaxNode<'db>) -> Option<usize> {
        let db = self.db;
        let kids = n.green_node(db).children();
        if !kids.iter().any(|c| c.long(db).kind == SyntaxKind::TriviumSkippedNode) {
            return None;
        }
        let mut moved = 0;
        let end = self.spell_list(kids, self.pos, &mut moved)?;
        (moved > 0).then_some(end - self.pos)
    }

    /// Returns the Coq term of the subtree when requested.
    fn node(&mut self, n: SyntaxNode<'db>, depth: u64) -> String {
        let db = self.db;
        self.st.nodes += 1;
        self.st.max_depth = self.st.max_depth.max(depth);
        let kind = n.kind(db);
        let off = n.offset(db).as_u32() as usize;
        let width = n.width(db).as_u32() as usize;
        let span = n.span(db);
        if span.start.as_u32() as usize != off || span.end.as_u32() as usize != off + width {
            self.fail("span-offset-width", format!("{kind:?}: span {span:?} != offset {off} + width {width}"));
        }
        if kind.is_missing() {
            self.st.missing += 1;
        }
        let positional = self.in_permuted == 0;
        let green = n.green_node(db);
        match &green.details {
            GreenNodeDetails::Token(t) => {
                let t = t.long(db).as_str();
                self.st.tokens += 1;
                if kind == SyntaxKind::TokenSkipped {
                    self.st.skipped_tokens += 1;
                }
                let start = self.pos;
                if positional {
                    // C10: the token text is the next piece of the input
                    if self.concat_ok && !self.text.get(start..).map(|r| r.starts_with(t)).unwrap_or(false) {
                        self.concat_ok = false;
                        self.fail(
                            "lossless-concat",
                            format!(
                                "token {kind:?} {:?}: preorder concatenation of token texts departs from the input \
                                 at byte {start}",
                                trunc(t)
                            ),
                        );
                    }
                    self.pos += t.len();
                    if off != start {
                        self.fail(
                            "leaf-offset",
                            format!("token {kind:?} {:?}: offset {off}, but {start} bytes of token text precede it", trunc(t)),
                        );
                    }
                }
                if width != t.len() {
                    self.fail("width-sum", format!("token {kind:?} {:?}: width {width} != text length {}", trunc(t), t.len()));
                }
                if n.text(db).map(|s| s.long(db).as_str()) != Some(t) {
                    self.fail("token-text", format!("token {kind:?}: text() differs from green text"));
                }
                match catch(|| n.get_text(db).to_string()) {
                    Ok(gt) => {
                        if positional && gt != t {
                            self.fail("get-text", format!("token {kind:?}: get_text {:?} != token text {:?}", trunc(&gt), trunc(t)));
                        }
                    }
                    Err(m) => self.fail("panic-get-text", format!("token {kind:?} span {span:?}: {m}")),
                }
                if !n.get_children(db).is_empty() {
                    self.fail("span-children", format!("token {kind:?} has children"));
                }
                if self.want_tree { coqfmt::green_token(&format!("{kind:?}"), t, off, width) } else { String::new() }
            }
            GreenNodeDetails::Node { children: gchildren, width: gw } => {
                if kind.is_terminal() {
                    self.st.terminals += 1;
                }
                if kind == SyntaxKind::TriviumSkippedNode {
                    self.st.skipped_nodes += 1;
                }
                let start = self.pos;
                // known finding F1: recognise the signature, then resynchronise after the list
                let mut f1_len = None;
                if kind == SyntaxKind::Trivia && positional && self.concat_ok {
                    if let Some(total) = self.trivia_is_f1(n) {
                        f1_len = Some(total);
                        self.st.f1 += 1;
                        self.fails.push(Fail {
                            class: "lossless-concat",
                            detail: format!(
                                "Trivia list at byte {start}: a TriviumSkippedNode follows siblings whose text comes after \
                                 it in the source; the tree spells {:?} where the input has {:?}",
                                {
                                    let mut t = String::new();
                                    green_text(db, green, &mut t);
                                    trunc(&t)
                                },
                                trunc(&self.text[start..start + total])
                            ),
                            sig: SIG_F1,
                        });
                        self.in_permuted += 1;
                    }
                }
                let children = n.get_children(db);
                if children.len() != gchildren.len() {
                    self.fail("span-children", format!("{kind:?}: {} red children, {} green children", children.len(), gchildren.len()));
                }
                if gw.as_u32() as usize != width {
                    self.fail("width-sum", format!("{kind:?}: width() {width} != stored green width {}", gw.as_u32()));
                }
                let mut expect = off;
                let mut sum = 0usize;
                let mut terms = vec![];
                for (i, c) in children.iter().enumerate() {
                    let coff = c.offset(db).as_u32() as usize;
                    let cw = c.width(db).as_u32() as usize;
                    if coff != expect {
                        self.fail(
                            "span-children",
                            format!("{kind:?}: child #{i} ({:?}) starts at {coff}, previous sibling / parent start ends at {expect}", c.kind(db)),
                        );
                    }
                    expect = coff + cw;
                    sum += cw;
                    let t = self.node(*c, depth + 1);
                    if self.want_tree {
                        terms.push(t);
                    }
                }
                if sum != width {
                    self.fail("width-sum", format!("{kind:?}: width {width} != sum of child widths {sum}"));
                }
                if expect != off + width {
                    self.fail("span-children", format!("{kind:?}: last child ends at {expect}, node ends at {}", off + width));
                }
                if let Some(total) = f1_len {
                    self.in_permuted -= 1;
                    self.pos = start + total;
                }
                let positional_here = self.in_permuted == 0;
                if positional_here && (start != off || self.pos != off + width) {
                    self.fail(
                        "node-span-vs-leaves",
                        format!("{kind:?}: span [{off},{}) but its tokens occupy [{start},{}) of the preorder text", off + width, self.pos),
                    );
                }
                // get_text == the input at the node's span == concatenation of its tokens
                match catch(|| n.get_text(db).to_string()) {
                    Ok(gt) => {
                        let want = self.text.get(start..self.pos);
                        if positional_here && want != Some(gt.as_str()) {
                            self.fail("get-text", format!("{kind:?}: get_text {:?} != input[{start}..{}]", trunc(&gt), self.pos));
                        }
                    }
                    Err(m) => self.fail("panic-get-text", format!("{kind:?} span {span:?}: {m}")),
                }
                if self.want_tree { coqfmt::green_node(&format!("{kind:?}"), &terms, off, width) } else { String::new() }
            }
        }
    }
}

fn trunc(s: &str) -> String {
    if s.len() <= 40 { s.to_string() } else { format!("{}...", s.chars().take(40).collect::<String>()) }
}

fn check_diags(
    text: &str,
    diags: &[ParserDiagnostic<'_>],
    fails: &mut Vec<Fail>,
    what: &str,
) {
    for d in diags {
        let (s, e) = (d.span.start.as_u32() as usize, d.span.end.as_u32() as usize);
        if s > e || e > text.len() {
            fails.push(mkfail("diag-span", format!("{what}: diagnostic {:?} has span [{s},{e}) outside the file [0,{}]", d.kind, text.len())));
            return;
        }
        if !text.is_char_boundary(s) || !text.is_char_boundary(e) {
            fails.push(mkfail("diag-span", format!("{what}: diagnostic {:?} span [{s},{e}) is not on character boundaries", d.kind)));
            return;
        }
    }
}

fn virtual_file<'db>(db: &'db SimpleParserDatabase, text: &str, kind: FileKind) -> cairo_lang_filesystem::ids::FileId<'db> {
    FileLongId::Virtual(VirtualFile {
        parent: None,
        name: SmolStrId::from(db, "h10_input"),
        content: SmolStrId::from(db, text),
        code_mappings: [].into(),
        kind,
        original_item_removed: false,
    })
    .intern(db)
}

pub fn print_real_tree(text: &str) -> String {
    let db = SimpleParserDatabase::default();
    let db = &db;
    let file_id = virtual_file(db, text, FileKind::Module);
    let mut diagnostics = DiagnosticsBuilder::default();
    let root = Parser::parse_file(db, &mut diagnostics, file_id, text).as_syntax_node();
    let d = diagnostics.build();
    let spans: Vec<String> = d.get_all().iter().map(|x| format!("{:?} {:?}", x.kind, x.span)).collect();
    format!("{}\n{}", cairo_lang_parser::printer::print_tree(db, &root, false, true), spans.join("\n"))
}

pub struct OracleOut {
    pub stats: TreeStats,
    pub tree: Option<String>,
    pub oplog: Option<String>,
    /// runs of the instrumented parser loops as a Coq term (with F_OPLOG), and their counts
    pub loops: Option<String>,
    pub n_loop_runs: u64,
    pub n_loop_iters: u64,
    pub error_free: bool,
}

/// Parser::parse_file on the real parser + the tree oracle.
pub fn oracle(
    text: &str,
    want_tree: bool,
    want_oplog: bool,
    want_loops: bool,
    fails: &mut Vec<Fail>,
) -> Option<OracleOut> {
    let r = catch(|| {
        let db = SimpleParserDatabase::default();
        let db = &db;
        let file_id = virtual_file(db, text, FileKind::Module);
        let mut diagnostics = DiagnosticsBuilder::default();
        // the log is always on: its loop events are an oracle of C09 on every input
        crate::hook::start(true);
        let root = Parser::parse_file(db, &mut diagnostics, file_id, text).as_syntax_node();
        let log = crate::hook::finish_raw().unwrap_or_default();
        let runs = crate::hook::loop_runs(&log);
        let loop_fail = crate::hook::loop_no_progress(&runs);
        let (n_loop_runs, n_loop_iters) =
            (runs.len() as u64, runs.iter().map(|r| r.iters.len() as u64).sum::<u64>());
        let oplog = want_oplog.then(|| crate::hook::to_coq(&log));
        let loops = want_loops.then(|| crate::hook::loops_to_coq(&runs));
        let diagnostics = diagnostics.build();
        let mut w = Walk {
            db,
            text,
            pos: 0,
            concat_ok: true,
            in_permuted: 0,
            budget: std::cell::Cell::new(2_000_000),
            fails: vec![],
            st: TreeStats::default(),
            want_tree,
        };
        let term = w.node(root, 0);
        if w.concat_ok && w.pos != text.len() {
            w.fail(
                "lossless-concat",
                format!("the tokens of the tree have {} bytes, the input has {}", w.pos, text.len()),
            );
        }
        let (ro, rw) = (root.offset(db).as_u32() as usize, root.width(db).as_u32() as usize);
        if ro != 0 || rw != text.len() {
            w.fail("root-span", format!("root spans [{ro},{}) but the file is [0,{})", ro + rw, text.len()));
        }
        let all = diagnostics.get_all();
        w.st.diags = all.len() as u64;
        let mut fs = std::mem::take(&mut w.fails);
        if let Some(m) = loop_fail {
            fs.push(mkfail("loop-no-progress", m));
        }
        check_diags(text, &all, &mut fs, "parse_file");
        // rendering the diagnostics computes line/column positions from the spans
        if let Err(m) = catch(|| diagnostics.format(db)) {
            fs.push(mkfail("panic-diag-format", m));
        }
        let error_free = diagnostics.check_error_free().is_ok();
        (
            fs,
            OracleOut {
                stats: w.st,
                tree: want_tree.then_some(term),
                oplog,
                loops,
                n_loop_runs,
                n_loop_iters,
                error_free,
            },
        )
    });
    match r {
        Ok((fs, out)) => {
            fails.extend(fs);
            Some(out)
        }
        Err(m) => {
            crate::hook::finish();
            fails.push(mkfail("panic-parse", m));
            None
        }
    }
}

/// The other file kinds the parser is entered through (macro-expanded code): totality only.
/// Returns whether the expr-mode tree covered the whole text (measured, not required: the
/// property is anchored at parse_file).
pub fn modes(text: &str, fails: &mut Vec<Fail>) -> (bool, bool) {
    let mut cover = (true, true);
    for (i, kind) in [FileKind::Expr, FileKind::StatementList].into_iter().enumerate() {
        let what = if i == 0 { "expr" } else { "statement-list" };
        let r = catch(|| {
            let db = SimpleParserDatabase::default();
            let db = &db;
            let file_id = virtual_file(db, text, kind.clone());
            let root = db.file_syntax(file_id).ok();
            let diags = db.file_syntax_diagnostics(file_id).get_all();
            let mut fs = vec![];
            check_diags(text, &diags, &mut fs, what);
            let mut covered = true;
            if let Some(root) = root {
                // force every offset / children computation; spans must stay inside the file
                let mut stack = vec![root];
                while let Some(n) = stack.pop() {
                    let s = n.span(db);
                    if s.end.as_u32() as usize > text.len() {
                        fs.push(mkfail("node-span-outside", format!("{what}: node {:?} span {s:?} outside the file", n.kind(db))));
                        break;
                    }
                    stack.extend(n.get_children(db).iter().copied());
                }
                covered = root.width(db).as_u32() as usize == text.len();
            }
            (fs, covered)
        });
        match r {
            Ok((fs, covered)) => {
                fails.extend(fs);
                if i == 0 {
                    cover.0 = covered
                } else {
                    cover.1 = covered
                }
            }
            Err(m) => fails.push(mkfail(if i == 0 { "panic-parse-expr" } else { "panic-parse-stmts" }, m)),
        }
    }
    cover
}

/// Formatter entry points. Returns (accepted by CairoFormatter, format_string output length).
pub fn format(text: &str, fails: &mut Vec<Fail>) -> (bool, usize) {
    let mut accepted = false;
    match catch(|| CairoFormatter::new(FormatterConfig::default()).format_to_string(&text.to_string()).is_ok()) {
        Ok(ok) => accepted = ok,
        Err(m) => fails.push(mkfail("panic-format", format!("CairoFormatter::format_to_string: {m}"))),
    }
    let mut n = 0;
    match catch(|| {
        let db = SimpleParserDatabase::default();
        cairo_lang_formatter::format_string(&db, text.to_string()).len()
    }) {
        Ok(k) => n = k,
        Err(m) => fails.push(mkfail("panic-format-string", format!("format_string: {m}"))),
    }
    (accepted, n)
}

pub fn process(flags: u32, text: &str) -> Value {
    let mut fails: Vec<Fail> = vec![];
    let mut resp = json!({});
    if flags & F_LEX != 0 {
        if let Some(ts) = lex_real(text, &mut fails) {
            resp["n_lex_terminals"] = json!(ts.len());
            if flags & F_LEXTERM != 0 {
                resp["lex"] = json!(coqfmt::terminals(&ts));
            }
        }
    }
    if flags & F_ORACLE != 0 {
        if let Some(o) = oracle(text, flags & F_TREE != 0, flags & F_OPLOG != 0, flags & F_LOOPS != 0, &mut fails) {
            let s = &o.stats;
            resp["stats"] = json!({
                "nodes": s.nodes, "tokens": s.tokens, "terminals": s.terminals,
                "skipped_tokens": s.skipped_tokens, "skipped_nodes": s.skipped_nodes,
                "missing": s.missing, "max_depth": s.max_depth, "diags": s.diags, "f1": s.f1,
                "error_free": o.error_free,
            });
            if let Some(t) = o.tree {
                resp["tree"] = json!(t);
            }
            if let Some(t) = o.oplog {
                resp["oplog"] = json!(t);
            }
            if let Some(t) = o.loops {
                resp["loops"] = json!(t);
            }
            resp["n_loop_runs"] = json!(o.n_loop_runs);
            resp["n_loop_iters"] = json!(o.n_loop_iters);
        }
    }
    if flags & F_MODES != 0 {
        let (a, b) = modes(text, &mut fails);
        resp["expr_covers"] = json!(a);
        resp["stmts_cover"] = json!(b);
    }
    if flags & F_FORMAT != 0 {
        let n0 = fails.len();
        let (acc, n) = format(text, &mut fails);
        // consequence of known finding F1: the formatter reads get_text of nodes inside the
        // permuted trivia list of this very tree and hits a non-char boundary
        let has_f1 = resp["stats"]["f1"].as_u64().unwrap_or(0) > 0;
        for f in fails[n0..].iter_mut() {
            if has_f1 && f.detail.contains("is not a char boundary") {
                f.sig = SIG_F1;
            }
        }
        resp["fmt_accepted"] = json!(acc);
        resp["fmt_len"] = json!(n);
    }
    resp["fails"] = Value::Array(fails.iter().map(|f| json!({"class": f.class, "detail": f.detail, "sig": f.sig})).collect());
    resp
}

pub fn main() {
    vcommon::quiet_panics();
    let t = std::thread::Builder::new()
        .stack_size(1 << 30)
        .spawn(|| {
            // the panic hook is process-wide, LAST_PANIC is thread-local: fine, one worker thread
            let stdin = std::io::stdin();
            let mut inp = stdin.lock();
            let stdout = std::io::stdout();
            let mut out = stdout.lock();
            let mut line = String::new();
            loop {
                line.clear();
                if inp.read_line(&mut line).unwrap_or(0) == 0 {
                    break;
                }
                let mut it = line.split_whitespace();
                let (Some(f), Some(n)) = (it.next(), it.next()) else { break };
                let (Ok(flags), Ok(n)) = (f.parse::<u32>(), n.parse::<usize>()) else { break };
                let mut buf = vec![0u8; n];
                if inp.read_exact(&mut buf).is_err() {
                    break;
                }
                let Ok(text) = String::from_utf8(buf) else { break };
                let resp = process(flags, &text);
                let _ = writeln!(out, "{}", resp);
                let _ = out.flush();
            }
        })
        .unwrap();
    let _ = t.join();
}
