//! Coq term printers for the case files evaluated against Syntax/Corr.v.
use crate::worker::{RealTerminal, RealTrivium};

/// A text as a Coq term of type `str` (= list N of Unicode scalar values).  Printable-ASCII
/// texts (and '\n') are written as a Coq string literal through `s2l` (bytes = code points
/// there); anything else as an explicit list of code points.
pub fn coq_str(s: &str) -> String {
    if s.is_empty() {
        return "[]".into();
    }
    if s.bytes().all(|b| (0x20..=0x7e).contains(&b) || b == b'\n') {
        format!("(s2l \"{}\")", s.replace('"', "\"\""))
    } else {
        let v: Vec<String> = s.chars().map(|c| (c as u32).to_string()).collect();
        format!("[{}]", v.join(";"))
    }
}

/// SyntaxKind::TerminalX -> the model's TX
pub fn tkind(k: &str) -> String {
    match k.strip_prefix("Terminal") {
        Some(r) => format!("T{r}"),
        None => format!("UNKNOWN_TERMINAL_KIND_{k}"),
    }
}
/// SyntaxKind::TokenX (a trivium token) -> the model's TvX
pub fn tvkind(k: &str) -> String {
    match k.strip_prefix("Token") {
        Some(r) => format!("Tv{r}"),
        None => format!("UNKNOWN_TRIVIUM_KIND_{k}"),
    }
}
fn trivia(ts: &[RealTrivium]) -> String {
    let v: Vec<String> = ts.iter().map(|t| format!("tv {} {}", tvkind(&t.kind), coq_str(&t.text))).collect();
    format!("[{}]", v.join("; "))
}
pub fn terminals(ts: &[RealTerminal]) -> String {
    let v: Vec<String> = ts
        .iter()
        .map(|t| format!("mkT {} {} {} {} {}", tkind(&t.kind), coq_str(&t.text), trivia(&t.lead), trivia(&t.trail), t.width))
        .collect();
    format!("[{}]", v.join(";\n   "))
}

pub fn green_token(kind: &str, text: &str, off: usize, width: usize) -> String {
    format!("RT \"{kind}\" {} {off} {width}", coq_str(text))
}
pub fn green_node(kind: &str, children: &[String], off: usize, width: usize) -> String {
    let v: Vec<String> = children.iter().map(|c| format!("({c})")).collect();
    format!("RN \"{kind}\" [{}] {off} {width}", v.join("; "))
}
