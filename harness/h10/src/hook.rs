//! Access to the parser's token-plumbing op log (the `#[cfg(cairo_verif)]` hook in
//! cairo-lang-parser).  Stub until the hook commit exists in /repo.
pub fn start(_want: bool) {}
pub fn finish() -> Option<String> {
    None
}
