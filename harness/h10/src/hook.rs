//! The parser's token-plumbing op log (`#[cfg(cairo_verif)]` hook `cairo_lang_parser::verif_hook`,
//! filled by parser.rs) turned into a Coq term for Syntax/Corr.v `check_oplog`.
//!
//! Log lines (one per event; `|o cw ltw npend npd nlook` = plumbing state when the op began):
//!   T|snap                      take                       S tag|snap      skip_token
//!   U n|snap                    skip_until skipped n       N w tw end tag|snap  skip_taken_node_with_offset
//!   G Orig First Second a b|snap  unglue fired             D|snap          take_doc
//!   M off|snap                  create_and_report_missing  E|snap          end of parse_syntax_file
//!   A kind text lead trail nl nt  terminal built by add_trivia_to_terminal (hex texts)
//!   X tag start end             diagnostic emitted by consume_pending_skipped_diagnostics
//!   Z|snap                      final state
//!   Li / Lr / L-                loop events (second half of this file)
use crate::coqfmt::{coq_str, tkind};

pub fn start(want: bool) {
    if want {
        cairo_lang_parser::verif_hook::start();
    }
}

pub fn finish() -> Option<String> {
    finish_raw().map(|lines| to_coq(&lines))
}

/// The raw log (None when logging was off).
pub fn finish_raw() -> Option<Vec<String>> {
    cairo_lang_parser::verif_hook::finish()
}

// ---------------------------------------------------------------------------------------------
// Loop events: `Li <id> <loop>|snap` at the head of every iteration of an instrumented parser loop
// (`id` = one run of the loop), `Lr <id> <Ok|Skip|Do|Err> <peek kind>|snap` right after the element
// parser of parse_list / parse_separated_list_inner returned, `L- <id>|snap` after the loop.
// consumed(snap) = offset + current_width = bytes of source consumed so far.

pub struct Iter {
    pub c0: u64,
    pub res: &'static str, // LOk LSkip LDo LErr LNone
    pub eof: bool,
    pub c1: u64,
}
pub struct LoopRun {
    pub name: String,
    pub iters: Vec<Iter>,
    pub end: Option<u64>,
}

fn consumed(snap: &str) -> Option<u64> {
    let mut it = snap.split_whitespace();
    let a: u64 = it.next()?.parse().ok()?;
    let b: u64 = it.next()?.parse().ok()?;
    Some(a + b)
}

pub fn is_loop_line(l: &str) -> bool {
    l.starts_with("Li ") || l.starts_with("Lr ") || l.starts_with("L- ")
}

/// The runs of the instrumented loops, in order of their first iteration.
pub fn loop_runs(lines: &[String]) -> Vec<LoopRun> {
    let mut runs: Vec<LoopRun> = vec![];
    let mut index: std::collections::HashMap<u64, usize> = std::collections::HashMap::new();
    for line in lines.iter().filter(|l| is_loop_line(l)) {
        let Some((head, sn)) = line.split_once('|') else { continue };
        let Some(c) = consumed(sn) else { continue };
        let f: Vec<&str> = head.split_whitespace().collect();
        let Some(id) = f.get(1).and_then(|x| x.parse::<u64>().ok()) else { continue };
        match f[0] {
            "Li" => {
                let k = *index.entry(id).or_insert_with(|| {
                    runs.push(LoopRun { name: f.get(2).unwrap_or(&"?").to_string(), iters: vec![], end: None });
                    runs.len() - 1
                });
                runs[k].iters.push(Iter { c0: c, res: "LNone", eof: false, c1: c });
            }
            "Lr" => {
                if let Some(it) = index.get(&id).and_then(|k| runs[*k].iters.last_mut()) {
                    it.res = match f.get(2).copied() {
                        Some("Ok") => "LOk",
                        Some("Skip") => "LSkip",
                        Some("Do") => "LDo",
                        _ => "LErr",
                    };
                    it.eof = f.get(3).copied() == Some("TerminalEndOfFile");
                    it.c1 = c;
                }
            }
            _ => {
                if let Some(k) = index.get(&id) {
                    runs[*k].end = Some(c);
                }
            }
        }
    }
    runs
}

/// Impl-level oracle of C09 on the loops: between two consecutive iterations of the same run of a
/// loop the parser must have consumed at least one byte (a deterministic loop that did not move
/// would spin forever; the watchdog would see it as a hang, this names the loop and the offset).
pub fn loop_no_progress(runs: &[LoopRun]) -> Option<String> {
    for r in runs {
        for w in r.iters.windows(2) {
            if w[1].c0 <= w[0].c0 {
                return Some(format!(
                    "loop {}: two consecutive iterations start with {} and {} bytes consumed (no progress)",
                    r.name, w[0].c0, w[1].c0
                ));
            }
        }
    }
    None
}

/// Coq term (list (lkind * list liter)) for Syntax/Corr.v `check_loops`.
pub fn loops_to_coq(runs: &[LoopRun]) -> String {
    let v: Vec<String> = runs
        .iter()
        .map(|r| {
            let kind = match r.name.as_str() {
                "parse_list" => "LParseList".to_string(),
                "parse_separated_list" => "LSepList".to_string(),
                "skip_until" => "LSkipUntil".to_string(),
                n => format!("(LWatched \"{n}\")"),
            };
            let n = r.iters.len();
            let its: Vec<String> = r
                .iters
                .iter()
                .enumerate()
                .map(|(i, it)| {
                    let next = if i + 1 < n { Some(r.iters[i + 1].c0) } else { r.end };
                    format!(
                        "mkIt {} {} {} {} {} {}",
                        it.c0,
                        it.res,
                        it.eof,
                        it.c1,
                        match next {
                            Some(x) => format!("(Some {x})"),
                            None => "None".into(),
                        },
                        i + 1 == n
                    )
                })
                .collect();
            format!("({kind}, [{}])", its.join("; "))
        })
        .collect();
    format!("[{}]", v.join(";\n   "))
}

fn unhex(h: &str) -> String {
    if h == "-" {
        return String::new();
    }
    let bytes: Vec<u8> = (0..h.len() / 2).map(|i| u8::from_str_radix(&h[2 * i..2 * i + 2], 16).unwrap_or(b'?')).collect();
    String::from_utf8_lossy(&bytes).to_string()
}

fn snap(s: &str) -> String {
    let v: Vec<&str> = s.split_whitespace().collect();
    format!("(mkSnap {})", v.join(" "))
}

struct Entry {
    kind: String, // Coq term of rkind
    pre: String,
    obs: Option<String>,
    diags: Vec<String>,
    cmp_diags: bool,
}

/// Returns `(<list rop>, <final snap>)` or a term that fails to type-check when the log is malformed
/// (a malformed log must not pass silently).
pub fn to_coq(lines: &[String]) -> String {
    let mut entries: Vec<Entry> = vec![];
    let mut nodes: Vec<String> = vec![]; // pending N group
    let mut nodes_pre = String::new();
    let mut fin = String::from("MISSING_FINAL_SNAPSHOT");
    let flush_nodes = |entries: &mut Vec<Entry>, nodes: &mut Vec<String>, pre: &str| {
        if !nodes.is_empty() {
            entries.push(Entry {
                kind: format!("KOp (OSkipTakenNodes [{}])", nodes.join("; ")),
                pre: pre.to_string(),
                obs: None,
                diags: vec![],
                cmp_diags: false,
            });
            nodes.clear();
        }
    };
    for line in lines.iter().filter(|l| !is_loop_line(l)) {
        let (head, sn) = match line.split_once('|') {
            Some((h, s)) => (h.trim(), Some(snap(s))),
            None => (line.trim(), None),
        };
        let f: Vec<&str> = head.split_whitespace().collect();
        let Some(&tag) = f.first() else { continue };
        if tag != "N" {
            flush_nodes(&mut entries, &mut nodes, &nodes_pre);
        }
        let mut push = |kind: String, cmp: bool| {
            entries.push(Entry { kind, pre: sn.clone().unwrap_or_else(|| "MISSING_SNAP".into()), obs: None, diags: vec![], cmp_diags: cmp })
        };
        match (tag, f.len()) {
            ("T", 1) => push("KOp OTake".into(), true),
            ("D", 1) => push("KOp OTakeDoc".into(), true),
            ("E", 1) => push("KFinish".into(), true),
            ("S", 2) => push(format!("KOp (OSkipToken {})", f[1]), false),
            // the stop predicate is not observable: replay with "stop at EndOfFile" and the number
            // of iterations the real loop made as fuel
            ("U", 2) => push(format!("KOp (OSkipUntil {}%nat is_eof 0)", f[1]), false),
            ("M", 2) => {
                push("KOp (OMissing 0)".into(), true);
                entries.last_mut().unwrap().diags.push(format!("(0, {}, {})", f[1], f[1]));
            }
            ("G", 6) => push(
                format!(
                    "KOp (OUnglue {} {} {} {} {})",
                    tkind(f[1]),
                    tkind(f[2]),
                    tkind(f[3]),
                    coq_str(&unhex(f[4])),
                    coq_str(&unhex(f[5]))
                ),
                false,
            ),
            ("N", 5) => {
                if nodes.is_empty() {
                    // the hook logs this line after the node was pushed onto pending_trivia (and
                    // before its pending diagnostic is): the state when the op began had one less
                    nodes_pre = line
                        .split_once('|')
                        .map(|(_, s)| {
                            let mut v: Vec<u64> = s.split_whitespace().filter_map(|x| x.parse().ok()).collect();
                            if v.len() == 6 && v[3] > 0 {
                                v[3] -= 1;
                                format!("(mkSnap {})", v.iter().map(|x| x.to_string()).collect::<Vec<_>>().join(" "))
                            } else {
                                "MALFORMED_SNAP".into()
                            }
                        })
                        .unwrap_or_else(|| "MISSING_SNAP".into());
                }
                nodes.push(format!("({}, {}, {}, {})", f[1], f[2], f[3], f[4]));
            }
            ("A", 7) => {
                if let Some(e) = entries.last_mut() {
                    e.obs = Some(format!(
                        "(mkObs {} {} {} {} {} {})",
                        tkind(f[1]),
                        coq_str(&unhex(f[2])),
                        coq_str(&unhex(f[3])),
                        coq_str(&unhex(f[4])),
                        f[5],
                        f[6]
                    ));
                }
            }
            ("X", 4) => {
                if let Some(e) = entries.last_mut() {
                    e.diags.push(format!("({}, {}, {})", f[1], f[2], f[3]));
                }
            }
            ("Z", 1) => fin = sn.clone().unwrap_or_else(|| "MISSING_SNAP".into()),
            _ => push(format!("MALFORMED_LOG_LINE_{}", tag), false),
        }
    }
    flush_nodes(&mut entries, &mut nodes, &nodes_pre);
    let v: Vec<String> = entries
        .iter()
        .map(|e| {
            format!(
                "mkR ({}) {} {} {}",
                e.kind,
                e.pre,
                match &e.obs {
                    Some(o) => format!("(Some {o})"),
                    None => "None".into(),
                },
                if e.cmp_diags { format!("(Some [{}])", e.diags.join("; ")) } else { "None".into() }
            )
        })
        .collect();
    format!("[{}],\n  {}", v.join(";\n   "), fin)
}
