//! The parser's token-plumbing op log (`#[cfg(cairo_verif)]` hook `cairo_lang_parser::verif_hook`,
//! filled by parser.rs) turned into a Coq term for Syntax/Corr.v `check_oplog`.
//!
//! Log lines (one per event; `|o cw ltw npend npd nlook` = plumbing state when the op began):
//!   T|snap                      take                       S tag|snap      skip_token
//!   U n|snap                    skip_until skipped n       N w tw end tag|snap  skip_taken_node_with_offset
//!   G Orig First Second a b|snap  unglue fired             D|snap          take_doc
//!   M off|snap                  create_and_report_missing  E|snap          end of parse_syntax_file
//!   A kind text lead trail nl nt  terminal built by add_trivia_to_terminal (hex texts)
//!   X tag start end             diagnostic emitted by consume_pending_skipped_diagnostics
//!   Z|snap                      final state
use crate::coqfmt::{coq_str, tkind};

pub fn start(want: bool) {
    if want {
        cairo_lang_parser::verif_hook::start();
    }
}

pub fn finish() -> Option<String> {
    cairo_lang_parser::verif_hook::finish().map(|lines| to_coq(&lines))
}

fn unhex(h: &str) -> String {
    if h == "-" {
        return String::new();
    }
    let bytes: Vec<u8> = (0..h.len() / 2).map(|i| u8::from_str_radix(&h[2 * i..2 * i + 2], 16).unwrap_or(b'?')).collect();
    String::from_utf8_lossy(&bytes).to_string()
}

fn snap(s: &str) -> String {
    let v: Vec<&str> = s.split_whitespace().collect();
    format!("(mkSnap {})", v.join(" "))
}

struct Entry {
    kind: String, // Coq term of rkind
    pre: String,
    obs: Option<String>,
    diags: Vec<String>,
    cmp_diags: bool,
}

/// Returns `(<list rop>, <final snap>)` or a term that fails to type-check when the log is malformed
/// (a malformed log must not pass silently).
pub fn to_coq(lines: &[String]) -> String {
    let mut entries: Vec<Entry> = vec![];
    let mut nodes: Vec<String> = vec![]; // pending N group
    let mut nodes_pre = String::new();
    let mut fin = String::from("MISSING_FINAL_SNAPSHOT");
    let flush_nodes = |entries: &mut Vec<Entry>, nodes: &mut Vec<String>, pre: &str| {
        if !nodes.is_empty() {
            entries.push(Entry {
                kind: format!("KOp (OSkipTakenNodes [{}])", nodes.join("; ")),
                pre: pre.to_string(),
                obs: None,
                diags: vec![],
                cmp_diags: false,
            });
            nodes.clear();
        }
    };
    for line in lines {
        let (head, sn) = match line.split_once('|') {
            Some((h, s)) => (h.trim(), Some(snap(s))),
            None => (line.trim(), None),
        };
        let f: Vec<&str> = head.split_whitespace().collect();
        let Some(&tag) = f.first() else { continue };
        if tag != "N" {
            flush_nodes(&mut entries, &mut nodes, &nodes_pre);
        }
        let mut push = |kind: String, cmp: bool| {
            entries.push(Entry { kind, pre: sn.clone().unwrap_or_else(|| "MISSING_SNAP".into()), obs: None, diags: vec![], cmp_diags: cmp })
        };
        match (tag, f.len()) {
            ("T", 1) => push("KOp OTake".into(), true),
            ("D", 1) => push("KOp OTakeDoc".into(), true),
            ("E", 1) => push("KFinish".into(), true),
            ("S", 2) => push(format!("KOp (OSkipToken {})", f[1]), false),
            // the stop predicate is not observable: replay with "stop at EndOfFile" and the number
            // of iterations the real loop made as fuel
            ("U", 2) => push(format!("KOp (OSkipUntil {}%nat is_eof 0)", f[1]), false),
            ("M", 2) => {
                push("KOp (OMissing 0)".into(), true);
                entries.last_mut().unwrap().diags.push(format!("(0, {}, {})", f[1], f[1]));
            }
            ("G", 6) => push(
                format!(
                    "KOp (OUnglue {} {} {} {} {})",
                    tkind(f[1]),
                    tkind(f[2]),
                    tkind(f[3]),
                    coq_str(&unhex(f[4])),
                    coq_str(&unhex(f[5]))
                ),
                false,
            ),
            ("N", 5) => {
                if nodes.is_empty() {
                    // the hook logs this line after the node was pushed onto pending_trivia (and
                    // before its pending diagnostic is): the state when the op began had one less
                    nodes_pre = line
                        .split_once('|')
                        .map(|(_, s)| {
                            let mut v: Vec<u64> = s.split_whitespace().filter_map(|x| x.parse().ok()).collect();
                            if v.len() == 6 && v[3] > 0 {
                                v[3] -= 1;
                                format!("(mkSnap {})", v.iter().map(|x| x.to_string()).collect::<Vec<_>>().join(" "))
                            } else {
                                "MALFORMED_SNAP".into()
                            }
                        })
                        .unwrap_or_else(|| "MISSING_SNAP".into());
                }
                nodes.push(format!("({}, {}, {}, {})", f[1], f[2], f[3], f[4]));
            }
            ("A", 7) => {
                if let Some(e) = entries.last_mut() {
                    e.obs = Some(format!(
                        "(mkObs {} {} {} {} {} {})",
                        tkind(f[1]),
                        coq_str(&unhex(f[2])),
                        coq_str(&unhex(f[3])),
                        coq_str(&unhex(f[4])),
                        f[5],
                        f[6]
                    ));
                }
            }
            ("X", 4) => {
                if let Some(e) = entries.last_mut() {
                    e.diags.push(format!("({}, {}, {})", f[1], f[2], f[3]));
                }
            }
            ("Z", 1) => fin = sn.clone().unwrap_or_else(|| "MISSING_SNAP".into()),
            _ => push(format!("MALFORMED_LOG_LINE_{}", tag), false),
        }
    }
    flush_nodes(&mut entries, &mut nodes, &nodes_pre);
    let v: Vec<String> = entries
        .iter()
        .map(|e| {
            format!(
                "mkR ({}) {} {} {}",
                e.kind,
                e.pre,
                match &e.obs {
                    Some(o) => format!("(Some {o})"),
                    None => "None".into(),
                },
                if e.cmp_diags { format!("(Some [{}])", e.diags.join("; ")) } else { "None".into() }
            )
        })
        .collect();
    format!("[{}],\n  {}", v.join(";\n   "), fin)
}
