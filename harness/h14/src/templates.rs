//! Boundary templates for C14: programs built so that an untrusted number sits exactly at / one
//! below / one above an arithmetic boundary of the implementation (i16::MAX type sizes, u16/2^16
//! counts, statement / branch / parameter / declaration counts, generic-argument values).
//!
//! Arithmetic sites the templates were derived from (file:line in /repo at the time of writing;
//! the evidence repeats this list):
pub const SITES: &[&str] = &[
    "cairo-lang-sierra-type-size/src/lib.rs:113 enum size: max_variant_size.checked_add(1) (i16)",
    "cairo-lang-sierra-type-size/src/lib.rs:123 struct size: size.checked_add(member) (i16)",
    "cairo-lang-sierra-type-size/src/lib.rs:134 U96LimbsLessThanGuarantee: limb_count.checked_mul(2) + try_into i16",
    "cairo-lang-sierra-type-size/src/lib.rs:96 NonZero/Snapshot/Uninitialized: size of the wrapped type",
    "cairo-lang-sierra/src/extensions/modules/const_type.rs:147 selector try_into usize, checked_add(1)",
    "cairo-lang-sierra/src/extensions/modules/bounded_int.rs:697 min/max against +-P",
    "cairo-lang-sierra-to-casm/src/references.rs / environment: ap/fp offsets as i16 (type sizes summed over params, temps, locals)",
    "cairo-lang-sierra-to-casm/src/invocations/{mem,structure,enm,array,boxing,nullable,function_call}.rs: `as i16` / into_or_panic on type sizes and variant counts",
    "cairo-lang-sierra-to-casm/src/invocations/enm.rs: jump-table offsets from the variant count (2*n-1 relative jumps)",
    "cairo-lang-sierra-to-casm/src/compiler.rs: const segment offsets, program_offset accumulation, max_bytecode_size",
    "cairo-lang-sierra-ap-change/src/core_libfunc_ap_change.rs: ap change = type size (usize) per store / alloc_local",
    "cairo-lang-sierra-gas/src/core_libfunc_cost_base.rs: cost = steps * type size (i32)",
    "cairo-lang-starknet-classes/src/felt252_serde.rs: usize / u64 lengths and ids (to_usize, to_u64)",
    "cairo-lang-starknet-classes/src/contract_class.rs + casm_contract_class.rs: function_idx usize, selector BigUint, JSON numbers",
];

use std::collections::{BTreeMap, BTreeSet, HashMap};
use std::time::Instant;

use cairo_lang_sierra::ProgramParser;
use cairo_lang_sierra::extensions::core::{CoreLibfunc, CoreType};
use cairo_lang_sierra::extensions::{ConcreteLibfunc, ConcreteType, ExtensionError, SpecializationError};
use cairo_lang_sierra::ids::{
    ConcreteLibfuncId, ConcreteTypeId, FunctionId, GenericLibfuncId, GenericTypeId, UserTypeId, VarId,
};
use cairo_lang_sierra::program::{
    BranchInfo, BranchTarget, ConcreteLibfuncLongId, ConcreteTypeLongId, Function, GenericArg, Invocation,
    LibfuncDeclaration, Param, Program, Statement, StatementIdx, TypeDeclaration,
};
use cairo_lang_sierra::program_registry::{ProgramRegistry, ProgramRegistryError};
use cairo_lang_starknet_classes::casm_contract_class::CasmContractClass;
use cairo_lang_starknet_classes::compiler_version::{current_compiler_version_id, current_sierra_version_id};
use cairo_lang_starknet_classes::contract_class::ContractClass;
use cairo_lang_starknet_classes::verif_exports::sierra_to_felt252s;
use h14lib::pipe::{Panic, Solver, guarded};
use num_bigint::BigInt;
use serde_json::{Value, json};

use crate::items::{Window, emit_begin, emit_end, list_files, panics_json, program_witness, run_program_item};

// ------------------------------------------------------------------------------------------------
// program builder
// ------------------------------------------------------------------------------------------------
#[derive(Clone)]
pub struct B {
    pub p: Program,
    types: HashMap<String, ConcreteTypeId>,
    libfuncs: HashMap<String, ConcreteLibfuncId>,
    next_var: u64,
}

fn ut(name: &str) -> GenericArg {
    GenericArg::UserType(UserTypeId::from_string(name))
}
fn t(ty: &ConcreteTypeId) -> GenericArg {
    GenericArg::Type(ty.clone())
}
fn v(x: impl Into<BigInt>) -> GenericArg {
    GenericArg::Value(x.into())
}

impl Default for B {
    fn default() -> Self {
        B {
            p: Program { type_declarations: vec![], libfunc_declarations: vec![], statements: vec![], funcs: vec![] },
            types: HashMap::new(),
            libfuncs: HashMap::new(),
            next_var: 0,
        }
    }
}

impl B {
    pub fn ty(&mut self, gid: &str, args: Vec<GenericArg>) -> ConcreteTypeId {
        let key = format!("{gid}{:?}", args);
        if let Some(x) = self.types.get(&key) {
            return x.clone();
        }
        let id = ConcreteTypeId::new(self.p.type_declarations.len() as u64);
        self.p.type_declarations.push(TypeDeclaration {
            id: id.clone(),
            long_id: ConcreteTypeLongId { generic_id: GenericTypeId::from_string(gid), generic_args: args },
            declared_type_info: None,
        });
        self.types.insert(key, id.clone());
        id
    }
    pub fn lf(&mut self, gid: &str, args: Vec<GenericArg>) -> ConcreteLibfuncId {
        let key = format!("{gid}{:?}", args);
        if let Some(x) = self.libfuncs.get(&key) {
            return x.clone();
        }
        let id = ConcreteLibfuncId::new(self.p.libfunc_declarations.len() as u64);
        self.p.libfunc_declarations.push(LibfuncDeclaration {
            id: id.clone(),
            long_id: ConcreteLibfuncLongId { generic_id: GenericLibfuncId::from_string(gid), generic_args: args },
        });
        self.libfuncs.insert(key, id.clone());
        id
    }
    pub fn var(&mut self) -> VarId {
        self.next_var += 1;
        VarId::new(self.next_var - 1)
    }
    pub fn felt(&mut self) -> ConcreteTypeId {
        self.ty("felt252", vec![])
    }
    pub fn unit(&mut self) -> ConcreteTypeId {
        self.ty("Struct", vec![ut("Tuple")])
    }
    /// One invocation with a single fallthrough branch.
    pub fn call(&mut self, lf: ConcreteLibfuncId, args: Vec<VarId>, n_results: usize) -> Vec<VarId> {
        let results: Vec<VarId> = (0..n_results).map(|_| self.var()).collect();
        self.p.statements.push(Statement::Invocation(Invocation {
            libfunc_id: lf,
            args,
            branches: vec![BranchInfo { target: BranchTarget::Fallthrough, results: results.clone() }],
        }));
        results
    }
    pub fn ret(&mut self, vars: Vec<VarId>) {
        self.p.statements.push(Statement::Return(vars));
    }
    pub fn func(&mut self, params: Vec<(VarId, ConcreteTypeId)>, rets: Vec<ConcreteTypeId>, entry: usize) {
        let id = FunctionId::new(self.p.funcs.len() as u64);
        self.p.funcs.push(Function::new(
            id,
            params.into_iter().map(|(id, ty)| Param { id, ty }).collect(),
            rets,
            StatementIdx(entry),
        ));
    }
    /// A type of exactly `n` cells over the size-1 type `base`: doubling chain S0=base,
    /// S(k)=Struct<S(k-1),S(k-1)> and Big=Struct<S(k) for every set bit k of n>.
    pub fn sized(&mut self, n: usize, base: &ConcreteTypeId, tag: &str) -> ConcreteTypeId {
        let mut chain = vec![base.clone()];
        let bits = usize::BITS - n.leading_zeros();
        for k in 1..bits as usize {
            let prev = chain[k - 1].clone();
            let s = self.ty("Struct", vec![ut(&format!("S{tag}{k}")), t(&prev), t(&prev)]);
            chain.push(s);
        }
        let mut members = vec![ut(&format!("Big{tag}{n}"))];
        for k in (0..bits as usize).rev() {
            if n >> k & 1 == 1 {
                members.push(t(&chain[k]));
            }
        }
        self.ty("Struct", members)
    }
    /// Const<ty, ...> of the all-zero value of a type built by `sized` over felt252.
    pub fn const_of_sized(&mut self, n: usize, tag: &str) -> (ConcreteTypeId, ConcreteTypeId) {
        let felt = self.felt();
        let c0 = self.ty("Const", vec![t(&felt), v(0)]);
        let mut chain = vec![felt.clone()];
        let mut cchain = vec![c0];
        let bits = usize::BITS - n.leading_zeros();
        for k in 1..bits as usize {
            let prev = chain[k - 1].clone();
            let s = self.ty("Struct", vec![ut(&format!("S{tag}{k}")), t(&prev), t(&prev)]);
            let cprev = cchain[k - 1].clone();
            let c = self.ty("Const", vec![t(&s), t(&cprev), t(&cprev)]);
            chain.push(s);
            cchain.push(c);
        }
        let mut members = vec![ut(&format!("Big{tag}{n}"))];
        let mut cmembers = vec![];
        for k in (0..bits as usize).rev() {
            if n >> k & 1 == 1 {
                members.push(t(&chain[k]));
                cmembers.push(t(&cchain[k]));
            }
        }
        let big = self.ty("Struct", members);
        let mut cargs = vec![t(&big)];
        cargs.extend(cmembers);
        let c = self.ty("Const", cargs);
        (big, c)
    }
}

// ------------------------------------------------------------------------------------------------
// signature-driven synthesis: one function around one libfunc
// ------------------------------------------------------------------------------------------------
fn registry_with_autodeclare(b: &mut B) -> Result<ProgramRegistry<CoreType, CoreLibfunc>, String> {
    for _ in 0..16 {
        let r = guarded("ProgramRegistry::new", || ProgramRegistry::<CoreType, CoreLibfunc>::new(&b.p));
        match r {
            Err(p) => return Err(format!("panic {}", p.loc)),
            Ok(Ok(reg)) => return Ok(reg),
            Ok(Err(e)) => match *e {
                ProgramRegistryError::LibfuncSpecialization {
                    error:
                        ExtensionError::LibfuncSpecialization {
                            error: SpecializationError::TypeWasNotDeclared(gid, args), ..
                        },
                    ..
                } => {
                    b.ty(gid.0.as_str(), args);
                }
                other => return Err(format!("{other}")),
            },
        }
    }
    Err("too many undeclared types".into())
}

/// Wraps the libfunc `lf` (already declared in `b`) in a function: its parameters are the function's
/// parameters; on every branch storable results are stored, droppable ones dropped, the others
/// returned.  `extra`: a value carried across the invocation and returned (stresses offsets).
fn synthesize(b: &mut B, lf: &ConcreteLibfuncId, extra: Option<ConcreteTypeId>) -> Result<(), String> {
    let reg = registry_with_autodeclare(b)?;
    let l = reg.get_libfunc(lf).map_err(|e| format!("{e}"))?;
    let params: Vec<ConcreteTypeId> = l.param_signatures().iter().map(|p| p.ty.clone()).collect();
    let branches: Vec<Vec<ConcreteTypeId>> =
        l.branch_signatures().iter().map(|bs| bs.vars.iter().map(|o| o.ty.clone()).collect()).collect();
    let fallthrough = l.fallthrough();
    let info = |ty: &ConcreteTypeId| reg.get_type(ty).map(|x| x.info().clone()).map_err(|e| format!("{e}"));
    // what each branch must return: its non-droppable results
    let mut keep: Vec<Vec<usize>> = vec![];
    for br in &branches {
        let mut k = vec![];
        for (j, ty) in br.iter().enumerate() {
            if !info(ty)?.droppable {
                k.push(j);
            }
        }
        keep.push(k);
    }
    let single = branches.len() == 1;
    let mut rets: Vec<ConcreteTypeId> = if single {
        branches[0].clone()
    } else if branches.is_empty() {
        vec![]
    } else {
        keep[0].iter().map(|j| branches[0][*j].clone()).collect()
    };
    if let Some(x) = &extra {
        rets.push(x.clone());
    }
    let infos: HashMap<u64, (bool, bool)> = {
        let mut m = HashMap::new();
        for br in &branches {
            for ty in br {
                let i = info(ty)?;
                m.insert(ty.id, (i.storable, i.droppable));
            }
        }
        m
    };
    drop(reg);
    let entry = b.p.statements.len();
    let pvars: Vec<(VarId, ConcreteTypeId)> = params.iter().map(|ty| (b.var(), ty.clone())).collect();
    let extra_var = extra.as_ref().map(|ty| (b.var(), ty.clone()));
    // results per branch
    let results: Vec<Vec<VarId>> = branches.iter().map(|br| br.iter().map(|_| b.var()).collect()).collect();
    // block sizes: per result store(+drop) ; align for multi-branch ; extra store ; return
    let multi = branches.len() > 1;
    let block_len = |k: usize| -> usize {
        let mut n = if multi { 1 } else { 0 };
        for (j, ty) in branches[k].iter().enumerate() {
            let (st, dr) = infos[&ty.id];
            let kept = single || keep[k].contains(&j);
            if st {
                n += 1;
            }
            if !kept && dr {
                n += 1;
            }
        }
        n + usize::from(extra.is_some()) + 1
    };
    // order of blocks: fallthrough first
    let mut order: Vec<usize> = (0..branches.len()).collect();
    if let Some(f) = fallthrough {
        if f < order.len() {
            order.retain(|x| *x != f);
            order.insert(0, f);
        }
    }
    let mut starts = vec![0usize; branches.len()];
    let mut pos = entry + 1;
    for k in &order {
        starts[*k] = pos;
        pos += block_len(*k);
    }
    let infos_branches: Vec<BranchInfo> = (0..branches.len())
        .map(|k| BranchInfo {
            target: if Some(k) == fallthrough && starts[k] == entry + 1 {
                BranchTarget::Fallthrough
            } else {
                BranchTarget::Statement(StatementIdx(starts[k]))
            },
            results: results[k].clone(),
        })
        .collect();
    b.p.statements.push(Statement::Invocation(Invocation {
        libfunc_id: lf.clone(),
        args: pvars.iter().map(|x| x.0.clone()).collect(),
        branches: infos_branches,
    }));
    if branches.is_empty() {
        // a libfunc without branches never returns: nothing follows it
    }
    for k in order {
        if multi {
            let al = b.lf("branch_align", vec![]);
            b.call(al, vec![], 0);
        }
        let mut out = vec![];
        for (j, ty) in branches[k].clone().iter().enumerate() {
            let (st, dr) = infos[&ty.id];
            let kept = single || keep[k].contains(&j);
            let mut cur = results[k][j].clone();
            if st {
                let s = b.lf("store_temp", vec![t(ty)]);
                cur = b.call(s, vec![cur], 1)[0].clone();
            }
            if kept {
                out.push(cur);
            } else if dr {
                let d = b.lf("drop", vec![t(ty)]);
                b.call(d, vec![cur], 0);
            }
        }
        if let Some((xv, xty)) = &extra_var {
            let s = b.lf("store_temp", vec![t(xty)]);
            out.push(b.call(s, vec![xv.clone()], 1)[0].clone());
        }
        b.ret(out);
    }
    let mut fparams = pvars;
    if let Some(x) = extra_var {
        fparams.push(x);
    }
    b.func(fparams, rets, entry);
    Ok(())
}

// ------------------------------------------------------------------------------------------------
// the template list
// ------------------------------------------------------------------------------------------------
pub struct Tpl {
    pub name: String,
    pub class: &'static str,
    pub build: Box<dyn Fn() -> Result<Program, String> + Send>,
}

fn tpl(name: String, class: &'static str, f: impl Fn() -> Result<Program, String> + Send + 'static) -> Tpl {
    Tpl { name, class, build: Box::new(f) }
}

/// sizes around the i16 / u16 boundaries and the halves / thirds whose sums cross them
pub fn boundary_sizes(thorough: bool) -> Vec<usize> {
    let mut s = vec![32766, 32767, 32768, 16383, 16384, 65535, 65536];
    if thorough {
        s.extend([32765, 32769, 65534, 65537, 10922, 10923, 8191, 8192, 255, 256, 131071, 131072]);
    }
    s
}
/// sizes a function can actually move around (the type itself is accepted)
pub fn movable_sizes(thorough: bool) -> Vec<usize> {
    if thorough { vec![32767, 32766, 16384, 16383, 10923, 8192] } else { vec![32767, 16384] }
}
pub fn count_boundaries(thorough: bool) -> Vec<usize> {
    if thorough { vec![32767, 32768, 32769, 65535, 65536, 65537] } else { vec![32768, 65537] }
}

const WRAPPERS: &[&str] = &["Box", "Nullable", "Snapshot", "Uninitialized", "NonZero", "Array", "Span"];

/// The candidate "big" types a libfunc's type argument is instantiated with (only the chosen one
/// is declared: e.g. Snapshot<T> of a duplicatable T does not specialise and would sink the rest).
pub const N_CANDIDATES: usize = 12;
fn candidate(b: &mut B, n: usize, c: usize) -> (ConcreteTypeId, ConcreteTypeId) {
    let felt = b.felt();
    let big = b.sized(n, &felt, "");
    let ty = match c % N_CANDIDATES {
        0 => big.clone(),
        1 => b.ty("Enum", vec![ut("E1"), t(&big)]),
        2 => {
            let unit = b.unit();
            b.ty("Enum", vec![ut("E2"), t(&unit), t(&big)])
        }
        3 => b.ty("Array", vec![t(&big)]),
        4 => b.ty("Box", vec![t(&big)]),
        5 => b.ty("Nullable", vec![t(&big)]),
        6 => b.ty("NonZero", vec![t(&big)]),
        7 => b.ty("Uninitialized", vec![t(&big)]),
        8 => {
            let arr = b.ty("Array", vec![t(&big)]);
            b.ty("Snapshot", vec![t(&arr)])
        }
        9 => b.ty("Struct", vec![ut("Tuple"), t(&big), t(&felt)]),
        10 => {
            // a non-duplicatable big type (over Array<felt252>, 2 cells each) and its snapshot
            let arr = b.ty("Array", vec![t(&felt)]);
            let nd = b.sized(n / 2, &arr, "a");
            b.ty("Snapshot", vec![t(&nd)])
        }
        _ => {
            let arr = b.ty("Array", vec![t(&felt)]);
            b.sized(n / 2, &arr, "a")
        }
    };
    (big, ty)
}

/// (generic id, generic args as in the corpus) of every libfunc of the corpus that takes a type.
pub fn harvest_libfuncs(corpus_dir: &str) -> Vec<(String, Vec<GenericArg>)> {
    let mut seen: BTreeMap<String, (String, Vec<GenericArg>)> = BTreeMap::new();
    for f in list_files(corpus_dir, ".sierra") {
        let Ok(text) = std::fs::read_to_string(&f) else { continue };
        let Ok(p) = ProgramParser::new().parse(&text) else { continue };
        for d in &p.libfunc_declarations {
            let kinds: String = d
                .long_id
                .generic_args
                .iter()
                .map(|g| match g {
                    GenericArg::Type(_) => 'T',
                    GenericArg::Value(_) => 'V',
                    GenericArg::UserType(_) => 'U',
                    GenericArg::UserFunc(_) => 'F',
                    GenericArg::Libfunc(_) => 'L',
                })
                .collect();
            if !kinds.contains('T') || kinds.contains('F') || kinds.contains('L') {
                continue;
            }
            let key = format!("{}/{}", d.long_id.generic_id.0, kinds);
            seen.entry(key).or_insert_with(|| (d.long_id.generic_id.0.to_string(), d.long_id.generic_args.clone()));
        }
    }
    seen.into_values().collect()
}

fn with_types(args: &[GenericArg], tys: &[ConcreteTypeId]) -> Vec<GenericArg> {
    let mut k = 0;
    args.iter()
        .map(|g| match g {
            GenericArg::Type(_) => {
                let x = GenericArg::Type(tys[k.min(tys.len() - 1)].clone());
                k += 1;
                x
            }
            GenericArg::Value(v) => GenericArg::Value(v.clone()),
            // small values keep a selector / index inside a one- or two-variant enum
            other => other.clone(),
        })
        .collect()
}

pub fn all_templates(thorough: bool, libfuncs: &[(String, Vec<GenericArg>)]) -> Vec<Tpl> {
    let mut out: Vec<Tpl> = vec![];
    // ---------- types only ----------
    for n in boundary_sizes(thorough) {
        out.push(tpl(format!("size{n}/Big"), "type-size", move || {
            let mut b = B::default();
            let f = b.felt();
            b.sized(n, &f, "");
            Ok(b.p)
        }));
        for shape in 0..8usize {
            out.push(tpl(format!("size{n}/enum-shape{shape}"), "type-size", move || {
                let mut b = B::default();
                let f = b.felt();
                let unit = b.unit();
                let big = b.sized(n, &f, "");
                match shape {
                    0 => {
                        b.ty("Enum", vec![ut("E"), t(&big)]);
                    }
                    1 => {
                        b.ty("Enum", vec![ut("E"), t(&unit), t(&big)]);
                    }
                    2 => {
                        b.ty("Enum", vec![ut("E"), t(&big), t(&big), t(&f)]);
                    }
                    3 => {
                        let e = b.ty("Enum", vec![ut("E"), t(&big)]);
                        b.ty("Enum", vec![ut("EE"), t(&e)]);
                    }
                    4 => {
                        let e = b.ty("Enum", vec![ut("E"), t(&big)]);
                        b.ty("Struct", vec![ut("SE"), t(&e), t(&f)]);
                    }
                    5 => {
                        b.ty("Struct", vec![ut("SS"), t(&big), t(&big)]);
                    }
                    6 => {
                        let s = b.ty("Snapshot", vec![t(&big)]);
                        b.ty("Enum", vec![ut("E"), t(&s)]);
                    }
                    _ => {
                        let nz = b.ty("NonZero", vec![t(&big)]);
                        b.ty("Struct", vec![ut("SNZ"), t(&nz), t(&f)]);
                    }
                }
                Ok(b.p)
            }));
        }
        for w in WRAPPERS {
            out.push(tpl(format!("size{n}/{w}<Big>"), "type-size", move || {
                let mut b = B::default();
                let f = b.felt();
                let big = b.sized(n, &f, "");
                let x = b.ty(w, vec![t(&big)]);
                b.ty("Enum", vec![ut("E"), t(&x)]);
                b.ty("Struct", vec![ut("SW"), t(&x), t(&x)]);
                Ok(b.p)
            }));
        }
        // other size-1 / size-2 bases
        for base in ["u128", "Array", "EcPoint", "u8"] {
            out.push(tpl(format!("size{n}/base-{base}"), "type-size", move || {
                let mut b = B::default();
                let f = b.felt();
                let bt = if base == "Array" { b.ty("Array", vec![t(&f)]) } else { b.ty(base, vec![]) };
                // for the size-2 bases the chain reaches 2n: build n/2 and add a filler when n is odd
                let two = base == "Array" || base == "EcPoint";
                let big = if two { b.sized(n / 2, &bt, "h") } else { b.sized(n, &bt, "") };
                let top = if two && n % 2 == 1 {
                    b.ty("Struct", vec![ut("Odd"), t(&big), t(&f)])
                } else {
                    big
                };
                b.ty("Enum", vec![ut("E"), t(&top)]);
                Ok(b.p)
            }));
        }
        if n <= 70000 {
            out.push(tpl(format!("size{n}/flat-struct"), "type-size", move || {
                let mut b = B::default();
                let f = b.felt();
                let mut m = vec![ut("Flat")];
                m.extend((0..n).map(|_| t(&f)));
                let s = b.ty("Struct", m);
                b.ty("Enum", vec![ut("E"), t(&s)]);
                Ok(b.p)
            }));
        }
    }
    // U96LimbsLessThanGuarantee<limb_count>: checked_mul(2) + try_into
    for e in [14u32, 15, 16, 31, 32, 62, 63, 64, 128] {
        for d in [-1i32, 0, 1] {
            out.push(tpl(format!("limbs-2^{e}{d:+}"), "type-size", move || {
                let mut b = B::default();
                let val = (BigInt::from(1) << e) + d;
                let g = b.ty("U96LimbsLtGuarantee", vec![v(val)]);
                b.ty("Enum", vec![ut("E"), t(&g)]);
                b.ty("Struct", vec![ut("SG"), t(&g), t(&g)]);
                Ok(b.p)
            }));
        }
    }
    // ---------- functions moving big values ----------
    for n in movable_sizes(thorough) {
        out.push(tpl(format!("move{n}/identity"), "move", move || {
            let mut b = B::default();
            let f = b.felt();
            let big = b.sized(n, &f, "");
            let x = b.var();
            let st = b.lf("store_temp", vec![t(&big)]);
            let y = b.call(st, vec![x.clone()], 1);
            b.ret(y);
            b.func(vec![(x, big.clone())], vec![big], 0);
            Ok(b.p)
        }));
        out.push(tpl(format!("move{n}/locals"), "move", move || {
            let mut b = B::default();
            let f = b.felt();
            let big = b.sized(n, &f, "");
            let x = b.var();
            let al = b.lf("alloc_local", vec![t(&big)]);
            let l = b.call(al, vec![], 1);
            let fin = b.lf("finalize_locals", vec![]);
            b.call(fin, vec![], 0);
            let sl = b.lf("store_local", vec![t(&big)]);
            let y = b.call(sl, vec![l[0].clone(), x.clone()], 1);
            let st = b.lf("store_temp", vec![t(&big)]);
            let z = b.call(st, y, 1);
            b.ret(z);
            b.func(vec![(x, big.clone())], vec![big], 0);
            Ok(b.p)
        }));
        out.push(tpl(format!("move{n}/call"), "move", move || {
            let mut b = B::default();
            let f = b.felt();
            let big = b.sized(n, &f, "");
            let st = b.lf("store_temp", vec![t(&big)]);
            // g at 0..2
            let gx = b.var();
            let gy = b.call(st.clone(), vec![gx.clone()], 1);
            b.ret(gy);
            b.func(vec![(gx, big.clone())], vec![big.clone()], 0);
            // f
            let entry = b.p.statements.len();
            let x = b.var();
            let y = b.call(st.clone(), vec![x.clone()], 1);
            let fc = b.lf("function_call", vec![GenericArg::UserFunc(FunctionId::new(0))]);
            let z = b.call(fc, y, 1);
            let d = b.lf("dup", vec![t(&big)]);
            let zz = b.call(d, z, 2);
            let dr = b.lf("drop", vec![t(&big)]);
            b.call(dr, vec![zz[1].clone()], 0);
            b.ret(vec![zz[0].clone()]);
            b.func(vec![(x, big.clone())], vec![big], entry);
            Ok(b.p)
        }));
        for parts in [2usize, 3] {
            out.push(tpl(format!("move{n}/{parts}-params"), "move", move || {
                let mut b = B::default();
                let f = b.felt();
                let big = b.sized(n, &f, "");
                let st = b.lf("store_temp", vec![t(&big)]);
                let xs: Vec<VarId> = (0..parts).map(|_| b.var()).collect();
                let mut ys = vec![];
                for x in &xs {
                    ys.push(b.call(st.clone(), vec![x.clone()], 1)[0].clone());
                }
                b.ret(ys);
                b.func(xs.into_iter().map(|x| (x, big.clone())).collect(), vec![big.clone(); parts], 0);
                Ok(b.p)
            }));
        }
        out.push(tpl(format!("move{n}/const-as-box"), "move", move || {
            let mut b = B::default();
            let (big, c) = b.const_of_sized(n, "");
            let bx = b.ty("Box", vec![t(&big)]);
            let cb = b.lf("const_as_box", vec![t(&c), v(0)]);
            let r = b.call(cb, vec![], 1);
            let ub = b.lf("unbox", vec![t(&big)]);
            let u = b.call(ub, r, 1);
            let st = b.lf("store_temp", vec![t(&big)]);
            let s = b.call(st, u, 1);
            b.ret(s);
            let _ = bx;
            b.func(vec![], vec![big], 0);
            Ok(b.p)
        }));
        // every corpus libfunc that takes a type, over every candidate big type
        for (gid, args) in libfuncs.iter().cloned() {
            for c in 0..N_CANDIDATES {
                for extra in [false, true] {
                    if extra && !(thorough && n == 16383) && !(n == 16384 && c == 0) {
                        continue;
                    }
                    let (gid, args) = (gid.clone(), args.clone());
                    out.push(tpl(format!("move{n}/{gid}#{c}{}", if extra { "+carried" } else { "" }), "libfunc", move || {
                        let mut b = B::default();
                        let (big, ty) = candidate(&mut b, n, c);
                        let lf = b.lf(&gid, with_types(&args, &[ty]));
                        synthesize(&mut b, &lf, if extra { Some(big) } else { None })?;
                        Ok(b.p)
                    }));
                }
            }
        }
    }
    // ---------- counts ----------
    for n in count_boundaries(thorough) {
        out.push(tpl(format!("count{n}/statements"), "count", move || {
            let mut b = B::default();
            let f = b.felt();
            let c = b.lf("felt252_const", vec![v(1)]);
            let d = b.lf("drop", vec![t(&f)]);
            while b.p.statements.len() + 2 < n {
                let r = b.call(c.clone(), vec![], 1);
                b.call(d.clone(), r, 0);
            }
            if b.p.statements.len() + 1 < n {
                let ra = b.lf("revoke_ap_tracking", vec![]);
                b.call(ra, vec![], 0);
            }
            b.ret(vec![]);
            b.func(vec![], vec![], 0);
            Ok(b.p)
        }));
        out.push(tpl(format!("count{n}/jump-over"), "count", move || {
            let mut b = B::default();
            let f = b.felt();
            let j = b.lf("jump", vec![]);
            b.p.statements.push(Statement::Invocation(Invocation {
                libfunc_id: j,
                args: vec![],
                branches: vec![BranchInfo { target: BranchTarget::Statement(StatementIdx(n - 1)), results: vec![] }],
            }));
            let c = b.lf("felt252_const", vec![v(1)]);
            let d = b.lf("drop", vec![t(&f)]);
            while b.p.statements.len() + 2 < n {
                let r = b.call(c.clone(), vec![], 1);
                b.call(d.clone(), r, 0);
            }
            while b.p.statements.len() + 1 < n {
                b.ret(vec![]);
            }
            b.ret(vec![]);
            b.func(vec![], vec![], 0);
            b.func(vec![], vec![], 1);
            Ok(b.p)
        }));
        out.push(tpl(format!("count{n}/params"), "count", move || {
            let mut b = B::default();
            let f = b.felt();
            let st = b.lf("store_temp", vec![t(&f)]);
            let xs: Vec<VarId> = (0..n).map(|_| b.var()).collect();
            let mut ys = vec![];
            for x in &xs {
                ys.push(b.call(st.clone(), vec![x.clone()], 1)[0].clone());
            }
            b.ret(ys);
            b.func(xs.into_iter().map(|x| (x, f.clone())).collect(), vec![f.clone(); n], 0);
            Ok(b.p)
        }));
        out.push(tpl(format!("count{n}/enum-variants"), "count", move || {
            let mut b = B::default();
            let unit = b.unit();
            let mut a = vec![ut("EV")];
            a.extend((0..n).map(|_| t(&unit)));
            let e = b.ty("Enum", a);
            let lf = b.lf("enum_match", vec![t(&e)]);
            synthesize(&mut b, &lf, None)?;
            // and an enum_init of the last variant
            let init = b.lf("enum_init", vec![t(&e), v(n as u64 - 1)]);
            synthesize(&mut b, &init, None)?;
            Ok(b.p)
        }));
        // (struct_deconstruct over n members is quadratic in the compiler: minutes at 2^16 - thorough only)
        if thorough || n <= 40000 {
        out.push(tpl(format!("count{n}/struct-members"), "count", move || {
            let mut b = B::default();
            let unit = b.unit();
            let f = b.felt();
            let mut a = vec![ut("SM")];
            a.extend((0..n - 1).map(|_| t(&unit)));
            a.push(t(&f));
            let s = b.ty("Struct", a);
            let lf = b.lf("struct_deconstruct", vec![t(&s)]);
            synthesize(&mut b, &lf, None)?;
            Ok(b.p)
        }));
        }
        out.push(tpl(format!("count{n}/functions"), "count", move || {
            let mut b = B::default();
            b.ret(vec![]);
            for _ in 0..n {
                b.func(vec![], vec![], 0);
            }
            Ok(b.p)
        }));
        out.push(tpl(format!("count{n}/type-decls"), "count", move || {
            let mut b = B::default();
            for k in 0..n {
                b.ty("BoundedInt", vec![v(0), v(k as u64)]);
            }
            Ok(b.p)
        }));
        out.push(tpl(format!("count{n}/libfunc-decls"), "count", move || {
            let mut b = B::default();
            for k in 0..n {
                b.lf("felt252_const", vec![v(k as u64)]);
            }
            b.ret(vec![]);
            b.func(vec![], vec![], 0);
            Ok(b.p)
        }));
    }
    out
}

// ------------------------------------------------------------------------------------------------
// the other entry points on a template program: serialisation -> class -> from_contract_class
// ------------------------------------------------------------------------------------------------
pub fn class_path(p: &Program) -> (String, Vec<Panic>) {
    let mut panics = vec![];
    let felts = match guarded("sierra_to_felt252s", || {
        sierra_to_felt252s(current_sierra_version_id(), current_compiler_version_id(), p)
    }) {
        Ok(Ok(x)) => x,
        Ok(Err(e)) => return (format!("not serialisable: {e}"), panics),
        Err(pa) => {
            panics.push(pa);
            return ("panic".into(), panics);
        }
    };
    let cc = ContractClass {
        sierra_program: felts,
        sierra_program_debug_info: None,
        contract_class_version: "0.1.0".into(),
        entry_points_by_type: Default::default(),
        abi: None,
    };
    let ex = match guarded("ContractClass::extract_sierra_program", || cc.extract_sierra_program(false)) {
        Ok(Ok(x)) => x,
        Ok(Err(e)) => return (format!("extract: {e}"), panics),
        Err(pa) => {
            panics.push(pa);
            return ("panic".into(), panics);
        }
    };
    let stage = match guarded("CasmContractClass::from_contract_class", move || {
        CasmContractClass::from_contract_class(cc, ex, false, usize::MAX)
    }) {
        Ok(Ok(c)) => match guarded("serde_json(CasmContractClass)", || serde_json::to_string(&c).map(|s| s.len())) {
            Ok(_) => "class:ok".to_string(),
            Err(pa) => {
                panics.push(pa);
                "panic".into()
            }
        },
        Ok(Err(e)) => {
            let d = format!("{e:?}");
            format!("class:err:{}", d.split(['(', ' ', '{']).next().unwrap_or(""))
        }
        Err(pa) => {
            panics.push(pa);
            "panic".into()
        }
    };
    (stage, panics)
}

pub fn plan(corpus_dir: &str, jobs_dir: &str, thorough: bool, seed: u64) -> Vec<Value> {
    let libs = harvest_libfuncs(corpus_dir);
    let path = format!("{jobs_dir}/tpl_libfuncs.json");
    let _ = std::fs::write(&path, serde_json::to_string(&libs).unwrap());
    let all = all_templates(thorough, &libs);
    let tier = if thorough { "thorough" } else { "quick" };
    // contiguous chunks; the count templates (seconds each) in chunks of 2, the rest in hundreds
    let mut jobs = vec![];
    let mut lo = 0;
    while lo < all.len() {
        let heavy = all[lo].class == "count" || all[lo].class == "move";
        let want = if heavy { 2 } else if thorough { 300 } else { 200 };
        let mut hi = lo;
        while hi < all.len() && hi - lo < want && (all[hi].class == "count" || all[hi].class == "move") == heavy {
            hi += 1;
        }
        jobs.push(json!({"kind": "tpl", "src": path, "tier": tier, "seed": seed, "lo": lo, "hi": hi, "heavy": heavy}));
        lo = hi;
    }
    // heavy chunks first
    jobs.sort_by_key(|j| !j["heavy"].as_bool().unwrap_or(false));
    jobs
}

pub fn run_tpl_job(job: &Value) {
    let thorough = job["tier"].as_str() == Some("thorough");
    let w = Window::of(job);
    let libs: Vec<(String, Vec<GenericArg>)> = std::fs::read_to_string(job["src"].as_str().unwrap_or(""))
        .ok()
        .and_then(|s| serde_json::from_str(&s).ok())
        .unwrap_or_default();
    let all = all_templates(thorough, &libs);
    let lo = job["lo"].as_u64().unwrap_or(0) as usize;
    let hi = (job["hi"].as_u64().unwrap_or(all.len() as u64) as usize).min(all.len());
    let mut seen = BTreeSet::new();
    for i in lo..hi {
        // item indices are relative to the chunk (the parent restarts a job at `start`)
        if !w.runs(i - lo) {
            continue;
        }
        let tp = &all[i];
        let name = format!("template~{}", tp.name);
        emit_begin(i - lo, &name);
        let t0 = Instant::now();
        let built = guarded("template-builder", || (tp.build)());
        let p = match built {
            Ok(Ok(p)) => p,
            Ok(Err(e)) => {
                // the libfunc does not specialise over this type (or its registry panicked: reported
                // by the run of the partial program below when it did)
                let short: String = e.chars().take(80).collect();
                let stage = if e.starts_with("panic") { "builder-registry-panic" } else { "not-applicable" };
                emit_end(&json!({"name": name, "kind": "tpl", "stage": stage, "stages": short, "mclass": format!("tpl:{}", tp.class)}));
                continue;
            }
            Err(_) => {
                emit_end(&json!({"name": name, "kind": "tpl", "stage": "harness-skip"}));
                continue;
            }
        };
        if let Some(path) = job.get("dump").and_then(|x| x.as_str()) {
            let _ = std::fs::write(path, serde_json::to_string(&program_witness(&p, &[Solver::Linear], false, p.statements.len())).unwrap());
            return;
        }
        let small = p.statements.len() <= 400;
        let mut e = run_program_item(&name, "tpl", &p, small, &mut seen, if thorough { 40.0 } else { 15.0 });
        // the same program through the published path
        if p.statements.len() <= 70000 && p.type_declarations.len() <= 70000 {
            let (stage, panics) = class_path(&p);
            e["class_stage"] = json!(stage);
            if !panics.is_empty() {
                let mut pj = panics_json(&panics);
                for (k, pa) in panics.iter().enumerate() {
                    if seen.insert(pa.loc.clone()) {
                        let mut wv = program_witness(&p, &[Solver::Linear], false, p.statements.len());
                        wv["entry"] = json!("program-class");
                        pj[k]["witness"] = wv;
                    }
                }
                if let Some(a) = e["panics"].as_array_mut() {
                    a.extend(pj);
                }
                e["stage"] = json!("panic");
            }
        }
        e["mclass"] = json!(format!("tpl:{}", tp.class));
        e["ms"] = json!(t0.elapsed().as_millis() as u64);
        // a template is non-trivial when the implementation had to do the boundary arithmetic: it
        // got past parsing into the registry (accepted or rejected by a typed error there or later)
        e["nontrivial"] = json!(true);
        emit_end(&e);
    }
}
