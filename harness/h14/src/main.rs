//! h14 -- exploration harness for C14 ("untrusted Sierra is handled totally").
//!
//! usage:
//!   h14 <corpus_dir with *.sierra> <out_dir> <quick|thorough>     parent: schedules jobs over watched workers
//!   h14 worker <job.json>                                        child: runs the items of one job
//!   h14 replay <finding.json>                                    re-runs the input of one finding, loudly
//!
//! Entry points exercised, each under catch_unwind, inside a child process with an address-space cap
//! (an allocation beyond it aborts the child) and a watchdog in the parent (no progress line within
//! the budget = hang, confirmed by a re-run with a three times larger budget):
//!   * ContractClass::extract_sierra_program, verif_exports::sierra_from_felt252s  (felt vectors)
//!   * ProgramRegistryInfo::new, calc_metadata (linear solver; equation solver with and without the
//!     comparison), calc_metadata_ap_change_only, compile, CairoProgram::assemble        (programs)
//!   * CasmContractClass::from_contract_class                                           (classes)
//! Output files in <out_dir>: summary.json, findings.json (one entry per panic site / hang / crash,
//! with a minimised witness), samples.txt.
mod classes;
mod felts;
mod items;
mod templates;

use std::collections::BTreeMap;
use std::io::{BufRead, BufReader, Write};
use std::process::{Command, Stdio};
use std::sync::atomic::{AtomicUsize, Ordering};
use std::sync::mpsc::{RecvTimeoutError, channel};
use std::sync::{Arc, Mutex};
use std::time::{Duration, Instant};

use serde_json::{Value, json};

pub const TEST_DATA: &str = "/repo/crates/cairo-lang-starknet/test_data";

fn set_limits() {
    // address-space cap: an unbounded allocation aborts this child instead of the machine
    let gb: u64 = std::env::var("H14_AS_GB").ok().and_then(|s| s.parse().ok()).unwrap_or(6);
    let lim = libc::rlimit { rlim_cur: gb << 30, rlim_max: gb << 30 };
    unsafe {
        libc::setrlimit(libc::RLIMIT_AS, &lim);
    }
}

fn worker_main(jobfile: &str) {
    set_limits();
    vcommon::quiet_panics();
    let job: Value = serde_json::from_str(&std::fs::read_to_string(jobfile).expect("job file")).expect("job json");
    // big stack: recursion depth proportional to the input is still a finding, but not at 8 MB of
    // unoptimised frames
    let h = std::thread::Builder::new()
        .stack_size(256 << 20)
        .spawn(move || items::run_job(&job))
        .expect("spawn");
    let _ = h.join();
    println!("D");
}

struct JobState {
    job: Value,
    /// first item still to run
    start: usize,
    confirm: bool,
}

#[derive(Default)]
struct Agg {
    items: usize,
    by_kind: BTreeMap<String, usize>,
    stages: BTreeMap<String, usize>,
    mut_classes: BTreeMap<String, usize>,
    panic_items: usize,
    distinct: std::collections::BTreeSet<u64>,
    nontrivial: std::collections::BTreeSet<u64>,
    /// fingerprint -> (count, best witness)
    findings: BTreeMap<String, (usize, Value)>,
    /// fingerprint -> entry points it was reached from
    reached_from: BTreeMap<String, std::collections::BTreeSet<String>>,
    samples: Vec<String>,
    hangs_unconfirmed: usize,
    consistency_failures: Vec<Value>,
    job_seconds: BTreeMap<String, f64>,
}

fn witness_size(v: &Value) -> u64 {
    v.get("size").and_then(|x| x.as_u64()).unwrap_or(u64::MAX)
}

impl Agg {
    fn add_finding(&mut self, fp: String, w: Value) {
        let e = self.findings.entry(fp).or_insert((0, Value::Null));
        e.0 += 1;
        if !w.is_null() && (e.1.is_null() || witness_size(&w) < witness_size(&e.1)) {
            e.1 = w;
        }
    }
    fn absorb(&mut self, e: &Value) {
        self.items += 1;
        let kind = e["kind"].as_str().unwrap_or("?").to_string();
        *self.by_kind.entry(kind.clone()).or_insert(0) += 1;
        if let Some(s) = e["stage"].as_str() {
            *self.stages.entry(format!("{kind}:{s}")).or_insert(0) += 1;
        }
        if let Some(s) = e["mclass"].as_str() {
            *self.mut_classes.entry(s.to_string()).or_insert(0) += 1;
        }
        if let Some(h) = e["hash"].as_u64() {
            self.distinct.insert(h);
            if e["nontrivial"].as_bool().unwrap_or(false) {
                self.nontrivial.insert(h);
            }
        }
        if let Some(ps) = e["panics"].as_array() {
            if !ps.is_empty() {
                self.panic_items += 1;
            }
            for p in ps {
                // one finding per panic site (file:line); the message class of the witness is kept
                let fp = format!("panic {}", p["loc"].as_str().unwrap_or(""));
                let mut w = p["witness"].clone();
                if !w.is_null() {
                    w["panic"] = json!({"at": p["at"], "loc": p["loc"], "msg": p["msg"], "class": p["class"]});
                    w["item"] = e["name"].clone();
                }
                let at = p["at"].as_str().unwrap_or("").to_string();
                self.add_finding(fp.clone(), w);
                let set = self.reached_from.entry(fp).or_default();
                if set.len() < 12 {
                    set.insert(at);
                }
            }
        }
        if let Some(c) = e.get("inconsistent") {
            if !c.is_null() && self.consistency_failures.len() < 20 {
                self.consistency_failures.push(e.clone());
            }
        }
        if self.samples.len() < 12 && self.items % 997 == 1 {
            self.samples.push(format!("{} -> {}", e["name"].as_str().unwrap_or(""), e["stage"].as_str().unwrap_or("")));
        }
    }
}

fn parent_main(corpus_dir: &str, out_dir: &str, tier: &str) {
    let t0 = Instant::now();
    std::fs::create_dir_all(out_dir).unwrap();
    let jobs_dir = format!("{out_dir}/jobs");
    std::fs::create_dir_all(&jobs_dir).unwrap();
    let seed = vcommon::Rng::from_env().0;
    let thorough = tier == "thorough";
    // Workers are spawned from a private copy of this executable: a concurrent `cargo build` (another
    // check, another engineer) replaces target/debug/h14 under a running parent otherwise.
    let worker_exe = {
        let dst = std::path::PathBuf::from(format!("{out_dir}/h14.worker"));
        let src = std::env::current_exe().unwrap();
        match std::fs::copy(&src, &dst) {
            Ok(_) => dst,
            Err(_) => src,
        }
    };
    let mut jobs = items::plan_jobs(corpus_dir, &jobs_dir, thorough, seed);
    // H14_ONLY=tpl,wit : run only these job kinds (debugging aid)
    if let Ok(only) = std::env::var("H14_ONLY") {
        jobs.retain(|j| only.split(',').any(|k| j["kind"].as_str() == Some(k)));
    }
    let n_jobs = jobs.len();
    let queue: Arc<Mutex<Vec<JobState>>> = Arc::new(Mutex::new(
        jobs.into_iter().rev().map(|job| JobState { job, start: 0, confirm: false }).collect(),
    ));
    let agg = Arc::new(Mutex::new(Agg::default()));
    let ncpu = std::thread::available_parallelism().map(|n| n.get()).unwrap_or(8);
    let nworkers: usize =
        std::env::var("H14_WORKERS").ok().and_then(|s| s.parse().ok()).unwrap_or(ncpu.clamp(2, 12));
    let base_timeout = Duration::from_secs(if thorough { 240 } else { 120 });
    let deadline: Option<Instant> = std::env::var("H14_DEADLINE_S")
        .ok()
        .and_then(|s| s.parse::<u64>().ok())
        .map(|s| t0 + Duration::from_secs(s));
    let counter = Arc::new(AtomicUsize::new(0));
    let skipped_jobs = Arc::new(AtomicUsize::new(0));
    std::thread::scope(|sc| {
        for _ in 0..nworkers {
            let queue = queue.clone();
            let agg = agg.clone();
            let counter = counter.clone();
            let skipped_jobs = skipped_jobs.clone();
            let jobs_dir = jobs_dir.clone();
            let worker_exe = worker_exe.clone();
            sc.spawn(move || {
                loop {
                    let Some(mut js) = queue.lock().unwrap().pop() else { break };
                    if let Some(d) = deadline {
                        if Instant::now() > d && !js.confirm {
                            skipped_jobs.fetch_add(1, Ordering::SeqCst);
                            continue;
                        }
                    }
                    let id = counter.fetch_add(1, Ordering::SeqCst);
                    js.job["start"] = json!(js.start);
                    let jf = format!("{jobs_dir}/job_{id}.json");
                    std::fs::write(&jf, serde_json::to_string(&js.job).unwrap()).unwrap();
                    let tj = Instant::now();
                    let exe = worker_exe.clone();
                    let mut child = Command::new(exe)
                        .arg("worker")
                        .arg(&jf)
                        .env("RUST_BACKTRACE", "1")
                        .stdin(Stdio::null())
                        .stdout(Stdio::piped())
                        .stderr(std::fs::File::create(format!("{jobs_dir}/job_{id}.err")).map(Stdio::from).unwrap_or_else(|_| Stdio::null()))
                        .spawn()
                        .expect("spawn worker");
                    let stdout = child.stdout.take().unwrap();
                    let (tx, rx) = channel::<String>();
                    let rd = std::thread::spawn(move || {
                        for line in BufReader::new(stdout).lines() {
                            match line {
                                Ok(l) => {
                                    if tx.send(l).is_err() {
                                        break;
                                    }
                                }
                                Err(_) => break,
                            }
                        }
                    });
                    let timeout = if js.confirm { base_timeout * 3 } else { base_timeout };
                    let mut inflight: Option<(usize, String)> = None;
                    let mut done = false;
                    let mut hang = false;
                    loop {
                        match rx.recv_timeout(timeout) {
                            Ok(l) => {
                                if let Some(r) = l.strip_prefix("B ") {
                                    let mut it = r.splitn(2, '\t');
                                    let i: usize = it.next().unwrap_or("0").parse().unwrap_or(0);
                                    inflight = Some((i, it.next().unwrap_or("").to_string()));
                                } else if let Some(r) = l.strip_prefix("E ") {
                                    if let Ok(v) = serde_json::from_str::<Value>(r) {
                                        agg.lock().unwrap().absorb(&v);
                                    }
                                    if js.confirm {
                                        // the item under confirmation answered: not a hang
                                        inflight = None;
                                    }
                                } else if l == "D" {
                                    done = true;
                                    break;
                                }
                            }
                            Err(RecvTimeoutError::Timeout) => {
                                hang = true;
                                break;
                            }
                            Err(RecvTimeoutError::Disconnected) => break,
                        }
                    }
                    let _ = child.kill();
                    let status = child.wait().map(|s| format!("{s}")).unwrap_or_default();
                    let _ = rd.join();
                    {
                        let mut a = agg.lock().unwrap();
                        let k = js.job["kind"].as_str().unwrap_or("?").to_string();
                        *a.job_seconds.entry(k).or_insert(0.0) += tj.elapsed().as_secs_f64();
                    }
                    if done {
                        continue;
                    }
                    let (i, name) = inflight.clone().unwrap_or((js.start, String::from("(before first item)")));
                    let mut job_for_replay = js.job.clone();
                    job_for_replay["start"] = json!(i);
                    job_for_replay["only"] = json!(1);
                    if hang {
                        if !js.confirm {
                            // the machine is shared: confirm alone with three times the budget
                            agg.lock().unwrap().hangs_unconfirmed += 1;
                            let mut q = queue.lock().unwrap();
                            q.push(JobState { job: js.job.clone(), start: i + 1, confirm: false });
                            q.push(JobState { job: job_for_replay, start: i, confirm: true });
                        } else {
                            agg.lock().unwrap().add_finding(
                                format!("hang {}", js.job["kind"].as_str().unwrap_or("")),
                                json!({"size": 0, "item": name, "job": job_for_replay,
                                       "what": format!("no answer within {} s (confirmed alone)", timeout.as_secs())}),
                            );
                        }
                    } else {
                        // the child died (abort / stack overflow / allocation cap) on the item in flight
                        let err = std::fs::read_to_string(format!("{jobs_dir}/job_{id}.err")).unwrap_or_default();
                        let first = err.lines().find(|l| !l.trim().is_empty()).unwrap_or("").to_string();
                        let cause = if first.contains("memory allocation of") {
                            "allocation beyond the address-space cap".to_string()
                        } else if first.contains("overflowed its stack") || err.contains("stack overflow") {
                            "stack overflow".to_string()
                        } else {
                            first.chars().take(120).collect()
                        };
                        // the input itself: ask a fresh worker to write it out without running it
                        let dump = format!("{jobs_dir}/job_{id}.input.json");
                        let mut dj = job_for_replay.clone();
                        dj["dump"] = json!(dump);
                        let djf = format!("{jobs_dir}/job_{id}.dump.json");
                        let _ = std::fs::write(&djf, serde_json::to_string(&dj).unwrap());
                        let _ = Command::new(worker_exe.clone())
                            .arg("worker").arg(&djf).stdout(Stdio::null()).stderr(Stdio::null()).status();
                        let input: Value = std::fs::read_to_string(&dump)
                            .ok().and_then(|t| serde_json::from_str(&t).ok()).unwrap_or(Value::Null);
                        // first frame inside /repo of the abort's backtrace identifies the site
                        let site = err
                            .lines()
                            .filter_map(|l| l.trim().strip_prefix("at /repo/"))
                            .next()
                            .map(|l| l.rsplitn(2, ':').last().unwrap_or(l).to_string())
                            .unwrap_or_default();
                        agg.lock().unwrap().add_finding(
                            format!("crash {} [{}] {}", status, cause, site),
                            json!({"size": 0, "item": name, "job": job_for_replay, "input": input,
                                   "what": format!("worker process died: {status}: {}", first.chars().take(300).collect::<String>())}),
                        );
                        if !js.confirm && js.job.get("only").is_none() {
                            queue.lock().unwrap().push(JobState { job: js.job.clone(), start: i + 1, confirm: false });
                        }
                    }
                }
            });
        }
    });
    let a = agg.lock().unwrap();
    // findings.json
    let mut findings = vec![];
    for (k, (fp, (count, w))) in a.findings.iter().enumerate() {
        let path = format!("{out_dir}/finding_{k}.json");
        let mut f = w.clone();
        if f.is_null() {
            f = json!({});
        }
        f["fingerprint"] = json!(fp);
        f["count"] = json!(count);
        if let Some(r) = a.reached_from.get(fp) {
            f["reached_from"] = json!(r);
        }
        std::fs::write(&path, serde_json::to_string_pretty(&f).unwrap()).unwrap();
        let mut short = f.clone();
        if let Some(o) = short.as_object_mut() {
            // keep the listing small: the full witness is in the per-finding file
            if o.get("program_json").map(|x| x.to_string().len() > 4000).unwrap_or(false) {
                o.remove("program_json");
            }
            if o.get("felts").map(|x| x.to_string().len() > 4000).unwrap_or(false) {
                o.remove("felts");
            }
        }
        short["file"] = json!(path);
        findings.push(short);
    }
    std::fs::write(format!("{out_dir}/findings.json"), serde_json::to_string_pretty(&findings).unwrap()).unwrap();
    let summary = json!({
        "jobs": n_jobs,
        "jobs_skipped_by_deadline": skipped_jobs.load(Ordering::SeqCst),
        "workers": nworkers,
        "items": a.items,
        "items_by_kind": a.by_kind,
        "stages": a.stages,
        "mutation_classes": a.mut_classes,
        "items_with_panic": a.panic_items,
        "boundary_templates": a.by_kind.get("tpl").copied().unwrap_or(0),
        "boundary_templates_applicable": a.by_kind.get("tpl").copied().unwrap_or(0)
            - a.stages.get("tpl:not-applicable").copied().unwrap_or(0),
        "boundary_template_sites": templates::SITES,
        "distinct_inputs": a.distinct.len(),
        "distinct_nontrivial": a.nontrivial.len(),
        "finding_sites": a.findings.len(),
        "unconfirmed_slow_items": a.hangs_unconfirmed,
        "consistency_failures": a.consistency_failures.len(),
        "job_cpu_seconds_by_kind": a.job_seconds,
        "seconds": t0.elapsed().as_secs_f64(),
    });
    std::fs::write(format!("{out_dir}/summary.json"), serde_json::to_string_pretty(&summary).unwrap()).unwrap();
    std::fs::write(
        format!("{out_dir}/consistency_failures.json"),
        serde_json::to_string_pretty(&a.consistency_failures).unwrap(),
    )
    .unwrap();
    std::fs::write(format!("{out_dir}/samples.txt"), a.samples.join("\n")).unwrap();
    println!("{}", serde_json::to_string(&summary).unwrap());
}

fn main() {
    let args: Vec<String> = std::env::args().collect();
    match args.get(1).map(|s| s.as_str()) {
        Some("worker") => worker_main(&args[2]),
        Some("replay") => {
            set_limits();
            unsafe { std::env::set_var("VERIF_LOUD", "1") };
            // H14_BACKTRACE=1 RUST_BACKTRACE=1: keep the default panic hook (full backtrace; the
            // printed `file:line` of the PANIC lines is then empty)
            if std::env::var("H14_BACKTRACE").is_err() {
                vcommon::quiet_panics();
            }
            let f: Value = serde_json::from_str(&std::fs::read_to_string(&args[2]).expect("file")).expect("json");
            let code = std::thread::Builder::new()
                .stack_size(256 << 20)
                .spawn(move || items::replay(&f))
                .unwrap()
                .join()
                .unwrap_or(3);
            std::io::stdout().flush().ok();
            std::process::exit(code);
        }
        Some(_) if args.len() >= 4 => parent_main(&args[1], &args[2], &args[3]),
        _ => {
            eprintln!("usage: h14 <corpus_dir> <out_dir> <quick|thorough> | h14 worker <job.json> | h14 replay <finding.json>");
            std::process::exit(2);
        }
    }
}
