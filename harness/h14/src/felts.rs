//! Felt-vector level of C14: arbitrary vectors and mutants of valid serialisations through
//! ContractClass::extract_sierra_program and verif_exports::sierra_from_felt252s.
use std::time::Instant;

use cairo_lang_sierra::ProgramParser;
use cairo_lang_starknet_classes::compiler_version::{current_compiler_version_id, current_sierra_version_id};
use cairo_lang_starknet_classes::contract_class::ContractClass;
use cairo_lang_starknet_classes::verif_exports::{compress, decompress, sierra_from_felt252s, sierra_to_felt252s};
use cairo_lang_utils::bigint::BigUintAsHex;
use h14lib::mutate;
use h14lib::pipe::{Panic, Solver, guarded, run_pipeline};
use num_bigint::BigUint;
use num_traits::{One, Zero};
use serde_json::{Value, json};
use vcommon::Rng;

use crate::items::{Window, emit_begin, emit_end, fnv, hash_of, panics_json};

fn prime() -> BigUint {
    vcommon::stark_prime().to_biguint().unwrap()
}

fn hexes(v: &[BigUint]) -> Vec<String> {
    v.iter().map(|x| format!("0x{:x}", x)).collect()
}

fn wrap(v: &[BigUint]) -> Vec<BigUintAsHex> {
    v.iter().map(|x| BigUintAsHex { value: x.clone() }).collect()
}

pub struct FeltResult {
    pub class_ok: bool,
    pub codec_ok: bool,
    pub panics: Vec<Panic>,
    pub inconsistent: Option<String>,
    pub deep_stage: Option<String>,
    pub statements: usize,
}

/// The two entry points on one vector, plus (when it deserialises to a small program) the rest of
/// the pipeline on the program an untrusted sender would have made us build.
pub fn run_felts(v: &[BigUint], deep_limit: usize) -> FeltResult {
    let mut panics = vec![];
    let felts = wrap(v);
    let cc = ContractClass {
        sierra_program: felts.clone(),
        sierra_program_debug_info: None,
        contract_class_version: "0.1.0".into(),
        entry_points_by_type: Default::default(),
        abi: None,
    };
    let a = match guarded("ContractClass::extract_sierra_program", || cc.extract_sierra_program(false)) {
        Ok(r) => r.ok(),
        Err(p) => {
            panics.push(p);
            None
        }
    };
    let b = match guarded("sierra_from_felt252s", || sierra_from_felt252s(&felts)) {
        Ok(r) => r.ok(),
        Err(p) => {
            panics.push(p);
            None
        }
    };
    let p = prime();
    let all_felts = v.iter().all(|x| *x < p);
    let mut inconsistent = None;
    if panics.is_empty() {
        if all_felts && a.is_some() != b.is_some() {
            inconsistent = Some(format!(
                "all values are field elements but extract_sierra_program is {} and sierra_from_felt252s is {}",
                if a.is_some() { "Ok" } else { "Err" },
                if b.is_some() { "Ok" } else { "Err" }
            ));
        }
        if !all_felts && a.is_some() {
            inconsistent = Some("extract_sierra_program accepted a value >= P".into());
        }
        if let (Some(x), Some(y)) = (&a, &b) {
            if x.program != y.2 || x.sierra_version != y.0 || x.compiler_version != y.1 {
                inconsistent = Some("the two entry points return different programs/versions".into());
            }
        }
    }
    let mut deep_stage = None;
    let mut statements = 0;
    if let Some((_, _, prog)) = &b {
        statements = prog.statements.len();
        if statements <= deep_limit {
            let o = run_pipeline(prog, &[Solver::Linear], true);
            deep_stage = Some(o.summary());
            // the program came out of the deserialiser: say so in the entry point name
            panics.extend(o.panics.into_iter().map(|mut p| {
                p.at = format!("extract_sierra_program -> {}", p.at);
                p
            }));
        }
    }
    FeltResult { class_ok: a.is_some(), codec_ok: b.is_some(), panics, inconsistent, deep_stage, statements }
}

fn boundary_values(old: &BigUint, len: usize) -> Vec<BigUint> {
    let one = BigUint::one();
    let p = prime();
    let mut v = vec![
        old + &one,
        if old.is_zero() { BigUint::from(7u32) } else { old - &one },
        BigUint::zero(),
        BigUint::from(1u64 << 32),
        BigUint::from(1u64 << 63),
        BigUint::from(u64::MAX),
        BigUint::from(u64::MAX) + &one,
        BigUint::one() << 128,
        (BigUint::one() << 128) - &one,
        BigUint::one() << 251,
        &p - &one,
        p.clone(),
        BigUint::from(len as u64),
        BigUint::from(len as u64 + 1),
    ];
    v.retain(|x| x != old);
    v.dedup();
    v
}

enum FeltMut {
    Base,
    PackedSet(usize, BigUint),
    PackedTrunc(usize),
    RawSet(usize, BigUint),
    RawTrunc(usize),
    RawDelete(usize),
    RawInsert(usize, BigUint),
}

fn positions(len: usize, all_below: usize, sample: usize, rng: &mut Rng) -> Vec<usize> {
    if len <= all_below {
        return (0..len).collect();
    }
    let mut v: Vec<usize> = (0..len.min(16)).collect();
    for _ in 0..sample {
        v.push(rng.below(len as u64) as usize);
    }
    v.extend(len.saturating_sub(3)..len);
    v.sort();
    v.dedup();
    v
}

pub fn run_fel_job(job: &Value) {
    let src = job["src"].as_str().unwrap_or("");
    let thorough = job["tier"].as_str() == Some("thorough");
    let seed = job["seed"].as_u64().unwrap_or(1);
    let w = Window::of(job);
    let base = std::path::Path::new(src).file_name().map(|s| s.to_string_lossy().to_string()).unwrap_or_default();
    let mut rng = Rng(seed ^ fnv(&base) ^ 0xfe17);
    // ---- the valid serialisation ----
    let valid: Vec<BigUint> = if src.ends_with(".json") {
        let Ok(text) = std::fs::read_to_string(src) else { return };
        let Ok(cc) = serde_json::from_str::<ContractClass>(&text) else { return };
        cc.sierra_program.iter().map(|x| x.value.clone()).collect()
    } else {
        let Ok(text) = std::fs::read_to_string(src) else { return };
        let Ok(program) = ProgramParser::new().parse(&text) else { return };
        let q = mutate::renumber(&program);
        match guarded("sierra_to_felt252s", || {
            sierra_to_felt252s(current_sierra_version_id(), current_compiler_version_id(), &q)
        }) {
            Ok(Ok(v)) => v.into_iter().map(|x| x.value).collect(),
            Ok(Err(_)) => return, // not in the codec's domain (long generic ids): nothing to mutate
            Err(p) => {
                emit_begin(0, &format!("{base}~serialize"));
                emit_end(&json!({"name": format!("{base}~serialize"), "kind": "fel", "stage": "panic",
                                 "panics": panics_json(&[p])}));
                return;
            }
        }
    };
    if valid.len() < 6 {
        return;
    }
    let packed = wrap(&valid[6..]);
    let raw: Option<Vec<BigUint>> = decompress(&packed).map(|v| v.into_iter().cloned().collect());
    // ---- the item list ----
    let mut muts: Vec<FeltMut> = vec![FeltMut::Base];
    let (pk_all, pk_sample, raw_all, raw_sample) =
        if thorough { (600, 200, 1500, 600) } else { (120, 24, 90, 40) };
    for i in positions(valid.len(), pk_all.min(60), pk_sample, &mut rng) {
        for v in boundary_values(&valid[i], valid.len()) {
            muts.push(FeltMut::PackedSet(i, v));
        }
    }
    for i in positions(valid.len(), pk_all, pk_sample, &mut rng) {
        muts.push(FeltMut::PackedTrunc(i));
    }
    if let Some(r) = &raw {
        for i in positions(r.len(), raw_all, raw_sample, &mut rng) {
            for v in boundary_values(&r[i], r.len()) {
                muts.push(FeltMut::RawSet(i, v));
            }
            muts.push(FeltMut::RawTrunc(i));
            muts.push(FeltMut::RawDelete(i));
            muts.push(FeltMut::RawInsert(i, BigUint::from(rng.below(5))));
        }
    }
    let deep_limit = if thorough { 600 } else { 200 };
    let rewrap = |r: &[BigUint]| -> Vec<BigUint> {
        let mut out = wrap(&valid[..6]);
        compress(&wrap(r), &mut out);
        out.into_iter().map(|x| x.value).collect()
    };
    let mut seen = std::collections::BTreeSet::new();
    for (i, m) in muts.iter().enumerate() {
        if !w.runs(i) {
            continue;
        }
        let (mname, v): (String, Vec<BigUint>) = match m {
            FeltMut::Base => ("valid".into(), valid.clone()),
            FeltMut::PackedSet(k, x) => {
                let mut v = valid.clone();
                v[*k] = x.clone();
                (format!("packed[{k}]=0x{:x}", x), v)
            }
            FeltMut::PackedTrunc(k) => (format!("packed[..{k}]"), valid[..*k].to_vec()),
            FeltMut::RawSet(k, x) => {
                let mut r = raw.clone().unwrap();
                r[*k] = x.clone();
                (format!("raw[{k}]=0x{:x}", x), rewrap(&r))
            }
            FeltMut::RawTrunc(k) => (format!("raw[..{k}]"), rewrap(&raw.as_ref().unwrap()[..*k])),
            FeltMut::RawDelete(k) => {
                let mut r = raw.clone().unwrap();
                r.remove(*k);
                (format!("raw-del[{k}]"), rewrap(&r))
            }
            FeltMut::RawInsert(k, x) => {
                let mut r = raw.clone().unwrap();
                r.insert(*k, x.clone());
                (format!("raw-ins[{k}]=0x{:x}", x), rewrap(&r))
            }
        };
        let name = format!("{base}~{mname}");
        emit_begin(i, &name);
        let t = Instant::now();
        let r = run_felts(&v, deep_limit);
        emit_end(&felt_result_json(&name, "fel", &v, &r, &mut seen, t, &mname));
    }
}

fn felt_result_json(
    name: &str,
    kind: &str,
    v: &[BigUint],
    r: &FeltResult,
    seen: &mut std::collections::BTreeSet<String>,
    t: Instant,
    mname: &str,
) -> Value {
    let mut pj = panics_json(&r.panics);
    for (k, p) in r.panics.iter().enumerate() {
        if seen.insert(p.loc.clone()) {
            pj[k]["witness"] = json!({"entry": "felts", "size": v.len(), "felts": hexes(v)});
        }
    }
    let stage = if !r.panics.is_empty() {
        "panic"
    } else if r.codec_ok {
        "deserialised"
    } else {
        "rejected"
    };
    let mut e = json!({
        "name": name, "kind": kind, "stage": stage, "panics": pj, "ms": t.elapsed().as_millis() as u64,
        "hash": hash_of(&v), "nontrivial": r.codec_ok,
        "mclass": format!("felt:{}", mname.split(['[', '=']).next().unwrap_or("")),
    });
    if let Some(d) = &r.deep_stage {
        e["stages"] = json!(d);
    }
    if let Some(s) = &r.inconsistent {
        e["inconsistent"] = json!(s);
        e["felts"] = json!(hexes(v));
    }
    let _ = r.class_ok;
    let _ = r.statements;
    e
}

fn random_value(rng: &mut Rng) -> BigUint {
    let p = prime();
    match rng.below(12) {
        0..=4 => BigUint::from(rng.below(8)),
        5 => BigUint::from(rng.below(300)),
        6 => BigUint::from(rng.next()),
        7 => BigUint::from(u64::MAX) + BigUint::from(rng.below(3)),
        8 => (BigUint::one() << 128) + BigUint::from(rng.below(3)) - BigUint::one(),
        9 => &p - BigUint::from(1 + rng.below(2)),
        10 => &p + BigUint::from(rng.below(2)),
        _ => rng.bits(252).to_biguint().unwrap(),
    }
}

pub fn run_rnd_job(job: &Value) {
    let src = job["src"].as_str().unwrap_or("");
    let thorough = job["tier"].as_str() == Some("thorough");
    let seed = job["seed"].as_u64().unwrap_or(1);
    let w = Window::of(job);
    let mut rng = Rng(seed ^ fnv(src));
    let n = if thorough { 20000 } else { 4000 };
    let mut seen = std::collections::BTreeSet::new();
    let sv = current_sierra_version_id();
    let header: Vec<BigUint> =
        [sv.major, sv.minor, sv.patch, 2, 12, 0].iter().map(|x| BigUint::from(*x as u64)).collect();
    for i in 0..n {
        // every item consumes the same amount of randomness whether it runs or not
        let shape = rng.below(3);
        let len = rng.below(40) as usize;
        let body: Vec<BigUint> = (0..len).map(|_| random_value(&mut rng)).collect();
        if !w.runs(i) {
            continue;
        }
        let (mname, v) = match shape {
            0 => ("random", body),
            1 => {
                let mut v = header.clone();
                v.extend(body);
                ("versions+random", v)
            }
            _ => {
                // a well-formed compression of random small numbers: the deserialiser proper sees them
                let mut out = wrap(&header);
                match guarded("compress", || {
                    let mut o = vec![];
                    compress(&wrap(&body), &mut o);
                    o
                }) {
                    Ok(o) => out.extend(o),
                    Err(_) => {}
                }
                ("versions+compressed(random)", out.into_iter().map(|x| x.value).collect())
            }
        };
        let name = format!("{src}/{i}~{mname}");
        emit_begin(i, &name);
        let t = Instant::now();
        let r = run_felts(&v, 200);
        emit_end(&felt_result_json(&name, "rnd", &v, &r, &mut seen, t, mname));
    }
}

pub fn run_witness(f: &Value) -> Option<(String, Vec<Panic>)> {
    let a = f["felts"].as_array()?;
    let v: Vec<BigUint> = a
        .iter()
        .filter_map(|x| x.as_str())
        .filter_map(|s| BigUint::parse_bytes(s.trim_start_matches("0x").as_bytes(), 16))
        .collect();
    let r = run_felts(&v, 5000);
    let d = format!(
        "extract_sierra_program: {}, sierra_from_felt252s: {}, pipeline: {:?}, inconsistency: {:?}",
        if r.class_ok { "Ok" } else { "Err" },
        if r.codec_ok { "Ok" } else { "Err" },
        r.deep_stage,
        r.inconsistent
    );
    Some((d, r.panics))
}
