//! Class level of C14: CasmContractClass::from_contract_class on the repo's contract classes with
//! edited Sierra versions, entry-point tables, bytecode limits and mutated programs.
use std::time::Instant;

use cairo_lang_sierra::program::Program;
use cairo_lang_starknet_classes::casm_contract_class::CasmContractClass;
use cairo_lang_starknet_classes::compiler_version::VersionId;
use cairo_lang_starknet_classes::contract_class::{ContractClass, ContractEntryPoint, ExtractedSierraProgram};
use h14lib::mutate::{self, Mu};
use h14lib::pipe::{Panic, guarded};
use num_bigint::BigUint;
use serde::{Deserialize, Serialize};
use serde_json::{Value, json};
use vcommon::Rng;

use crate::items::{Window, emit_begin, emit_end, fnv, hash_of, panics_json};

#[derive(Clone, Debug, Serialize, Deserialize)]
pub enum CV {
    Version(usize, usize, usize),
    /// (table 0=external 1=l1_handler 2=constructor, entry, new function index)
    EpIdx(u8, usize, usize),
    EpDup(u8, usize),
    EpRemove(u8, usize),
    EpSwap(u8, usize),
    EpMove(u8, u8, usize),
    EpSelector(u8, usize, String),
    /// a table with a single external entry pointing at function j
    EpOnly(usize),
    /// every entry of every table points at function j
    EpAll(usize),
    MaxBytecode(usize),
    Pythonic(bool),
    Prog(Mu),
}

struct Input {
    cc: ContractClass,
    program: Program,
    sv: VersionId,
    max: usize,
    pythonic: bool,
}

fn table(cc: &mut ContractClass, t: u8) -> &mut Vec<ContractEntryPoint> {
    match t % 3 {
        0 => &mut cc.entry_points_by_type.external,
        1 => &mut cc.entry_points_by_type.l1_handler,
        _ => &mut cc.entry_points_by_type.constructor,
    }
}

fn apply(inp: &mut Input, v: &CV) -> bool {
    match v.clone() {
        CV::Version(a, b, c) => inp.sv = VersionId { major: a, minor: b, patch: c },
        CV::EpIdx(t, k, j) => match table(&mut inp.cc, t).get_mut(k) {
            Some(e) => e.function_idx = j,
            None => return false,
        },
        CV::EpDup(t, k) => {
            let tb = table(&mut inp.cc, t);
            match tb.get(k).cloned() {
                Some(e) => tb.insert(k, e),
                None => return false,
            }
        }
        CV::EpRemove(t, k) => {
            let tb = table(&mut inp.cc, t);
            if k >= tb.len() {
                return false;
            }
            tb.remove(k);
        }
        CV::EpSwap(t, k) => {
            let tb = table(&mut inp.cc, t);
            if k + 1 >= tb.len() {
                return false;
            }
            tb.swap(k, k + 1);
        }
        CV::EpMove(t, u, k) => {
            let tb = table(&mut inp.cc, t);
            if k >= tb.len() {
                return false;
            }
            let e = tb.remove(k);
            table(&mut inp.cc, u).push(e);
        }
        CV::EpSelector(t, k, s) => match table(&mut inp.cc, t).get_mut(k) {
            Some(e) => e.selector = BigUint::parse_bytes(s.as_bytes(), 16).unwrap_or_default(),
            None => return false,
        },
        CV::EpOnly(j) => {
            inp.cc.entry_points_by_type.external =
                vec![ContractEntryPoint { selector: BigUint::from(1u32), function_idx: j }];
            inp.cc.entry_points_by_type.l1_handler.clear();
            inp.cc.entry_points_by_type.constructor.clear();
        }
        CV::EpAll(j) => {
            for t in 0..3 {
                for e in table(&mut inp.cc, t).iter_mut() {
                    e.function_idx = j;
                }
            }
        }
        CV::MaxBytecode(m) => inp.max = m,
        CV::Pythonic(b) => inp.pythonic = b,
        CV::Prog(m) => match vcommon::catch(std::panic::AssertUnwindSafe(|| mutate::apply(&inp.program, &m))) {
            Ok(q) => inp.program = q,
            Err(_) => return false,
        },
    }
    true
}

fn load(src: &str) -> Option<Input> {
    let text = std::fs::read_to_string(src).ok()?;
    let cc: ContractClass = serde_json::from_str(&text).ok()?;
    let ex = cc.extract_sierra_program(false).ok()?;
    Some(Input { cc, program: ex.program, sv: ex.sierra_version, max: usize::MAX, pythonic: false })
}

fn run_one(inp: Input) -> (String, Vec<Panic>) {
    let Input { cc, program, sv, max, pythonic } = inp;
    let ex = ExtractedSierraProgram {
        program,
        sierra_version: sv,
        compiler_version: VersionId { major: 2, minor: 0, patch: 0 },
    };
    let mut panics = vec![];
    let stage = match guarded("CasmContractClass::from_contract_class", move || {
        CasmContractClass::from_contract_class(cc, ex, pythonic, max)
    }) {
        Ok(Ok(c)) => {
            if let Err(p) = guarded("serde_json(CasmContractClass)", || serde_json::to_string(&c).map(|s| s.len())) {
                panics.push(p);
            }
            "ok".to_string()
        }
        Ok(Err(e)) => {
            let d = format!("{e:?}");
            format!("err:{}", d.split(['(', ' ', '{']).next().unwrap_or(""))
        }
        Err(p) => {
            panics.push(p);
            "panic".to_string()
        }
    };
    (stage, panics)
}

pub fn run_cls_job(job: &Value) {
    let src = job["src"].as_str().unwrap_or("");
    let thorough = job["tier"].as_str() == Some("thorough");
    let seed = job["seed"].as_u64().unwrap_or(1);
    let w = Window::of(job);
    let Some(base) = load(src) else { return };
    let name0 = std::path::Path::new(src)
        .file_name()
        .map(|s| s.to_string_lossy().replace(".contract_class.json", ""))
        .unwrap_or_default();
    let mut rng = Rng(seed ^ fnv(&name0) ^ 0xc1a55);
    let n = base.program.statements.len();
    let nf = base.program.funcs.len();
    // the equation solver (Sierra < 1.4) is slow on big programs: keep it to the smaller classes
    let old_ok = n <= if thorough { 6000 } else { 1200 };
    let mut vars: Vec<Vec<CV>> = vec![vec![], vec![CV::Pythonic(true)]];
    let versions: Vec<(usize, usize, usize)> = if thorough {
        vec![(1, 0, 0), (1, 1, 0), (1, 3, 0), (1, 4, 0), (1, 5, 0), (1, 6, 0), (1, 7, 0), (1, 10, 0), (1, 99, 0), (0, 9, 0), (2, 0, 0)]
    } else {
        vec![(1, 1, 0), (1, 4, 0), (1, 99, 0), (2, 0, 0)]
    };
    for v in &versions {
        if v.0 == 1 && v.1 < 4 && !old_ok {
            continue;
        }
        vars.push(vec![CV::Version(v.0, v.1, v.2)]);
    }
    let lens = [
        base.cc.entry_points_by_type.external.len(),
        base.cc.entry_points_by_type.l1_handler.len(),
        base.cc.entry_points_by_type.constructor.len(),
    ];
    let cap = if thorough { 6 } else { 2 };
    let mut ep_edits: Vec<CV> = vec![];
    for t in 0..3u8 {
        for k in 0..lens[t as usize].min(cap) {
            for j in [0usize, nf.saturating_sub(1), nf, usize::MAX, rng.below(nf.max(1) as u64) as usize, rng.below(nf.max(1) as u64) as usize] {
                ep_edits.push(CV::EpIdx(t, k, j));
            }
            ep_edits.push(CV::EpDup(t, k));
            ep_edits.push(CV::EpRemove(t, k));
            ep_edits.push(CV::EpSwap(t, k));
            ep_edits.push(CV::EpMove(t, (t + 1) % 3, k));
            ep_edits.push(CV::EpMove(t, (t + 2) % 3, k));
            ep_edits.push(CV::EpSelector(t, k, "0".into()));
            ep_edits.push(CV::EpSelector(t, k, "800000000000011000000000000000000000000000000000000000000000001".into()));
        }
    }
    for j in [0usize, nf / 2, nf.saturating_sub(1)] {
        ep_edits.push(CV::EpAll(j));
    }
    let only: Vec<usize> = if thorough {
        (0..nf).collect()
    } else {
        (0..6).map(|_| rng.below(nf.max(1) as u64) as usize).collect()
    };
    for j in only {
        ep_edits.push(CV::EpOnly(j));
    }
    for e in &ep_edits {
        vars.push(vec![e.clone()]);
        // the same edit on a class that declares an old Sierra version (equation solver path)
        if old_ok && (thorough || rng.below(3) == 0) {
            vars.push(vec![CV::Version(1, 1, 0), e.clone()]);
        }
    }
    vars.push(vec![CV::MaxBytecode(0)]);
    vars.push(vec![CV::MaxBytecode(100)]);
    // program mutants inside the class
    let budget = if thorough { if n <= 3000 { 120 } else { 30 } } else if n <= 1500 { 6 } else { 2 };
    let mut ms = mutate::enumerate(&base.program, &mut rng, 0..n, true);
    for _ in 0..budget {
        if ms.is_empty() {
            break;
        }
        let k = rng.below(ms.len() as u64) as usize;
        let m = ms.swap_remove(k);
        if old_ok && rng.below(4) == 0 {
            vars.push(vec![CV::Version(1, 1, 0), CV::Prog(m)]);
        } else {
            vars.push(vec![CV::Prog(m)]);
        }
    }
    drop(ms);
    let mut seen = std::collections::BTreeSet::new();
    for (i, var) in vars.iter().enumerate() {
        if !w.runs(i) {
            continue;
        }
        let vname = if var.is_empty() { "base".to_string() } else { var.iter().map(|v| format!("{:?}", v)).collect::<Vec<_>>().join("+") };
        let vname: String = vname.chars().take(140).collect();
        let name = format!("{name0}~{vname}");
        emit_begin(i, &name);
        let t = Instant::now();
        let Some(mut inp) = load(src) else { continue };
        let mut ok = true;
        for v in var {
            ok &= apply(&mut inp, v);
        }
        if !ok {
            emit_end(&json!({"name": name, "kind": "cls", "stage": "harness-skip"}));
            continue;
        }
        let h = hash_of(&(&inp.cc.entry_points_by_type, &inp.sv, inp.max, &var));
        let (stage, panics) = run_one(inp);
        let mut pj = panics_json(&panics);
        for (k, p) in panics.iter().enumerate() {
            if seen.insert(p.loc.clone()) {
                pj[k]["witness"] = json!({"entry": "class", "class": src, "variation": var, "size": n, "statements": n});
            }
        }
        let mclass = match var.last() {
            None => "cls:base".to_string(),
            Some(v) => format!("cls:{}", format!("{:?}", v).split('(').next().unwrap_or("")),
        };
        emit_end(&json!({
            "name": name, "kind": "cls", "stage": stage, "panics": pj, "ms": t.elapsed().as_millis() as u64,
            "hash": h, "nontrivial": stage == "ok" || stage.starts_with("err:CompilationError") || stage == "panic",
            "mclass": mclass,
        }));
    }
}

pub fn run_witness(f: &Value) -> Option<(String, Vec<Panic>)> {
    let src = f["class"].as_str()?;
    let mut inp = load(src)?;
    let var: Vec<CV> = serde_json::from_value(f["variation"].clone()).unwrap_or_default();
    for v in &var {
        if !apply(&mut inp, v) {
            return None;
        }
    }
    let (stage, panics) = run_one(inp);
    Some((format!("from_contract_class on {src} with {:?}: {stage}", var), panics))
}

// ------------------------------------------------------------------------------------------------
// JSON level: the class file itself with numbers / strings / shapes at their boundaries
// ------------------------------------------------------------------------------------------------
const JSON_NUMBERS: &[&str] = &[
    "32767", "32768", "65535", "65536", "2147483647", "2147483648", "4294967295", "4294967296",
    "9223372036854775807", "9223372036854775808", "18446744073709551615", "18446744073709551616",
    "340282366920938463463374607431768211456", "-1", "-9223372036854775809", "1.5", "1e400", "\"7\"", "null", "[]",
    "{}", "true",
];

fn json_variants(root: &Value) -> Vec<(String, String)> {
    let mut out: Vec<(String, String)> = vec![];
    let big_hex = format!("\"0x1{}\"", "0".repeat(5000));
    let max_hex = format!("\"0x{}\"", "f".repeat(64));
    let strings: Vec<String> = vec![
        "\"0x0\"".into(), "\"0x\"".into(), "\"\"".into(), "\"0xzz\"".into(), max_hex, big_hex, "7".into(), "null".into(),
        "\"-0x1\"".into(), "\"0X1\"".into(),
        "\"0x800000000000011000000000000000000000000000000000000000000000001\"".into(),
    ];
    for table in ["EXTERNAL", "L1_HANDLER", "CONSTRUCTOR"] {
        let n = root["entry_points_by_type"][table].as_array().map(|a| a.len()).unwrap_or(0);
        for k in [0usize, n.saturating_sub(1)] {
            if k >= n {
                continue;
            }
            for x in JSON_NUMBERS {
                out.push((format!("/entry_points_by_type/{table}/{k}/function_idx"), x.to_string()));
            }
            for x in &strings {
                out.push((format!("/entry_points_by_type/{table}/{k}/selector"), x.clone()));
            }
        }
        for x in ["[]", "null", "{}", "[null]", "[{}]", "7"] {
            out.push((format!("/entry_points_by_type/{table}"), x.to_string()));
        }
    }
    let np = root["sierra_program"].as_array().map(|a| a.len()).unwrap_or(0);
    for k in [0usize, 1, 5, 6, 7, 8, np.saturating_sub(1)] {
        if k < np {
            for x in &strings {
                out.push((format!("/sierra_program/{k}"), x.clone()));
            }
        }
    }
    let deep = format!("{}{}", "[".repeat(5000), "]".repeat(5000));
    for x in ["[]", "null", "{}", "\"0x1\"", "[[]]", "7"] {
        out.push(("/sierra_program".into(), x.to_string()));
    }
    for x in ["1", "null", "\"\"", "[]"] {
        out.push(("/contract_class_version".into(), x.to_string()));
    }
    for x in ["null", "{}", "[]", "7"] {
        out.push(("/entry_points_by_type".into(), x.to_string()));
    }
    for x in ["null", "[]", "{}", "\"x\"", deep.as_str(), "[{\"type\":\"function\"}]", "[7]"] {
        out.push(("/abi".into(), x.to_string()));
    }
    for field in ["type_names", "libfunc_names", "user_func_names"] {
        for id in ["18446744073709551615", "18446744073709551616", "-1", "0", "\"0\"", "1.5"] {
            out.push((
                "/sierra_program_debug_info".into(),
                format!("{{\"type_names\":[],\"libfunc_names\":[],\"user_func_names\":[],\"{field}\":[[{id},\"a\"],[{id},\"b\"]]}}")
                    .replacen(&format!("\"{field}\":[],"), "", 1),
            ));
        }
    }
    for x in ["null", "{}", "[]", "7", "{\"type_names\":7}"] {
        out.push(("/sierra_program_debug_info".into(), x.to_string()));
    }
    out
}

fn json_with(root: &Value, pointer: &str, raw: &str) -> Option<String> {
    let mut v = root.clone();
    *v.pointer_mut(pointer)? = Value::String("@@H14@@".into());
    Some(serde_json::to_string(&v).ok()?.replacen("\"@@H14@@\"", raw, 1))
}

fn run_json(text: &str, limit: usize) -> (String, Vec<Panic>) {
    let mut panics = vec![];
    let cc: ContractClass = match guarded("serde_json::from_str::<ContractClass>", || serde_json::from_str::<ContractClass>(text)) {
        Ok(Ok(c)) => c,
        Ok(Err(_)) => return ("json:rejected".into(), panics),
        Err(p) => {
            panics.push(p);
            return ("panic".into(), panics);
        }
    };
    let ex = match guarded("ContractClass::extract_sierra_program(debug info)", || cc.extract_sierra_program(true)) {
        Ok(Ok(e)) => e,
        Ok(Err(_)) => return ("json:parsed,extract-rejected".into(), panics),
        Err(p) => {
            panics.push(p);
            return ("panic".into(), panics);
        }
    };
    if ex.program.statements.len() > limit {
        return ("json:parsed,extracted".into(), panics);
    }
    let sv = ex.sierra_version;
    let (stage, p2) = run_one(Input { cc, program: ex.program, sv, max: usize::MAX, pythonic: false });
    panics.extend(p2);
    (format!("json:parsed,{stage}"), panics)
}

pub fn run_jsn_job(job: &Value) {
    let src = job["src"].as_str().unwrap_or("");
    let thorough = job["tier"].as_str() == Some("thorough");
    let w = Window::of(job);
    let Ok(text) = std::fs::read_to_string(src) else { return };
    let Ok(root) = serde_json::from_str::<Value>(&text) else { return };
    let name0 = std::path::Path::new(src)
        .file_name()
        .map(|s| s.to_string_lossy().replace(".contract_class.json", ""))
        .unwrap_or_default();
    let limit = if thorough { 6000 } else { 1200 };
    let mut seen = std::collections::BTreeSet::new();
    for (i, (pointer, raw)) in json_variants(&root).iter().enumerate() {
        if !w.runs(i) {
            continue;
        }
        let shown: String = raw.chars().take(48).collect();
        let name = format!("{name0}~json{pointer}={shown}");
        emit_begin(i, &name);
        let t = Instant::now();
        let Some(doc) = json_with(&root, pointer, raw) else {
            emit_end(&json!({"name": name, "kind": "jsn", "stage": "harness-skip"}));
            continue;
        };
        let (stage, panics) = run_json(&doc, limit);
        let mut pj = panics_json(&panics);
        for (k, p) in panics.iter().enumerate() {
            if seen.insert(p.loc.clone()) {
                pj[k]["witness"] = json!({"entry": "class-json", "class": src, "pointer": pointer, "raw": raw, "size": 1});
            }
        }
        emit_end(&json!({
            "name": name, "kind": "jsn", "stage": if panics.is_empty() { stage.clone() } else { "panic".to_string() }, "panics": pj,
            "ms": t.elapsed().as_millis() as u64, "hash": hash_of(&(&name0, pointer, raw)),
            "nontrivial": stage.starts_with("json:parsed"), "mclass": format!("json:{}", pointer.split('/').nth(1).unwrap_or("")),
        }));
    }
}

pub fn run_json_witness(f: &Value) -> Option<(String, Vec<Panic>)> {
    let text = std::fs::read_to_string(f["class"].as_str()?).ok()?;
    let root: Value = serde_json::from_str(&text).ok()?;
    let doc = json_with(&root, f["pointer"].as_str()?, f["raw"].as_str()?)?;
    Some(run_json(&doc, 100000))
}
