//! Mutation engine for Sierra programs (C14 / C02).  Mutations are cheap descriptors (`Mu`),
//! enumerated for a program by `enumerate` (every site x every operator; the few random choices -
//! replacement variable, random target - come from the caller's seeded PRNG) and applied by `apply`.
//! Operators: the statement/branch/entry-point operators of harness/h15 plus generic-argument edits
//! (sign, magnitude, kind, arity), type/libfunc declaration edits (generic id, declared type info,
//! delete/duplicate/reorder/id swap), id swaps (libfunc, type, function, variable), function
//! signature/param edits.
use cairo_lang_sierra::ids::{
    ConcreteLibfuncId, ConcreteTypeId, FunctionId, GenericLibfuncId, GenericTypeId, UserTypeId, VarId,
};
use cairo_lang_sierra::program::{
    BranchInfo, BranchTarget, DeclaredTypeInfo, GenBranchTarget, GenericArg, Param, Program, Statement,
    StatementIdx,
};
use num_bigint::{BigInt, BigUint};
use vcommon::{Rng, stark_prime};

#[derive(Clone, Debug, PartialEq, serde::Serialize, serde::Deserialize)]
pub enum Mu {
    // ---- statements ----
    Delete(usize),
    Swap(usize),
    Dup(usize),
    ToReturn(usize),
    RetSwap(usize),
    RetVar(usize, u64),
    RetDrop(usize),
    RetDupVar(usize),
    ArgSwap(usize),
    ArgVar(usize, usize, u64),
    ArgDrop(usize),
    ArgDup(usize),
    ResVar(usize, usize, u64),
    ResSwap(usize, usize),
    ResDrop(usize, usize),
    ResDup(usize, usize),
    Retarget(usize, usize, usize),
    Explicit(usize, usize),
    Fallthrough(usize, usize),
    BrSwap(usize),
    BrDrop(usize, usize),
    BrDup(usize, usize),
    Libfunc(usize, usize),
    LibfuncUndeclared(usize),
    // ---- functions ----
    Entry(usize, usize),
    ParamSwap(usize),
    ParamDrop(usize),
    ParamSigDrop(usize),
    ParamVarDup(usize),
    ParamTy(usize, usize, usize),
    RetSigSwap(usize),
    RetTy(usize, usize, usize),
    RetSigDrop(usize),
    FnDelete(usize),
    FnDup(usize),
    FnIdSwap(usize, usize),
    // ---- declarations ----
    TypeOrder(usize),
    TypeDelete(usize),
    TypeDup(usize),
    TypeIdSwap(usize, usize),
    TypeGeneric(usize, String),
    TypeInfo(usize, u8),
    LibfuncOrder(usize),
    LibfuncDelete(usize),
    LibfuncDup(usize),
    LibfuncIdSwap(usize, usize),
    LibfuncGeneric(usize, String),
    // ---- generic args: (is_type_decl, decl index, arg index, ..) ----
    GaValue(bool, usize, usize, BigInt),
    GaType(bool, usize, usize, u64),
    GaUserType(bool, usize, usize, BigUint),
    GaUserFunc(bool, usize, usize, u64),
    GaLibfunc(bool, usize, usize, u64),
    GaDrop(bool, usize, usize),
    GaDup(bool, usize, usize),
    GaSwap(bool, usize, usize),
    GaKind(bool, usize, usize, u8),
    GaPush(bool, usize, u8),
}

impl Mu {
    pub fn name(&self) -> String {
        let s = format!("{:?}", self);
        if s.len() > 90 { format!("{}..", &s[..90]) } else { s }
    }
    pub fn class(&self) -> String {
        let s = format!("{:?}", self);
        s.split('(').next().unwrap_or("").to_string()
    }
}

pub fn all_vars(p: &Program) -> Vec<u64> {
    let mut v = vec![];
    for f in &p.funcs {
        v.extend(f.params.iter().map(|x| x.id.id));
    }
    for s in &p.statements {
        match s {
            Statement::Return(vs) => v.extend(vs.iter().map(|x| x.id)),
            Statement::Invocation(i) => {
                v.extend(i.args.iter().map(|x| x.id));
                for b in &i.branches {
                    v.extend(b.results.iter().map(|x| x.id));
                }
            }
        }
    }
    v.sort();
    v.dedup();
    v
}

pub fn interesting_values(old: &BigInt) -> Vec<BigInt> {
    let one = BigInt::from(1);
    let p = stark_prime();
    let mut v: Vec<BigInt> = vec![
        old + &one,
        old - &one,
        -old.clone(),
        old * 2,
        BigInt::from(0),
        one.clone(),
        -one.clone(),
        BigInt::from(2),
        BigInt::from(255),
        BigInt::from(256),
        BigInt::from(i16::MAX) + 1,
        BigInt::from(65535),
        BigInt::from(65536),
        BigInt::from(i32::MAX),
        BigInt::from(1u64 << 32),
        BigInt::from(i64::MAX),
        BigInt::from(i64::MIN),
        BigInt::from(u64::MAX),
        BigInt::from(u64::MAX) + 1,
        (&one << 127u32) - 1,
        -(&one << 127u32),
        (&one << 128u32) - 1,
        &one << 128u32,
        -(&one << 128u32),
        &one << 251u32,
        &p - 1,
        p.clone(),
        &p + 1,
        -p.clone(),
        (&one << 256u32) - 1,
        &one << 256u32,
        &one << 1000u32,
        -(&one << 1000u32),
    ];
    v.retain(|x| x != old);
    v.sort();
    v.dedup();
    v
}

const GENERIC_TYPES: &[&str] = &[
    "felt252", "u8", "u128", "u256", "Array", "Struct", "Enum", "Box", "Snapshot", "Nullable", "NonZero",
    "Uninitialized", "Felt252Dict", "Felt252DictEntry", "SquashedFelt252Dict", "Span", "Const", "BoundedInt",
    "Circuit", "CircuitInput", "CircuitData", "CircuitOutputs", "CircuitModulus", "AddModGate", "MulModGate",
    "InverseGate", "SubModGate", "U96Guarantee", "U96LimbsLtGuarantee", "IntRange", "Coupon", "GasBuiltin",
    "GasReserve", "RangeCheck", "RangeCheck96", "BuiltinCosts", "SegmentArena", "System", "Bitwise", "Pedersen",
    "Poseidon", "EcOp", "EcPoint", "EcState", "Blake", "bytes31", "qm31", "StorageBaseAddress", "ContractAddress",
    "Secp256k1Point", "NoSuchType",
];

fn decl_args<'a>(p: &'a Program, is_ty: bool, d: usize) -> &'a Vec<GenericArg> {
    if is_ty { &p.type_declarations[d].long_id.generic_args } else { &p.libfunc_declarations[d].long_id.generic_args }
}
fn decl_args_mut<'a>(p: &'a mut Program, is_ty: bool, d: usize) -> &'a mut Vec<GenericArg> {
    if is_ty {
        &mut p.type_declarations[d].long_id.generic_args
    } else {
        &mut p.libfunc_declarations[d].long_id.generic_args
    }
}

fn mk_arg(kind: u8, p: &Program) -> GenericArg {
    match kind % 5 {
        0 => GenericArg::Value(BigInt::from(0)),
        1 => GenericArg::Type(
            p.type_declarations.first().map(|d| d.id.clone()).unwrap_or_else(|| ConcreteTypeId::new(0)),
        ),
        2 => GenericArg::UserType(UserTypeId::from_string("verif")),
        3 => GenericArg::UserFunc(p.funcs.first().map(|f| f.id.clone()).unwrap_or_else(|| FunctionId::new(0))),
        _ => GenericArg::Libfunc(
            p.libfunc_declarations.first().map(|d| d.id.clone()).unwrap_or_else(|| ConcreteLibfuncId::new(0)),
        ),
    }
}

/// Every single-point mutation of `p`, restricted to statements `stmt_range` (declaration- and
/// function-level mutations are included when `with_decls`).
pub fn enumerate(p: &Program, rng: &mut Rng, stmt_range: std::ops::Range<usize>, with_decls: bool) -> Vec<Mu> {
    let mut out = vec![];
    let n = p.statements.len();
    let vars = all_vars(p);
    let nl = p.libfunc_declarations.len();
    let nt = p.type_declarations.len();
    let nf = p.funcs.len();
    for i in stmt_range.start..stmt_range.end.min(n) {
        out.push(Mu::Delete(i));
        if i + 1 < n {
            out.push(Mu::Swap(i));
        }
        out.push(Mu::Dup(i));
        match &p.statements[i] {
            Statement::Return(vs) => {
                if vs.len() >= 2 {
                    out.push(Mu::RetSwap(i));
                }
                if !vs.is_empty() {
                    out.push(Mu::RetVar(i, *rng.pick(&vars)));
                    out.push(Mu::RetDrop(i));
                    out.push(Mu::RetDupVar(i));
                }
            }
            Statement::Invocation(inv) => {
                out.push(Mu::ToReturn(i));
                if inv.args.len() >= 2 {
                    out.push(Mu::ArgSwap(i));
                }
                if !inv.args.is_empty() {
                    let k = rng.below(inv.args.len() as u64) as usize;
                    out.push(Mu::ArgVar(i, k, *rng.pick(&vars)));
                    out.push(Mu::ArgDrop(i));
                    out.push(Mu::ArgDup(i));
                }
                for (k, b) in inv.branches.iter().enumerate() {
                    if !b.results.is_empty() {
                        out.push(Mu::ResVar(i, k, *rng.pick(&vars)));
                        out.push(Mu::ResDrop(i, k));
                        out.push(Mu::ResDup(i, k));
                    }
                    if b.results.len() >= 2 {
                        out.push(Mu::ResSwap(i, k));
                    }
                    let cur = StatementIdx(i).next(b.target).0;
                    let mut cands =
                        vec![i, cur + 1, cur.saturating_sub(1), rng.below(n as u64) as usize, n, usize::MAX, usize::MAX - 1];
                    cands.sort();
                    cands.dedup();
                    for t in cands {
                        if t != cur {
                            out.push(Mu::Retarget(i, k, t));
                        }
                    }
                    if matches!(b.target, GenBranchTarget::Fallthrough) {
                        out.push(Mu::Explicit(i, k));
                    } else {
                        out.push(Mu::Fallthrough(i, k));
                    }
                    out.push(Mu::BrDrop(i, k));
                    out.push(Mu::BrDup(i, k));
                }
                if inv.branches.len() >= 2 {
                    out.push(Mu::BrSwap(i));
                }
                if nl >= 2 {
                    out.push(Mu::Libfunc(i, rng.below(nl as u64) as usize));
                }
                out.push(Mu::LibfuncUndeclared(i));
            }
        }
    }
    if !with_decls {
        return out;
    }
    for (k, f) in p.funcs.iter().enumerate() {
        for t in [f.entry_point.0.wrapping_add(1), f.entry_point.0.wrapping_sub(1), n, usize::MAX, rng.below(n.max(1) as u64) as usize] {
            if t != f.entry_point.0 {
                out.push(Mu::Entry(k, t));
            }
        }
        if f.params.len() >= 2 {
            out.push(Mu::ParamSwap(k));
        }
        if !f.params.is_empty() {
            out.push(Mu::ParamDrop(k));
            out.push(Mu::ParamSigDrop(k));
            out.push(Mu::ParamVarDup(k));
            if nt > 0 {
                let a = rng.below(f.params.len() as u64) as usize;
                out.push(Mu::ParamTy(k, a, rng.below(nt as u64) as usize));
            }
        }
        if f.signature.ret_types.len() >= 2 {
            out.push(Mu::RetSigSwap(k));
        }
        if !f.signature.ret_types.is_empty() {
            out.push(Mu::RetSigDrop(k));
            if nt > 0 {
                let a = rng.below(f.signature.ret_types.len() as u64) as usize;
                out.push(Mu::RetTy(k, a, rng.below(nt as u64) as usize));
            }
        }
        out.push(Mu::FnDelete(k));
        out.push(Mu::FnDup(k));
        if nf >= 2 {
            out.push(Mu::FnIdSwap(k, (k + 1 + rng.below(nf as u64 - 1) as usize) % nf));
        }
    }
    let ga = |out: &mut Vec<Mu>, rng: &mut Rng, is_ty: bool, d: usize, args: &Vec<GenericArg>| {
        for (a, g) in args.iter().enumerate() {
            match g {
                GenericArg::Value(v) => {
                    for nv in interesting_values(v) {
                        out.push(Mu::GaValue(is_ty, d, a, nv));
                    }
                }
                GenericArg::Type(t) => {
                    // another declared type (earlier, later, itself for type decls), an undeclared one
                    let mut c = vec![u64::MAX];
                    if nt > 0 {
                        c.push(p.type_declarations[rng.below(nt as u64) as usize].id.id);
                        c.push(p.type_declarations[nt - 1].id.id);
                        if is_ty {
                            c.push(p.type_declarations[d].id.id);
                        }
                    }
                    c.sort();
                    c.dedup();
                    for x in c {
                        if x != t.id {
                            out.push(Mu::GaType(is_ty, d, a, x));
                        }
                    }
                }
                GenericArg::UserType(u) => {
                    out.push(Mu::GaUserType(is_ty, d, a, &u.id + 1u32));
                    out.push(Mu::GaUserType(is_ty, d, a, BigUint::from(0u32)));
                }
                GenericArg::UserFunc(f) => {
                    let mut c = vec![u64::MAX];
                    if nf > 0 {
                        c.push(p.funcs[rng.below(nf as u64) as usize].id.id);
                    }
                    for x in c {
                        if x != f.id {
                            out.push(Mu::GaUserFunc(is_ty, d, a, x));
                        }
                    }
                }
                GenericArg::Libfunc(l) => {
                    let mut c = vec![u64::MAX];
                    if nl > 0 {
                        c.push(p.libfunc_declarations[rng.below(nl as u64) as usize].id.id);
                    }
                    for x in c {
                        if x != l.id {
                            out.push(Mu::GaLibfunc(is_ty, d, a, x));
                        }
                    }
                }
            }
            out.push(Mu::GaDrop(is_ty, d, a));
            out.push(Mu::GaDup(is_ty, d, a));
            if a + 1 < args.len() {
                out.push(Mu::GaSwap(is_ty, d, a));
            }
            for kind in 0..5u8 {
                out.push(Mu::GaKind(is_ty, d, a, kind));
            }
        }
        for kind in 0..5u8 {
            out.push(Mu::GaPush(is_ty, d, kind));
        }
    };
    let generic_types_here: Vec<String> = {
        let mut v: Vec<String> = p.type_declarations.iter().map(|d| d.long_id.generic_id.0.to_string()).collect();
        v.sort();
        v.dedup();
        v
    };
    for (d, td) in p.type_declarations.iter().enumerate() {
        if d + 1 < nt {
            out.push(Mu::TypeOrder(d));
        }
        out.push(Mu::TypeDelete(d));
        out.push(Mu::TypeDup(d));
        if nt >= 2 {
            out.push(Mu::TypeIdSwap(d, (d + 1 + rng.below(nt as u64 - 1) as usize) % nt));
        }
        // generic id: two from the program, two from the fixed list
        for _ in 0..2 {
            let g = rng.pick(&generic_types_here).clone();
            if g != td.long_id.generic_id.0.as_str() {
                out.push(Mu::TypeGeneric(d, g));
            }
            let g = rng.pick(GENERIC_TYPES).to_string();
            if g != td.long_id.generic_id.0.as_str() {
                out.push(Mu::TypeGeneric(d, g));
            }
        }
        for bits in [0u8, 1, 2, 4, 8, 15, 16] {
            out.push(Mu::TypeInfo(d, bits));
        }
        ga(&mut out, rng, true, d, &td.long_id.generic_args);
    }
    let generic_libfuncs_here: Vec<String> = {
        let mut v: Vec<String> = p.libfunc_declarations.iter().map(|d| d.long_id.generic_id.0.to_string()).collect();
        v.sort();
        v.dedup();
        v
    };
    for (d, ld) in p.libfunc_declarations.iter().enumerate() {
        if d + 1 < nl {
            out.push(Mu::LibfuncOrder(d));
        }
        out.push(Mu::LibfuncDelete(d));
        out.push(Mu::LibfuncDup(d));
        if nl >= 2 {
            out.push(Mu::LibfuncIdSwap(d, (d + 1 + rng.below(nl as u64 - 1) as usize) % nl));
        }
        for _ in 0..2 {
            let g = rng.pick(&generic_libfuncs_here).clone();
            if g != ld.long_id.generic_id.0.as_str() {
                out.push(Mu::LibfuncGeneric(d, g));
            }
        }
        out.push(Mu::LibfuncGeneric(d, "no_such_libfunc".into()));
        ga(&mut out, rng, false, d, &ld.long_id.generic_args);
    }
    out
}

fn shift_after_delete(q: &mut Program, i: usize) {
    for s in q.statements.iter_mut() {
        if let Statement::Invocation(inv) = s {
            for b in inv.branches.iter_mut() {
                if let GenBranchTarget::Statement(t) = &mut b.target {
                    if t.0 > i && t.0 != usize::MAX {
                        t.0 -= 1;
                    }
                }
            }
        }
    }
    for f in q.funcs.iter_mut() {
        if f.entry_point.0 > i {
            f.entry_point.0 -= 1;
        }
    }
}

/// Deletes statement `i`, keeping every other branch target / entry point on the statement it
/// pointed to (also used by the minimiser).
pub fn delete_statement(p: &Program, i: usize) -> Program {
    let mut q = p.clone();
    q.statements.remove(i);
    shift_after_delete(&mut q, i);
    q
}

pub fn apply(p: &Program, m: &Mu) -> Program {
    let mut q = p.clone();
    let inv = |q: &mut Program, i: usize, f: &mut dyn FnMut(&mut cairo_lang_sierra::program::Invocation)| {
        if let Some(Statement::Invocation(x)) = q.statements.get_mut(i) {
            f(x)
        }
    };
    let ret = |q: &mut Program, i: usize, f: &mut dyn FnMut(&mut Vec<VarId>)| {
        if let Some(Statement::Return(x)) = q.statements.get_mut(i) {
            f(x)
        }
    };
    match m.clone() {
        Mu::Delete(i) => return delete_statement(p, i),
        Mu::Swap(i) => q.statements.swap(i, i + 1),
        Mu::Dup(i) => {
            let s = q.statements[i].clone();
            q.statements.insert(i, s);
            for s in q.statements.iter_mut() {
                if let Statement::Invocation(inv) = s {
                    for b in inv.branches.iter_mut() {
                        if let GenBranchTarget::Statement(t) = &mut b.target {
                            if t.0 > i && t.0 < usize::MAX - 1 {
                                t.0 += 1;
                            }
                        }
                    }
                }
            }
            for f in q.funcs.iter_mut() {
                if f.entry_point.0 > i {
                    f.entry_point.0 += 1;
                }
            }
        }
        Mu::ToReturn(i) => {
            if let Statement::Invocation(x) = &p.statements[i] {
                q.statements[i] = Statement::Return(x.args.clone());
            }
        }
        Mu::RetSwap(i) => ret(&mut q, i, &mut |w| w.swap(0, 1)),
        Mu::RetVar(i, v) => ret(&mut q, i, &mut |w| w[0] = VarId::new(v)),
        Mu::RetDrop(i) => ret(&mut q, i, &mut |w| {
            w.pop();
        }),
        Mu::RetDupVar(i) => ret(&mut q, i, &mut |w| {
            let x = w[0].clone();
            w.push(x)
        }),
        Mu::ArgSwap(i) => inv(&mut q, i, &mut |x| x.args.swap(0, 1)),
        Mu::ArgVar(i, k, v) => inv(&mut q, i, &mut |x| x.args[k] = VarId::new(v)),
        Mu::ArgDrop(i) => inv(&mut q, i, &mut |x| {
            x.args.pop();
        }),
        Mu::ArgDup(i) => inv(&mut q, i, &mut |x| {
            let a = x.args[0].clone();
            x.args.push(a)
        }),
        Mu::ResVar(i, k, v) => inv(&mut q, i, &mut |x| x.branches[k].results[0] = VarId::new(v)),
        Mu::ResSwap(i, k) => inv(&mut q, i, &mut |x| x.branches[k].results.swap(0, 1)),
        Mu::ResDrop(i, k) => inv(&mut q, i, &mut |x| {
            x.branches[k].results.pop();
        }),
        Mu::ResDup(i, k) => inv(&mut q, i, &mut |x| {
            let a = x.branches[k].results[0].clone();
            x.branches[k].results.push(a)
        }),
        Mu::Retarget(i, k, t) => {
            inv(&mut q, i, &mut |x| x.branches[k].target = BranchTarget::Statement(StatementIdx(t)))
        }
        Mu::Explicit(i, k) => {
            inv(&mut q, i, &mut |x| x.branches[k].target = BranchTarget::Statement(StatementIdx(i + 1)))
        }
        Mu::Fallthrough(i, k) => inv(&mut q, i, &mut |x| x.branches[k].target = BranchTarget::Fallthrough),
        Mu::BrSwap(i) => inv(&mut q, i, &mut |x| x.branches.swap(0, 1)),
        Mu::BrDrop(i, k) => inv(&mut q, i, &mut |x| {
            x.branches.remove(k);
        }),
        Mu::BrDup(i, k) => inv(&mut q, i, &mut |x| {
            let b: BranchInfo = x.branches[k].clone();
            x.branches.push(b)
        }),
        Mu::Libfunc(i, d) => {
            let id = p.libfunc_declarations[d].id.clone();
            inv(&mut q, i, &mut |x| x.libfunc_id = id.clone())
        }
        Mu::LibfuncUndeclared(i) => inv(&mut q, i, &mut |x| x.libfunc_id = ConcreteLibfuncId::new(u64::MAX - 7)),
        Mu::Entry(k, t) => q.funcs[k].entry_point.0 = t,
        Mu::ParamSwap(k) => {
            q.funcs[k].params.swap(0, 1);
            q.funcs[k].signature.param_types.swap(0, 1);
        }
        Mu::ParamDrop(k) => {
            q.funcs[k].params.pop();
            q.funcs[k].signature.param_types.pop();
        }
        Mu::ParamSigDrop(k) => {
            q.funcs[k].signature.param_types.pop();
        }
        Mu::ParamVarDup(k) => {
            let x: Param = q.funcs[k].params[0].clone();
            let ty = x.ty.clone();
            q.funcs[k].params.push(x);
            q.funcs[k].signature.param_types.push(ty);
        }
        Mu::ParamTy(k, a, d) => {
            let ty = p.type_declarations[d].id.clone();
            q.funcs[k].params[a].ty = ty.clone();
            if let Some(t) = q.funcs[k].signature.param_types.get_mut(a) {
                *t = ty;
            }
        }
        Mu::RetSigSwap(k) => q.funcs[k].signature.ret_types.swap(0, 1),
        Mu::RetTy(k, a, d) => q.funcs[k].signature.ret_types[a] = p.type_declarations[d].id.clone(),
        Mu::RetSigDrop(k) => {
            q.funcs[k].signature.ret_types.pop();
        }
        Mu::FnDelete(k) => {
            q.funcs.remove(k);
        }
        Mu::FnDup(k) => {
            let f = q.funcs[k].clone();
            q.funcs.push(f);
        }
        Mu::FnIdSwap(a, b) => {
            let (x, y) = (q.funcs[a].id.clone(), q.funcs[b].id.clone());
            q.funcs[a].id = y;
            q.funcs[b].id = x;
        }
        Mu::TypeOrder(d) => q.type_declarations.swap(d, d + 1),
        Mu::TypeDelete(d) => {
            q.type_declarations.remove(d);
        }
        Mu::TypeDup(d) => {
            let x = q.type_declarations[d].clone();
            q.type_declarations.push(x);
        }
        Mu::TypeIdSwap(a, b) => {
            let (x, y) = (q.type_declarations[a].id.clone(), q.type_declarations[b].id.clone());
            q.type_declarations[a].id = y;
            q.type_declarations[b].id = x;
        }
        Mu::TypeGeneric(d, g) => q.type_declarations[d].long_id.generic_id = GenericTypeId::from_string(g),
        Mu::TypeInfo(d, bits) => {
            q.type_declarations[d].declared_type_info = if bits >= 16 {
                None
            } else {
                Some(DeclaredTypeInfo {
                    storable: bits & 1 != 0,
                    droppable: bits & 2 != 0,
                    duplicatable: bits & 4 != 0,
                    zero_sized: bits & 8 != 0,
                })
            }
        }
        Mu::LibfuncOrder(d) => q.libfunc_declarations.swap(d, d + 1),
        Mu::LibfuncDelete(d) => {
            q.libfunc_declarations.remove(d);
        }
        Mu::LibfuncDup(d) => {
            let x = q.libfunc_declarations[d].clone();
            q.libfunc_declarations.push(x);
        }
        Mu::LibfuncIdSwap(a, b) => {
            let (x, y) = (q.libfunc_declarations[a].id.clone(), q.libfunc_declarations[b].id.clone());
            q.libfunc_declarations[a].id = y;
            q.libfunc_declarations[b].id = x;
        }
        Mu::LibfuncGeneric(d, g) => {
            q.libfunc_declarations[d].long_id.generic_id = GenericLibfuncId::from_string(g)
        }
        Mu::GaValue(t, d, a, v) => decl_args_mut(&mut q, t, d)[a] = GenericArg::Value(v),
        Mu::GaType(t, d, a, id) => {
            let name = p.type_declarations.iter().find(|x| x.id.id == id).and_then(|x| x.id.debug_name.clone());
            decl_args_mut(&mut q, t, d)[a] = GenericArg::Type(ConcreteTypeId { id, debug_name: name })
        }
        Mu::GaUserType(t, d, a, id) => {
            decl_args_mut(&mut q, t, d)[a] = GenericArg::UserType(UserTypeId { id, debug_name: None })
        }
        Mu::GaUserFunc(t, d, a, id) => {
            let name = p.funcs.iter().find(|x| x.id.id == id).and_then(|x| x.id.debug_name.clone());
            decl_args_mut(&mut q, t, d)[a] = GenericArg::UserFunc(FunctionId { id, debug_name: name })
        }
        Mu::GaLibfunc(t, d, a, id) => {
            decl_args_mut(&mut q, t, d)[a] = GenericArg::Libfunc(ConcreteLibfuncId { id, debug_name: None })
        }
        Mu::GaDrop(t, d, a) => {
            decl_args_mut(&mut q, t, d).remove(a);
        }
        Mu::GaDup(t, d, a) => {
            let x = decl_args(p, t, d)[a].clone();
            decl_args_mut(&mut q, t, d).insert(a, x);
        }
        Mu::GaSwap(t, d, a) => decl_args_mut(&mut q, t, d).swap(a, a + 1),
        Mu::GaKind(t, d, a, kind) => decl_args_mut(&mut q, t, d)[a] = mk_arg(kind, p),
        Mu::GaPush(t, d, kind) => decl_args_mut(&mut q, t, d).push(mk_arg(kind, p)),
    }
    q
}

/// One random mutation of `p` without enumerating all of them (used for k-point mutants).
pub fn random_mutation(p: &Program, rng: &mut Rng) -> Option<Mu> {
    let n = p.statements.len();
    let decl_level = rng.below(4) == 0 || n == 0;
    let ms = if decl_level {
        // enumerate declaration-level mutations only (no statements)
        enumerate(p, rng, 0..0, true)
    } else {
        let i = rng.below(n as u64) as usize;
        enumerate(p, rng, i..i + 1, false)
    };
    if ms.is_empty() { None } else { Some(ms[rng.below(ms.len() as u64) as usize].clone()) }
}

/// Renumbers type / libfunc / function ids by declaration order (what the felt252 serialisation
/// requires: `OutOfOrder...DeclarationsForSerialization` otherwise).  Ids without a declaration are
/// left unchanged.
pub fn renumber(p: &Program) -> Program {
    use std::collections::HashMap;
    let tm: HashMap<u64, u64> = p.type_declarations.iter().enumerate().map(|(i, d)| (d.id.id, i as u64)).collect();
    let lm: HashMap<u64, u64> =
        p.libfunc_declarations.iter().enumerate().map(|(i, d)| (d.id.id, i as u64)).collect();
    let fm: HashMap<u64, u64> = p.funcs.iter().enumerate().map(|(i, d)| (d.id.id, i as u64)).collect();
    let ty = |t: &ConcreteTypeId| ConcreteTypeId { id: *tm.get(&t.id).unwrap_or(&t.id), debug_name: None };
    let lf = |t: &ConcreteLibfuncId| ConcreteLibfuncId { id: *lm.get(&t.id).unwrap_or(&t.id), debug_name: None };
    let fu = |t: &FunctionId| FunctionId { id: *fm.get(&t.id).unwrap_or(&t.id), debug_name: None };
    let ga = |g: &GenericArg| match g {
        GenericArg::Type(t) => GenericArg::Type(ty(t)),
        GenericArg::Libfunc(l) => GenericArg::Libfunc(lf(l)),
        GenericArg::UserFunc(f) => GenericArg::UserFunc(fu(f)),
        GenericArg::UserType(u) => GenericArg::UserType(UserTypeId { id: u.id.clone(), debug_name: None }),
        GenericArg::Value(v) => GenericArg::Value(v.clone()),
    };
    let mut q = p.clone();
    for d in q.type_declarations.iter_mut() {
        d.id = ty(&d.id);
        d.long_id.generic_args = d.long_id.generic_args.iter().map(ga).collect();
    }
    for d in q.libfunc_declarations.iter_mut() {
        d.id = lf(&d.id);
        d.long_id.generic_args = d.long_id.generic_args.iter().map(ga).collect();
    }
    for s in q.statements.iter_mut() {
        match s {
            Statement::Invocation(inv) => {
                inv.libfunc_id = lf(&inv.libfunc_id);
                for a in inv.args.iter_mut() {
                    a.debug_name = None;
                }
                for b in inv.branches.iter_mut() {
                    for r in b.results.iter_mut() {
                        r.debug_name = None;
                    }
                }
            }
            Statement::Return(vs) => {
                for a in vs.iter_mut() {
                    a.debug_name = None;
                }
            }
        }
    }
    for f in q.funcs.iter_mut() {
        f.id = fu(&f.id);
        f.signature.param_types = f.signature.param_types.iter().map(ty).collect();
        f.signature.ret_types = f.signature.ret_types.iter().map(ty).collect();
        for pa in f.params.iter_mut() {
            pa.ty = ty(&pa.ty);
            pa.id.debug_name = None;
        }
    }
    q
}
