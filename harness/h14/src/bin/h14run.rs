fn main() {
    eprintln!("h14run: not built yet");
}
