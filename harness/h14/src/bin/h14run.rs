//! h14run -- the running legs: C02 (accepted Sierra runs to completion) and the run-time formulas of
//! C04 (gas charged covers the actual cost) and C17 (static ap change = run-time ap movement, every
//! traced pc inside exactly one recorded statement range).
//!
//! usage:
//!   h14run <sources_dir with *.cairo> <out_dir> <quick|thorough>      parent (watched workers)
//!   h14run worker <batch.json> <result.json>                          child: compiles + runs a batch
//!
//! Every source is compiled with /repo's current compiler (corelib at /repo/corelib/src, automatic
//! withdraw_gas on), then for both metadata configurations (linear solvers / equation solvers) a
//! `SierraCasmRunner` + `RunnableBuilder` are built and every function of the source's own crate whose
//! user parameters are scalars (integers, felt252, bool, u256, bytes31, tuples/structs/snapshots of
//! those, arrays of scalars) is run on in-range inputs incl. boundaries with several gas budgets.
//! Output: summary.json, runtime_failures.json ({leg: C02|C04|C17, program, function, args, gas,
//! solver, what}), samples.txt.
use std::collections::BTreeMap;
use std::io::Write as _;
use std::panic::AssertUnwindSafe;
use std::path::{Path, PathBuf};
use std::process::{Command, Stdio};
use std::sync::atomic::{AtomicUsize, Ordering};
use std::sync::{Arc, Mutex};
use std::time::{Duration, Instant};

use cairo_lang_compiler::db::RootDatabase;
use cairo_lang_compiler::diagnostics::DiagnosticsReporter;
use cairo_lang_compiler::project::setup_project;
use cairo_lang_filesystem::db::{CrateConfiguration, ExperimentalFeaturesConfig, init_dev_corelib};
use cairo_lang_filesystem::ids::{CrateId, CrateInput, Directory, SmolStrId};
use cairo_lang_runnable_utils::builder::{EntryCodeConfig, RunnableBuilder};
use cairo_lang_runner::casm_run::{RunFunctionResult, run_function};
use cairo_lang_runner::{Arg, RunResultValue, RunnerError, SierraCasmRunner, StarknetState, initialize_vm, token_gas_cost};
use cairo_lang_sierra::extensions::gas::CostTokenType;
use cairo_lang_sierra::ids::ConcreteTypeId;
use cairo_lang_sierra::program::{Function, GenericArg, Program, Statement};
use cairo_lang_sierra_generator::db::SierraGenGroup;
use cairo_lang_sierra_generator::replace_ids::{DebugReplacer, SierraIdReplacer};
use cairo_lang_sierra_to_casm::metadata::MetadataComputationConfig;
use cairo_lang_utils::bigint::BigIntAsHex;
use cairo_vm::types::builtin_name::BuiltinName;
use num_bigint::BigInt;
use num_traits::{One, Zero};
use serde_json::{Value, json};
use starknet_types_core::felt::Felt as Felt252;
use vcommon::{Rng, catch, last_panic_location, quiet_panics, stark_prime};

/// corelib of the tree under test ($VERIF_REPO, default /repo)
fn corelib() -> String {
    format!("{}/corelib/src", std::env::var("VERIF_REPO").unwrap_or_else(|_| "/repo".into()))
}

fn fnv(s: &str) -> u64 {
    let mut h: u64 = 0xcbf29ce484222325;
    for b in s.bytes() {
        h ^= b as u64;
        h = h.wrapping_mul(0x100000001b3);
    }
    h
}

// ------------------------------------------------------------------------------------------------
// argument generation
// ------------------------------------------------------------------------------------------------
/// What one user parameter looks like to the generator.
#[derive(Clone, Debug)]
enum Shape {
    /// an integer in [lo, hi] (felt252: [0, P-1])
    Int(BigInt, BigInt),
    NonZero(Box<Shape>),
    Tuple(Vec<Shape>),
    Array(Box<Shape>),
}

fn int_range(name: &str, args: &[GenericArg]) -> Option<(BigInt, BigInt)> {
    let one = BigInt::one();
    let u = |bits: u32| Some((BigInt::zero(), (BigInt::one() << bits) - 1));
    let i = |bits: u32| Some((-(BigInt::one() << (bits - 1)), (BigInt::one() << (bits - 1)) - 1));
    match name {
        "felt252" => Some((BigInt::zero(), stark_prime() - &one)),
        "u8" => u(8),
        "u16" => u(16),
        "u32" => u(32),
        "u64" => u(64),
        "u128" => u(128),
        "i8" => i(8),
        "i16" => i(16),
        "i32" => i(32),
        "i64" => i(64),
        "i128" => i(128),
        "bytes31" => u(248),
        "BoundedInt" => match args {
            [GenericArg::Value(lo), GenericArg::Value(hi)] if lo <= hi => Some((lo.clone(), hi.clone())),
            _ => None,
        },
        _ => None,
    }
}

fn shape_of(b: &RunnableBuilder, ty: &ConcreteTypeId, depth: usize) -> Option<Shape> {
    if depth > 6 {
        return None;
    }
    let long = b.type_long_id(ty);
    let name = long.generic_id.0.as_str();
    if let Some((lo, hi)) = int_range(name, &long.generic_args) {
        return Some(Shape::Int(lo, hi));
    }
    match name {
        "Struct" => {
            let mut parts = vec![];
            for a in long.generic_args.iter().skip(1) {
                let GenericArg::Type(t) = a else { return None };
                parts.push(shape_of(b, t, depth + 1)?);
            }
            Some(Shape::Tuple(parts))
        }
        "Enum" => {
            // only enums of one or two unit variants (bool): the selector is the variant index
            let vars: Vec<_> = long.generic_args.iter().skip(1).collect();
            if vars.is_empty() || vars.len() > 2 {
                return None;
            }
            for a in &vars {
                let GenericArg::Type(t) = a else { return None };
                match shape_of(b, t, depth + 1)? {
                    Shape::Tuple(v) if v.is_empty() => {}
                    _ => return None,
                }
            }
            if b.type_size(ty) != 1 {
                return None;
            }
            Some(Shape::Int(BigInt::zero(), BigInt::from(vars.len() as u32 - 1)))
        }
        "Snapshot" => match long.generic_args.as_slice() {
            [GenericArg::Type(t)] => shape_of(b, t, depth + 1),
            _ => None,
        },
        "NonZero" => match long.generic_args.as_slice() {
            [GenericArg::Type(t)] => Some(Shape::NonZero(Box::new(shape_of(b, t, depth + 1)?))),
            _ => None,
        },
        "Array" => match long.generic_args.as_slice() {
            [GenericArg::Type(t)] => match shape_of(b, t, depth + 1)? {
                s @ Shape::Int(..) => Some(Shape::Array(Box::new(s))),
                _ => None,
            },
            _ => None,
        },
        _ => None,
    }
}

/// mode: 0 = minimum, 1 = maximum, 2 = zero/one-ish, 3.. = random incl. near-boundary values
fn gen_int(lo: &BigInt, hi: &BigInt, mode: u64, rng: &mut Rng) -> BigInt {
    let clamp = |v: BigInt| if &v < lo { lo.clone() } else if &v > hi { hi.clone() } else { v };
    match mode {
        0 => lo.clone(),
        1 => hi.clone(),
        2 => clamp(BigInt::from(rng.below(2))),
        // the range-check bound: where hints and limb splits change behaviour (clamped into narrower types)
        3 => clamp((BigInt::one() << 128) - BigInt::from(rng.below(2)) + BigInt::from(rng.below(2))),
        _ => match rng.below(8) {
            0 => clamp(lo + BigInt::from(rng.below(3))),
            1 => clamp(hi - BigInt::from(rng.below(3))),
            2 => clamp(BigInt::from(rng.below(300))),
            3 => clamp(BigInt::from(rng.below(300)) - 150),
            4 => clamp((BigInt::one() << (rng.below(130) as u32)) - BigInt::from(rng.below(2))),
            _ => {
                let span = hi - lo + 1;
                lo + (rng.bits(256) % span)
            }
        },
    }
}

fn felt(v: &BigInt) -> Felt252 {
    let p = stark_prime();
    Felt252::from(((v % &p) + &p) % &p)
}

fn gen_args(s: &Shape, mode: u64, rng: &mut Rng, out: &mut Vec<Arg>, shown: &mut Vec<String>) {
    match s {
        Shape::Int(lo, hi) => {
            let v = gen_int(lo, hi, mode, rng);
            shown.push(v.to_string());
            out.push(Arg::Value(felt(&v)));
        }
        Shape::NonZero(inner) => {
            let start = out.len();
            let sstart = shown.len();
            gen_args(inner, mode, rng, out, shown);
            // all-zero would not be a value of NonZero<T>: make the first cell one
            let zero = out[start..].iter().all(|a| matches!(a, Arg::Value(v) if *v == Felt252::from(0)));
            if zero {
                if let Some(Arg::Value(v)) = out.get_mut(start) {
                    *v = Felt252::from(1);
                    shown[sstart] = "1".into();
                }
            }
        }
        Shape::Tuple(parts) => {
            for p in parts {
                gen_args(p, mode, rng, out, shown);
            }
        }
        Shape::Array(elem) => {
            let n = match mode {
                0 => 0,
                1 => 3,
                2 => 1,
                _ => rng.below(6),
            };
            let mut inner = vec![];
            let mut ishown = vec![];
            for _ in 0..n {
                gen_args(elem, 3 + rng.below(3), rng, &mut inner, &mut ishown);
            }
            shown.push(format!("[{}]", ishown.join(",")));
            out.push(Arg::Array(inner));
        }
    }
}

// ------------------------------------------------------------------------------------------------
// one compiled program under one metadata configuration
// ------------------------------------------------------------------------------------------------
struct Failure {
    leg: &'static str,
    program: String,
    function: String,
    args: String,
    gas: Option<usize>,
    solver: &'static str,
    what: String,
}
impl Failure {
    fn json(&self) -> Value {
        json!({"leg": self.leg, "program": self.program, "function": self.function, "args": self.args,
               "gas": self.gas, "solver": self.solver, "what": self.what})
    }
}

#[derive(Default)]
struct Stats {
    selfchecks: u64,
    sources: usize,
    compiled: usize,
    not_compiled: usize,
    configs_built: usize,
    mutants_tried: usize,
    mutants_accepted: usize,
    configs_refused: Vec<String>,
    functions_seen: usize,
    functions_runnable: usize,
    runs: usize,
    runs_ok: usize,
    runs_success_value: usize,
    runs_panic_value: usize,
    runs_not_enough_gas_to_call: usize,
    vm_errors: usize,
    c04_checked: usize,
    c04_max_ratio_permille: u64,
    c17_call_instances: usize,
    c17_call_instances_declared: usize,
    c17_trace_pcs: usize,
    c17_const_segment_pcs: usize,
    cross_checked: usize,
    distinct_traces: std::collections::BTreeSet<u64>,
    builtin_uses: BTreeMap<String, usize>,
    samples: Vec<String>,
}

struct Layout {
    /// (start, end) of every statement, by index
    ranges: Vec<(usize, usize)>,
    is_return: Vec<bool>,
    code_end: usize,
    const_rets: Vec<usize>,
    program_len: usize,
    /// entry offset -> (function name, declared ap change)
    entries: BTreeMap<usize, Vec<(String, Option<usize>)>>,
}

fn layout_of(b: &RunnableBuilder) -> Layout {
    let casm = b.casm_program();
    let prog = b.sierra_program();
    let infos = &casm.debug_info.sierra_statement_info;
    let ranges: Vec<(usize, usize)> = infos.iter().map(|s| (s.start_offset, s.end_offset)).collect();
    let is_return = prog.statements.iter().map(|s| matches!(s, Statement::Return(_))).collect();
    let code_end: usize = casm.instructions.iter().map(|i| i.body.op_size()).sum();
    let mut const_rets = vec![];
    let mut off = code_end;
    for seg in casm.consts_info.segments.values() {
        const_rets.push(off);
        off += 1 + seg.values.len();
    }
    let mut entries: BTreeMap<usize, Vec<(String, Option<usize>)>> = BTreeMap::new();
    for f in &prog.funcs {
        let start = ranges.get(f.entry_point.0).map(|r| r.0).unwrap_or(usize::MAX);
        let k = b.metadata().ap_change_info.function_ap_change.get(&f.id).copied();
        entries.entry(start).or_default().push((f.id.to_string(), k));
    }
    Layout { ranges, is_return, code_end, const_rets, program_len: off, entries }
}

impl Layout {
    /// the statements whose non-empty recorded range contains `rel`
    fn statements_at(&self, rel: usize) -> Vec<usize> {
        // ranges are sorted by start: binary search for the last start <= rel, then look around it
        let mut lo = 0usize;
        let mut hi = self.ranges.len();
        while lo < hi {
            let mid = (lo + hi) / 2;
            if self.ranges[mid].0 <= rel { lo = mid + 1 } else { hi = mid }
        }
        let mut res = vec![];
        let mut i = lo;
        while i > 0 {
            i -= 1;
            let (s, e) = self.ranges[i];
            if s <= rel && rel < e {
                res.push(i);
            }
            if e <= rel && s < e && res.is_empty() && lo - i > 4 {
                break;
            }
            if lo - i > 64 {
                break;
            }
        }
        res
    }
}

struct Ctx<'a> {
    program_name: &'a str,
    solver: &'static str,
    runner: &'a SierraCasmRunner,
    builder: &'a RunnableBuilder,
    layout: &'a Layout,
}

struct RunOut {
    gas_left: Option<BigInt>,
    n_steps: usize,
}

fn price_of_builtin(name: &BuiltinName) -> Option<u64> {
    Some(match name {
        BuiltinName::range_check => 70,
        BuiltinName::range_check96 => 56,
        BuiltinName::pedersen => token_gas_cost(CostTokenType::Pedersen) as u64,
        BuiltinName::poseidon => token_gas_cost(CostTokenType::Poseidon) as u64,
        BuiltinName::bitwise => token_gas_cost(CostTokenType::Bitwise) as u64,
        BuiltinName::ec_op => token_gas_cost(CostTokenType::EcOp) as u64,
        BuiltinName::add_mod => token_gas_cost(CostTokenType::AddMod) as u64,
        BuiltinName::mul_mod => token_gas_cost(CostTokenType::MulMod) as u64,
        _ => return None,
    })
}

/// One run through the low-level path (so that the relocated trace is available) with the three
/// oracles.  `Err(what)` only for conditions that are not about the properties (argument mismatch).
fn one_run(
    cx: &Ctx,
    func: &Function,
    args: &[Arg],
    shown: &str,
    gas: usize,
    stats: &mut Stats,
    failures: &mut Vec<Failure>,
) -> Result<Option<RunOut>, String> {
    let fname = func.id.to_string();
    let mut fail = |leg: &'static str, what: String, failures: &mut Vec<Failure>| {
        failures.push(Failure {
            leg,
            program: cx.program_name.to_string(),
            function: fname.clone(),
            args: shown.to_string(),
            gas: Some(gas),
            solver: cx.solver,
            what,
        });
    };
    let prepared = catch(AssertUnwindSafe(|| {
        cx.runner.prepare_starknet_context(func, args.to_vec(), Some(gas), StarknetState::default())
    }));
    let (mut hint_processor, pctx) = match prepared {
        Ok(Ok(x)) => x,
        Ok(Err(RunnerError::NotEnoughGasToCall)) => {
            stats.runs_not_enough_gas_to_call += 1;
            return Ok(None);
        }
        Ok(Err(e)) => return Err(format!("{e}")),
        Err(p) => {
            stats.runs += 1;
            fail("C02", format!("the runner panicked while preparing the run: {p} @ {}", last_panic_location()), failures);
            return Ok(None);
        }
    };
    stats.runs += 1;
    let data_len = pctx.bytecode.len();
    let res = catch(AssertUnwindSafe(|| {
        run_function(pctx.bytecode.iter(), pctx.builtins.clone(), |vm| initialize_vm(vm, data_len), &mut hint_processor, pctx.hints_dict)
    }));
    let RunFunctionResult { ap, used_resources, memory, relocated_trace } = match res {
        Ok(Ok(r)) => r,
        Ok(Err(e)) => {
            stats.vm_errors += 1;
            let msg: String = format!("{e}").chars().take(600).collect();
            fail("C02", format!("VM-level failure (RunnerError::CairoRunError): {msg}"), failures);
            return Ok(None);
        }
        Err(p) => {
            stats.vm_errors += 1;
            fail("C02", format!("the VM run panicked: {p} @ {}", last_panic_location()), failures);
            return Ok(None);
        }
    };
    stats.runs_ok += 1;
    // ---- what SierraCasmRunner::run_function does with the trace ----
    let header_end = relocated_trace.last().map(|e| e.pc).unwrap_or(0);
    let lead = relocated_trace.iter().position(|e| e.pc > header_end).unwrap_or(0);
    let tail = relocated_trace.iter().rev().position(|e| e.pc > header_end).unwrap_or(0);
    let n_steps = used_resources.n_steps.saturating_sub(lead + tail);
    let load_offset = header_end + 1;
    let return_types = cx.builder.generic_id_and_size_from_concrete(&func.signature.ret_types);
    let gas_left: Option<BigInt> = match catch(AssertUnwindSafe(|| cx.runner.get_results_data(&return_types, &memory, ap))) {
        Ok((_, g)) => g.map(|f| f.to_bigint()),
        Err(p) => {
            fail("C02", format!("reading the results panicked: {p} @ {}", last_panic_location()), failures);
            return Ok(None);
        }
    };
    // ---- C04: 100*steps + 70*range_checks + sum price(b)*uses(b) <= (g - gas_left) + 100 ----
    let mut actual: u64 = 100 * n_steps as u64;
    let mut uses = vec![];
    for (name, count) in used_resources.builtin_instance_counter.iter() {
        if *count == 0 {
            continue;
        }
        *stats.builtin_uses.entry(name.to_str().to_string()).or_insert(0) += *count;
        if let Some(pr) = price_of_builtin(name) {
            actual += pr * *count as u64;
            uses.push(format!("{}x{}", name.to_str(), count));
        }
    }
    let required = cx.runner.initial_required_gas(func);
    let charged: Option<BigInt> = match (&gas_left, required) {
        (Some(left), _) => Some(BigInt::from(gas) - left + 100),
        // no gas counter in the signature: the function's declared entry cost must cover the run
        (None, Some(req)) => Some(BigInt::from(req) + 100),
        (None, None) => None,
    };
    if let Some(ch) = &charged {
        stats.c04_checked += 1;
        if ch.sign() == num_bigint::Sign::Plus {
            let ratio = (BigInt::from(actual) * 1000u32 / ch).to_string().parse::<u64>().unwrap_or(u64::MAX);
            stats.c04_max_ratio_permille = stats.c04_max_ratio_permille.max(ratio);
        }
        if BigInt::from(actual) > *ch {
            fail(
                "C04",
                format!(
                    "actual cost {} (= 100*{} steps + builtins [{}]) exceeds gas charged {} (= given {} - left {} + 100; entry cost {:?})",
                    actual,
                    n_steps,
                    uses.join(", "),
                    ch,
                    gas,
                    gas_left.as_ref().map(|g| g.to_string()).unwrap_or_else(|| "n/a".into()),
                    required
                ),
                failures,
            );
        }
        if let Some(left) = &gas_left {
            if left.sign() == num_bigint::Sign::Minus || *left > BigInt::from(gas) {
                fail("C04", format!("gas counter after the run is {left}, given {gas}"), failures);
            }
        }
    }
    // ---- C17: ap movement of every dynamic call instance; every pc in exactly one statement ----
    let lay = cx.layout;
    let mut stack: Vec<(String, Option<usize>, usize, usize)> = vec![]; // (function, k, ap_entry, fp)
    let mut prev_fp: Option<usize> = None;
    let mut h = std::collections::hash_map::DefaultHasher::new();
    use std::hash::Hasher;
    for e in relocated_trace.iter() {
        if e.pc <= header_end {
            prev_fp = Some(e.fp);
            continue;
        }
        let rel = e.pc - load_offset;
        h.write_usize(rel);
        stats.c17_trace_pcs += 1;
        if rel >= lay.code_end {
            // the const segments' `ret`s and the runner's one-instruction footer (`ret` right after the
            // program, used by libfuncs that read pc/fp through `call rel`) are the only executable
            // words beyond the statements
            if lay.const_rets.contains(&rel) || rel == lay.program_len {
                stats.c17_const_segment_pcs += 1;
            } else {
                fail("C17", format!("traced pc {rel} (relative to the program) lies beyond the code ({}), not on a const-segment ret; program length {}", lay.code_end, lay.program_len), failures);
                break;
            }
            prev_fp = Some(e.fp);
            continue;
        }
        let sts = lay.statements_at(rel);
        if sts.len() != 1 {
            fail("C17", format!("traced pc {rel} lies in the recorded ranges of {} statements {:?}", sts.len(), sts), failures);
            break;
        }
        // function entry: reached by a call (fp changed, ap == fp) at the entry offset of a function
        if prev_fp != Some(e.fp) && e.ap == e.fp {
            if let Some(fs) = lay.entries.get(&rel) {
                let (name, k) = fs[0].clone();
                let k = if fs.iter().all(|x| x.1 == k) { k } else { None };
                stack.push((name, k, e.ap, e.fp));
            }
        }
        if lay.is_return[sts[0]] {
            if let Some(top) = stack.last() {
                if top.3 == e.fp {
                    let (name, k, ap0, _) = stack.pop().unwrap();
                    stats.c17_call_instances += 1;
                    if let Some(k) = k {
                        stats.c17_call_instances_declared += 1;
                        if e.ap < ap0 || e.ap - ap0 != k {
                            fail(
                                "C17",
                                format!(
                                    "call instance of {name}: ap at ret - ap at entry = {} but function_ap_change declares {k} (ret at pc {rel}, depth {})",
                                    e.ap as i64 - ap0 as i64,
                                    stack.len()
                                ),
                                failures,
                            );
                        }
                    }
                }
            }
        }
        prev_fp = Some(e.fp);
    }
    stats.distinct_traces.insert(h.finish());
    Ok(Some(RunOut { gas_left, n_steps }))
}

/// `mutant`: the program is an accepted mutant of a compiled one - linear configuration only, fewer
/// vectors and budgets, counted separately.
fn run_program(
    name: &str,
    crate_prefix: &str,
    program: &Program,
    mutant: bool,
    thorough: bool,
    seed: u64,
    stats: &mut Stats,
    failures: &mut Vec<Failure>,
) -> bool {
    let mut any_built = false;
    let configs: &[(&'static str, bool)] = if mutant { &[("linear", true)] } else { &[("linear", true), ("nonlinear", false)] };
    for (solver, linear) in configs.iter().copied() {
        let cfg = MetadataComputationConfig {
            linear_gas_solver: linear,
            linear_ap_change_solver: linear,
            // the cross-check of the two solvers is a C14 matter (it panics on valid programs)
            skip_non_linear_solver_comparisons: true,
            ..Default::default()
        };
        let built = catch(AssertUnwindSafe(|| {
            let b = RunnableBuilder::new(program.clone(), Some(cfg.clone())).map_err(|e| format!("{e}"))?;
            let r = SierraCasmRunner::new(program.clone(), Some(cfg.clone()), Default::default(), None)
                .map_err(|e| format!("{e}"))?;
            Ok::<_, String>((b, r))
        }));
        let (builder, runner) = match built {
            Ok(Ok(x)) => x,
            Ok(Err(e)) => {
                if !mutant {
                    stats.configs_refused.push(format!("{name}[{solver}]: {}", e.chars().take(120).collect::<String>()));
                }
                continue;
            }
            Err(p) => {
                if !mutant {
                    stats.configs_refused.push(format!("{name}[{solver}]: panic {} @ {}", p.chars().take(80).collect::<String>(), last_panic_location()));
                }
                continue;
            }
        };
        any_built = true;
        if mutant {
            stats.mutants_accepted += 1;
        } else {
            stats.configs_built += 1;
        }
        let layout = layout_of(&builder);
        let cx = Ctx { program_name: name, solver, runner: &runner, builder: &builder, layout: &layout };
        for func in &program.funcs {
            let fname = func.id.to_string();
            if !fname.starts_with(crate_prefix) {
                continue;
            }
            if linear && !mutant {
                stats.functions_seen += 1;
            }
            // user parameters
            let mut shapes = vec![];
            let mut ok = true;
            for ty in &func.signature.param_types {
                let g = &builder.type_long_id(ty).generic_id;
                if !builder.is_user_arg_type(g) {
                    continue;
                }
                match shape_of(&builder, ty, 0) {
                    Some(s) => shapes.push(s),
                    None => ok = false,
                }
            }
            if !ok {
                continue;
            }
            if linear && !mutant {
                stats.functions_runnable += 1;
            }
            let mut rng = Rng(seed ^ fnv(&fname) ^ fnv(name));
            let n_vectors = if shapes.is_empty() { 1 } else if mutant { 3 } else if thorough { 40 } else { 6 };
            for v in 0..n_vectors {
                let mut args = vec![];
                let mut shown = vec![];
                for s in &shapes {
                    // vector 0: all minima, 1: all maxima, 2: zero/one, then per-parameter mixes
                    let mode = if v < 4 { v as u64 } else { rng.below(6) };
                    gen_args(s, mode, &mut rng, &mut args, &mut shown);
                }
                let shown = shown.join(", ");
                let required = runner.initial_required_gas(func).unwrap_or(0);
                // a large budget first; then the exact consumption, one less, the bare entry cost, tiny
                let large = required + 10_000_000;
                let first = match one_run(&cx, func, &args, &shown, large, stats, failures) {
                    Ok(x) => x,
                    Err(_) => break, // argument shape not accepted by the runner: not a property matter
                };
                let mut budgets: Vec<usize> = vec![required, required + 1, required + 100, required + 3000];
                if required > 0 {
                    budgets.push(required - 1);
                    budgets.push(0);
                }
                if let Some(out) = &first {
                    if let Some(left) = &out.gas_left {
                        if let Ok(left) = left.to_string().parse::<usize>() {
                            let used = large.saturating_sub(left);
                            budgets.push(used);
                            budgets.push(used.saturating_sub(1));
                            budgets.push(used + 1);
                        }
                    }
                    if stats.samples.len() < 8 && v == 1 && !mutant {
                        stats.samples.push(format!(
                            "{name}: {fname}({shown}) gas {large} [{solver}] -> {} steps, gas left {:?}",
                            out.n_steps,
                            out.gas_left.as_ref().map(|g| g.to_string())
                        ));
                    }
                    // cross-check with the public API on the same input
                    let user_rets = func
                        .signature
                        .ret_types
                        .iter()
                        .filter(|t| builder.is_user_arg_type(&builder.type_long_id(t).generic_id))
                        .count();
                    // (SierraCasmRunner::run_function documents: "no other ref params")
                    // self-checking functions (`chk_*`, instantiation zoo): written so that the source-level result
                    // is `true` for every argument; anything else is a wrong value (leg C01)
                    let is_chk = !mutant && fname.rsplit("::").next().map(|l| l.starts_with("chk_") && l.chars().all(|c| c.is_ascii_alphanumeric() || c == '_')).unwrap_or(false);
                    if (v < 2 || is_chk) && user_rets <= 1 && !mutant {
                        let r = catch(AssertUnwindSafe(|| {
                            runner.run_function_with_starknet_context(func, args.clone(), Some(large), StarknetState::default())
                        }));
                        match r {
                            Ok(Ok(r)) => {
                                stats.cross_checked += 1;
                                match &r.value {
                                    RunResultValue::Success(_) => stats.runs_success_value += 1,
                                    RunResultValue::Panic(_) => stats.runs_panic_value += 1,
                                }
                                if is_chk {
                                    stats.selfchecks += 1;
                                    let good = matches!(&r.value, RunResultValue::Success(v) if v.len() == 1 && v[0] == Felt252::from(1u8));
                                    if !good {
                                        failures.push(Failure {
                                            leg: "C01",
                                            program: name.to_string(),
                                            function: fname.clone(),
                                            args: shown.clone(),
                                            gas: Some(large),
                                            solver,
                                            what: format!(
                                                "a self-checking function (true for every argument by construction) returned {:?}",
                                                match &r.value {
                                                    RunResultValue::Success(v) => format!("Success({:?})", v.iter().map(|f| f.to_string()).collect::<Vec<_>>()),
                                                    RunResultValue::Panic(v) => format!("Panic({:?})", v.iter().map(|f| f.to_string()).collect::<Vec<_>>()),
                                                }
                                            ),
                                        });
                                    }
                                }
                                let g = r.gas_counter.map(|f| f.to_bigint());
                                if g != out.gas_left || r.used_resources.basic_resources.n_steps != out.n_steps {
                                    failures.push(Failure {
                                        leg: "C02",
                                        program: name.to_string(),
                                        function: fname.clone(),
                                        args: shown.clone(),
                                        gas: Some(large),
                                        solver,
                                        what: format!(
                                            "harness self-check: run_function_with_starknet_context reports gas {:?} / {} steps, the low-level path {:?} / {}",
                                            g, r.used_resources.basic_resources.n_steps, out.gas_left, out.n_steps
                                        ),
                                    });
                                }
                            }
                            Ok(Err(e)) => failures.push(Failure {
                                leg: "C02",
                                program: name.to_string(),
                                function: fname.clone(),
                                args: shown.clone(),
                                gas: Some(large),
                                solver,
                                what: format!("run_function_with_starknet_context fails where the low-level run succeeded: {e}"),
                            }),
                            Err(p) => failures.push(Failure {
                                leg: "C02",
                                program: name.to_string(),
                                function: fname.clone(),
                                args: shown.clone(),
                                gas: Some(large),
                                solver,
                                what: format!("run_function_with_starknet_context panicked: {p} @ {}", last_panic_location()),
                            }),
                        }
                    }
                }
                budgets.sort();
                budgets.dedup();
                let nb = if mutant { 2 } else if thorough { budgets.len() } else { budgets.len().min(6) };
                for g in budgets.into_iter().rev().take(nb) {
                    if one_run(&cx, func, &args, &shown, g, stats, failures).is_err() {
                        break;
                    }
                }
            }
        }
    }
    any_built
}

/// Accepted mutants of a compiled program must run to completion as well ("accepted => safe" does not
/// depend on the program having come out of the Cairo compiler).
fn run_mutants(name: &str, program: &Program, thorough: bool, seed: u64, out_dir: &str, stats: &mut Stats, failures: &mut Vec<Failure>) {
    use h14lib::mutate;
    let n = program.statements.len();
    if n == 0 || n > 400 {
        return;
    }
    let mut rng = Rng(seed ^ fnv(name) ^ 0x6d75);
    let mut ms = mutate::enumerate(program, &mut rng, 0..n, true);
    // declaration-level value edits and statement-level edits are both wanted: sample uniformly
    let budget = if thorough { 300 } else { 10 };
    let crate_prefix = format!("{name}::");
    for _ in 0..budget {
        if ms.is_empty() {
            break;
        }
        let k = rng.below(ms.len() as u64) as usize;
        let m = ms.swap_remove(k);
        let Ok(q) = catch(AssertUnwindSafe(|| mutate::apply(program, &m))) else { continue };
        // a function whose `signature.param_types` differs from the types of its `params` exists only
        // as an in-memory Program (the felt252 deserialiser derives one from the other; the runner
        // builds its entry code from the signature): not an input of the property
        if q.funcs.iter().any(|f| f.signature.param_types.iter().ne(f.params.iter().map(|p| &p.ty))) {
            continue;
        }
        // the runner passes the gas counter / builtins by the compiler's convention (implicits first, in
        // its order): a mutant with an edited function table would be run with misplaced arguments,
        // which says nothing about the program - keep the function table as the compiler emitted it
        if q.funcs.len() != program.funcs.len()
            || q.funcs.iter().zip(program.funcs.iter()).any(|(a, b)| a.id != b.id || a.signature != b.signature || a.params != b.params)
        {
            continue;
        }
        stats.mutants_tried += 1;
        let label = format!("{name}~{}", m.name());
        let before = failures.len();
        run_program(&label, &crate_prefix, &q, true, thorough, seed, stats, failures);
        if failures.len() > before {
            // keep the mutant itself for the replay
            let path = format!("{out_dir}/mutant_{:x}.json", fnv(&label));
            let _ = std::fs::write(&path, serde_json::to_string(&json!({"mutation": format!("{:?}", m), "source": name,
                "program_json": serde_json::to_value(&q).unwrap_or(Value::Null)})).unwrap());
            for f in failures[before..].iter_mut() {
                f.what = format!("{} [accepted mutant, program in {}]", f.what, path);
            }
        }
    }
}

// ------------------------------------------------------------------------------------------------
// worker: compile a batch of sources with one database, run them
// ------------------------------------------------------------------------------------------------
/// Gas-free compilation (H14_NO_GAS): only the self-checking `chk_*` functions are run, through the public API, without a
/// gas counter (what `cairo-run` does without --available-gas).  Optimisation passes see different block structures
/// without the gas statements, so this is a second compilation of the same sources, not a repetition.
fn run_selfchecks_nogas(name: &str, crate_prefix: &str, program: &Program, thorough: bool, seed: u64, stats: &mut Stats, failures: &mut Vec<Failure>) {
    let built = catch(AssertUnwindSafe(|| {
        let b = RunnableBuilder::new(program.clone(), None).map_err(|e| format!("{e}"))?;
        let r = SierraCasmRunner::new(program.clone(), None, Default::default(), None).map_err(|e| format!("{e}"))?;
        Ok::<_, String>((b, r))
    }));
    let (builder, runner) = match built {
        Ok(Ok(x)) => x,
        Ok(Err(e)) => {
            stats.configs_refused.push(format!("{name}[nogas]: {}", e.chars().take(120).collect::<String>()));
            return;
        }
        Err(p) => {
            failures.push(Failure { leg: "C02", program: name.to_string(), function: String::new(), args: String::new(), gas: None, solver: "nogas",
                what: format!("building the runner panicked: {p} @ {}", last_panic_location()) });
            return;
        }
    };
    stats.configs_built += 1;
    for func in &program.funcs {
        let fname = func.id.to_string();
        if !fname.starts_with(crate_prefix) {
            continue;
        }
        let is_chk = fname.rsplit("::").next().map(|l| l.starts_with("chk_") && l.chars().all(|c| c.is_ascii_alphanumeric() || c == '_')).unwrap_or(false);
        if !is_chk {
            continue;
        }
        let mut shapes = vec![];
        let mut ok = true;
        for ty in &func.signature.param_types {
            let g = &builder.type_long_id(ty).generic_id;
            if !builder.is_user_arg_type(g) {
                continue;
            }
            match shape_of(&builder, ty, 0) {
                Some(s) => shapes.push(s),
                None => ok = false,
            }
        }
        if !ok {
            continue;
        }
        stats.functions_runnable += 1;
        let mut rng = Rng(seed ^ fnv(&fname) ^ fnv(name));
        let n_vectors = if thorough { 40 } else { 8 };
        for v in 0..n_vectors {
            let mut args = vec![];
            let mut shown = vec![];
            for s in &shapes {
                let mode = if v < 4 { v as u64 } else { rng.below(6) };
                gen_args(s, mode, &mut rng, &mut args, &mut shown);
            }
            let shown = shown.join(", ");
            stats.runs += 1;
            let r = catch(AssertUnwindSafe(|| runner.run_function_with_starknet_context(func, args.clone(), None, StarknetState::default())));
            let what = match r {
                Ok(Ok(r)) => {
                    stats.runs_ok += 1;
                    stats.selfchecks += 1;
                    if matches!(&r.value, RunResultValue::Success(v) if v.len() == 1 && v[0] == Felt252::from(1u8)) {
                        continue;
                    }
                    format!(
                        "a self-checking function (true for every argument by construction) returned {:?} (compiled without gas)",
                        match &r.value {
                            RunResultValue::Success(v) => format!("Success({:?})", v.iter().map(|f| f.to_string()).collect::<Vec<_>>()),
                            RunResultValue::Panic(v) => format!("Panic({:?})", v.iter().map(|f| f.to_string()).collect::<Vec<_>>()),
                        }
                    )
                }
                Ok(Err(e)) => {
                    stats.vm_errors += 1;
                    format!("the run of a self-checking function failed (compiled without gas): {}", format!("{e}").chars().take(300).collect::<String>())
                }
                Err(p) => format!("the run of a self-checking function panicked (compiled without gas): {p} @ {}", last_panic_location()),
            };
            failures.push(Failure { leg: "C01", program: name.to_string(), function: fname.clone(), args: shown, gas: None, solver: "nogas", what });
        }
    }
}

fn worker_main(batch_file: &str, result_file: &str) {
    quiet_panics();
    let lim = libc::rlimit { rlim_cur: 12u64 << 30, rlim_max: 12u64 << 30 };
    unsafe {
        libc::setrlimit(libc::RLIMIT_AS, &lim);
    }
    let batch: Value = serde_json::from_str(&std::fs::read_to_string(batch_file).expect("batch")).expect("json");
    let thorough = batch["tier"].as_str() == Some("thorough");
    let seed = batch["seed"].as_u64().unwrap_or(1);
    let files: Vec<String> = batch["files"].as_array().unwrap().iter().filter_map(|x| x.as_str().map(String::from)).collect();
    let mut stats = Stats::default();
    let mut failures: Vec<Failure> = vec![];
    let mut not_compiled: Vec<String> = vec![];
    let progress = format!("{result_file}.inflight");
    let mut b = RootDatabase::builder();
    // assert_eq! & co (bug samples are written as tests) and the starknet plugin (contracts)
    b.with_default_plugin_suite(cairo_lang_test_plugin::test_assert_suite());
    b.with_default_plugin_suite(cairo_lang_starknet::starknet_plugin_suite());
    // H14_NO_GAS=1: compile as `cairo-run` does without --available-gas (no automatic withdraw_gas, cfg gas: "disabled")
    if std::env::var("H14_NO_GAS").is_ok() {
        b.skip_auto_withdraw_gas();
        b.with_cfg(cairo_lang_filesystem::cfg::CfgSet::from_iter([cairo_lang_filesystem::cfg::Cfg::kv("gas", "disabled")]));
    }
    let mut db = b.build().expect("RootDatabase");
    init_dev_corelib(&mut db, PathBuf::from(corelib()));
    for f in &files {
        stats.sources += 1;
        let name = Path::new(f).file_stem().unwrap().to_string_lossy().to_string();
        let _ = std::fs::write(&progress, f);
        let compiled = catch(AssertUnwindSafe(|| -> Result<Program, String> {
            let inputs = setup_project(&mut db, Path::new(f)).map_err(|e| format!("{e:?}"))?;
            // same crate, with the experimental features the e2e test crates enable
            {
                let dir = Path::new(f).canonicalize().map_err(|e| e.to_string())?.parent().unwrap().to_path_buf();
                let mut cfg = CrateConfiguration::default_for_root(Directory::Real(dir));
                cfg.settings.experimental_features = ExperimentalFeaturesConfig {
                    negative_impls: true,
                    associated_item_constraints: true,
                    coupons: true,
                    user_defined_inline_macros: true,
                    repr_ptrs: true,
                };
                let crate_configs = {
                    let crate_id = CrateId::plain(&db, SmolStrId::from(&db, name.as_str()));
                    cairo_lang_filesystem::db::update_crate_configuration_input_helper(&db, crate_id, Some(cfg))
                };
                cairo_lang_filesystem::db::set_crate_configs_input(&mut db, Some(crate_configs));
            }
            let mut s = String::new();
            let failed = DiagnosticsReporter::write_to_string(&mut s).with_crates(&inputs).allow_warnings().check(&db);
            if failed {
                return Err(s.chars().take(300).collect());
            }
            let dbr = &db;
            let crate_ids = CrateInput::into_crate_ids(dbr, inputs);
            let prog = dbr.get_sierra_program(crate_ids).map_err(|_| "no sierra program".to_string())?.clone();
            let mut sierra = prog.program;
            let replacer = DebugReplacer { db: dbr };
            replacer.enrich_function_names(&mut sierra);
            Ok(replacer.apply(&sierra))
        }));
        let program = match compiled {
            Ok(Ok(p)) => p,
            Ok(Err(e)) => {
                stats.not_compiled += 1;
                not_compiled.push(format!("{name}: {}", e.replace('\n', " ")));
                continue;
            }
            Err(p) => {
                stats.not_compiled += 1;
                not_compiled.push(format!("{name}: compiler panic {p} @ {}", last_panic_location()));
                continue;
            }
        };
        stats.compiled += 1;
        // H14_SIERRA_DUMP=<dir>: the freshly compiled program is written there as text (extra corpus of the
        // static legs of C15/C17/C04); H14_COMPILE_ONLY=1: nothing is run
        if let Ok(dir) = std::env::var("H14_SIERRA_DUMP") {
            if let Ok(t) = catch(AssertUnwindSafe(|| program.to_string())) {
                let _ = std::fs::write(format!("{dir}/cc_{name}.sierra"), t);
            }
        }
        if std::env::var("H14_COMPILE_ONLY").is_ok() {
            continue;
        }
        if std::env::var("H14_NO_GAS").is_ok() {
            run_selfchecks_nogas(&name, &format!("{name}::"), &program, thorough, seed, &mut stats, &mut failures);
            continue;
        }
        run_program(&name, &format!("{name}::"), &program, false, thorough, seed, &mut stats, &mut failures);
        let out_dir = Path::new(result_file).parent().map(|p| p.to_string_lossy().to_string()).unwrap_or_else(|| ".".into());
        run_mutants(&name, &program, thorough, seed, &out_dir, &mut stats, &mut failures);
        let _ = BigIntAsHex { value: BigInt::zero() };
    }
    let res = json!({
        "sources": stats.sources, "compiled": stats.compiled, "not_compiled": stats.not_compiled,
        "not_compiled_list": not_compiled,
        "mutants_tried": stats.mutants_tried, "mutants_accepted": stats.mutants_accepted,
        "configs_built": stats.configs_built, "configs_refused": stats.configs_refused,
        "functions_seen": stats.functions_seen, "functions_runnable": stats.functions_runnable,
        "runs": stats.runs, "runs_ok": stats.runs_ok, "runs_success_value": stats.runs_success_value,
        "runs_panic_value": stats.runs_panic_value, "runs_not_enough_gas_to_call": stats.runs_not_enough_gas_to_call,
        "vm_errors": stats.vm_errors, "c04_checked": stats.c04_checked,
        "c04_max_actual_over_charged_permille": stats.c04_max_ratio_permille,
        "c17_call_instances": stats.c17_call_instances, "c17_call_instances_declared": stats.c17_call_instances_declared,
        "c17_trace_pcs": stats.c17_trace_pcs, "c17_const_segment_pcs": stats.c17_const_segment_pcs,
        "cross_checked": stats.cross_checked, "selfchecks": stats.selfchecks,
        "distinct_traces": stats.distinct_traces.iter().map(|x| x >> 11).collect::<Vec<_>>(),
        "builtin_uses": stats.builtin_uses, "samples": stats.samples,
        "failures": failures.iter().map(|f| f.json()).collect::<Vec<_>>(),
    });
    std::fs::write(result_file, serde_json::to_string(&res).unwrap()).unwrap();
    let _ = std::fs::remove_file(&progress);
}

// ------------------------------------------------------------------------------------------------
// parent
// ------------------------------------------------------------------------------------------------
fn parent_main(src_dir: &str, out_dir: &str, tier: &str) {
    let t0 = Instant::now();
    std::fs::create_dir_all(out_dir).unwrap();
    let seed = Rng::from_env().0;
    let mut files: Vec<String> = std::fs::read_dir(src_dir)
        .unwrap()
        .filter_map(|e| e.ok())
        .map(|e| e.path().to_string_lossy().to_string())
        .filter(|p| p.ends_with(".cairo"))
        .collect();
    files.sort();
    let per_batch = 12;
    let batches: Vec<Vec<String>> = files.chunks(per_batch).map(|c| c.to_vec()).collect();
    let ncpu = std::thread::available_parallelism().map(|n| n.get()).unwrap_or(8);
    let nworkers: usize = std::env::var("H14_WORKERS").ok().and_then(|s| s.parse().ok()).unwrap_or(ncpu.clamp(2, 12));
    let timeout = Duration::from_secs(if tier == "thorough" { 1500 } else { 600 });
    let deadline: Option<Instant> =
        std::env::var("H14_DEADLINE_S").ok().and_then(|s| s.parse::<u64>().ok()).map(|s| t0 + Duration::from_secs(s));
    let next = Arc::new(AtomicUsize::new(0));
    let results: Arc<Mutex<Vec<Value>>> = Arc::new(Mutex::new(vec![]));
    let extra_failures: Arc<Mutex<Vec<Value>>> = Arc::new(Mutex::new(vec![]));
    let skipped = Arc::new(AtomicUsize::new(0));
    std::thread::scope(|sc| {
        for _ in 0..nworkers {
            let next = next.clone();
            let results = results.clone();
            let extra_failures = extra_failures.clone();
            let skipped = skipped.clone();
            let batches = &batches;
            sc.spawn(move || {
                loop {
                    let k = next.fetch_add(1, Ordering::SeqCst);
                    if k >= batches.len() {
                        break;
                    }
                    if let Some(d) = deadline {
                        if Instant::now() > d {
                            skipped.fetch_add(1, Ordering::SeqCst);
                            continue;
                        }
                    }
                    let bf = format!("{out_dir}/batch_{k}.json");
                    let rf = format!("{out_dir}/result_{k}.json");
                    let _ = std::fs::remove_file(&rf);
                    std::fs::write(&bf, serde_json::to_string(&json!({"files": batches[k], "tier": tier, "seed": seed})).unwrap()).unwrap();
                    let mut child = Command::new(std::env::current_exe().unwrap())
                        .arg("worker")
                        .arg(&bf)
                        .arg(&rf)
                        .stdin(Stdio::null())
                        .stdout(Stdio::null())
                        .stderr(std::fs::File::create(format!("{out_dir}/batch_{k}.err")).map(Stdio::from).unwrap_or_else(|_| Stdio::null()))
                        .spawn()
                        .expect("spawn");
                    let t = Instant::now();
                    let mut status = None;
                    while t.elapsed() < timeout {
                        match child.try_wait() {
                            Ok(Some(s)) => {
                                status = Some(s);
                                break;
                            }
                            _ => std::thread::sleep(Duration::from_millis(100)),
                        }
                    }
                    let inflight = std::fs::read_to_string(format!("{rf}.inflight")).unwrap_or_default();
                    if status.is_none() {
                        let _ = child.kill();
                        let _ = child.wait();
                        extra_failures.lock().unwrap().push(json!({
                            "leg": "C02", "program": inflight, "function": "", "args": "", "gas": null, "solver": "",
                            "what": format!("the worker compiling/running this source did not finish within {} s (hang or unbounded run)", timeout.as_secs())}));
                        continue;
                    }
                    match std::fs::read_to_string(&rf).ok().and_then(|t| serde_json::from_str::<Value>(&t).ok()) {
                        Some(v) => results.lock().unwrap().push(v),
                        None => {
                            let err = std::fs::read_to_string(format!("{out_dir}/batch_{k}.err")).unwrap_or_default();
                            extra_failures.lock().unwrap().push(json!({
                                "leg": "C02", "program": inflight, "function": "", "args": "", "gas": null, "solver": "",
                                "what": format!("the worker died ({:?}) while compiling/running this source: {}", status, err.lines().next().unwrap_or(""))}));
                        }
                    }
                }
            });
        }
    });
    let results = results.lock().unwrap();
    let mut sum: BTreeMap<String, u64> = BTreeMap::new();
    let mut maxr = 0u64;
    let mut failures: Vec<Value> = extra_failures.lock().unwrap().clone();
    let mut samples: Vec<String> = vec![];
    let mut refused: Vec<Value> = vec![];
    let mut not_compiled: Vec<Value> = vec![];
    let mut builtin_uses: BTreeMap<String, u64> = BTreeMap::new();
    let mut traces = std::collections::BTreeSet::new();
    for r in results.iter() {
        for (k, v) in r.as_object().unwrap() {
            if let Some(n) = v.as_u64() {
                if k == "c04_max_actual_over_charged_permille" {
                    maxr = maxr.max(n);
                } else {
                    *sum.entry(k.clone()).or_insert(0) += n;
                }
            }
        }
        failures.extend(r["failures"].as_array().cloned().unwrap_or_default());
        refused.extend(r["configs_refused"].as_array().cloned().unwrap_or_default());
        not_compiled.extend(r["not_compiled_list"].as_array().cloned().unwrap_or_default());
        for s in r["samples"].as_array().cloned().unwrap_or_default() {
            if samples.len() < 10 {
                samples.push(s.as_str().unwrap_or("").to_string());
            }
        }
        for (k, v) in r["builtin_uses"].as_object().cloned().unwrap_or_default() {
            *builtin_uses.entry(k).or_insert(0) += v.as_u64().unwrap_or(0);
        }
        for t in r["distinct_traces"].as_array().cloned().unwrap_or_default() {
            traces.insert(t.as_u64().unwrap_or(0));
        }
    }
    let mut summary = json!(sum);
    summary["c04_max_actual_over_charged_permille"] = json!(maxr);
    summary["distinct_traces"] = json!(traces.len());
    summary["builtin_uses"] = json!(builtin_uses);
    summary["configs_refused"] = json!(refused);
    summary["batches"] = json!(batches.len());
    summary["batches_skipped_by_deadline"] = json!(skipped.load(Ordering::SeqCst));
    summary["failures"] = json!(failures.len());
    summary["seconds"] = json!(t0.elapsed().as_secs_f64());
    std::fs::write(format!("{out_dir}/summary.json"), serde_json::to_string_pretty(&summary).unwrap()).unwrap();
    std::fs::write(format!("{out_dir}/runtime_failures.json"), serde_json::to_string_pretty(&failures).unwrap()).unwrap();
    std::fs::write(format!("{out_dir}/not_compiled.json"), serde_json::to_string_pretty(&not_compiled).unwrap()).unwrap();
    std::fs::write(format!("{out_dir}/samples.txt"), samples.join("\n")).unwrap();
    let mut o = std::io::stdout();
    let _ = writeln!(o, "{}", serde_json::to_string(&summary).unwrap());
}

fn main() {
    let args: Vec<String> = std::env::args().collect();
    match args.get(1).map(|s| s.as_str()) {
        Some("worker") if args.len() >= 4 => {
            let (a, b) = (args[2].clone(), args[3].clone());
            std::thread::Builder::new().stack_size(512 << 20).spawn(move || worker_main(&a, &b)).unwrap().join().ok();
        }
        Some(_) if args.len() >= 4 => parent_main(&args[1], &args[2], &args[3]),
        _ => {
            eprintln!("usage: h14run <sources_dir> <out_dir> <quick|thorough> | h14run worker <batch.json> <result.json>");
            std::process::exit(2);
        }
    }
    let _ = EntryCodeConfig::testing();
}
