//! The entry points of the Sierra pipeline, each run under `catch_unwind`.
use std::panic::AssertUnwindSafe;

use cairo_lang_sierra::program::Program;
use cairo_lang_sierra_to_casm::compiler::{CairoProgram, SierraToCasmConfig, compile};
use cairo_lang_sierra_to_casm::metadata::{
    Metadata, MetadataComputationConfig, calc_metadata, calc_metadata_ap_change_only,
};
use cairo_lang_sierra_type_size::ProgramRegistryInfo;
use vcommon::{catch, last_panic_location};

#[derive(Clone, Debug)]
pub struct Panic {
    /// entry point that panicked
    pub at: String,
    /// normalised `file:line`
    pub loc: String,
    pub msg: String,
}

/// `/repo/crates/x/src/y.rs:12` -> `crates/x/src/y.rs:12`; registry crates -> `<crate-ver>/src/..`.
pub fn norm_loc(loc: &str) -> String {
    if let Some(r) = loc.strip_prefix("/repo/") {
        return r.to_string();
    }
    // a scratch worktree of /repo (seeded evaluation): same normal form
    if let Some(k) = loc.find("/crates/cairo-lang-") {
        return loc[k + 1..].to_string();
    }
    if let Some(k) = loc.find("/registry/src/") {
        let rest = &loc[k + "/registry/src/".len()..];
        if let Some(j) = rest.find('/') {
            return rest[j + 1..].to_string();
        }
    }
    loc.to_string()
}

/// Message class: digits collapsed, truncated (so that one site with varying numbers is one class).
pub fn msg_class(msg: &str) -> String {
    let mut out = String::new();
    let mut prev_digit = false;
    for c in msg.chars() {
        if c.is_ascii_digit() {
            if !prev_digit {
                out.push('N');
            }
            prev_digit = true;
        } else {
            prev_digit = false;
            out.push(if c == '\n' { ' ' } else { c });
        }
        if out.len() >= 160 {
            break;
        }
    }
    out
}

pub fn guarded<T>(at: &str, f: impl FnOnce() -> T) -> Result<T, Panic> {
    catch(AssertUnwindSafe(f)).map_err(|msg| Panic {
        at: at.to_string(),
        loc: norm_loc(&last_panic_location()),
        msg: msg.chars().take(400).collect(),
    })
}

#[derive(Clone, Copy, Debug, PartialEq, Eq)]
pub enum Solver {
    Linear,
    /// equation solver, with the comparison against the linear solution (the configuration
    /// `from_contract_class` uses for Sierra < 1.4 classes)
    NonLinear,
    /// equation solver, `skip_non_linear_solver_comparisons: true`
    NonLinearSkip,
}
impl Solver {
    pub fn name(&self) -> &'static str {
        match self {
            Solver::Linear => "linear",
            Solver::NonLinear => "nonlinear",
            Solver::NonLinearSkip => "nonlinear-skipcmp",
        }
    }
    pub fn parse(s: &str) -> Solver {
        match s {
            "nonlinear" => Solver::NonLinear,
            "nonlinear-skipcmp" => Solver::NonLinearSkip,
            _ => Solver::Linear,
        }
    }
    pub fn config(&self) -> MetadataComputationConfig {
        let linear = *self == Solver::Linear;
        MetadataComputationConfig {
            linear_gas_solver: linear,
            linear_ap_change_solver: linear,
            skip_non_linear_solver_comparisons: *self == Solver::NonLinearSkip,
            ..Default::default()
        }
    }
}

pub struct Outcome {
    /// per solver: registry | metadata | compile | accepted (the stage that answered) and its message
    pub stages: Vec<(Solver, &'static str, String)>,
    pub panics: Vec<Panic>,
    /// registry info + (metadata, CASM) of the first solver that accepted
    pub accepted: Option<(ProgramRegistryInfo, Metadata, CairoProgram)>,
}
impl Outcome {
    pub fn accepted_by_all(&self) -> bool {
        !self.stages.is_empty() && self.stages.iter().all(|s| s.1 == "accepted")
    }
    pub fn summary(&self) -> String {
        self.stages.iter().map(|(s, st, _)| format!("{}:{}", s.name(), st)).collect::<Vec<_>>().join(",")
    }
}

/// ProgramRegistryInfo::new, then for every solver calc_metadata(solver) -> compile(gas check on);
/// when the gas metadata is refused also calc_metadata_ap_change_only -> compile(gas check off).
pub fn run_pipeline(program: &Program, solvers: &[Solver], ap_only_fallback: bool) -> Outcome {
    let mut panics = vec![];
    let mut stages = vec![];
    let info = match guarded("ProgramRegistryInfo::new", || ProgramRegistryInfo::new(program)) {
        Ok(Ok(i)) => i,
        Ok(Err(e)) => {
            let d = format!("{e}");
            for s in solvers {
                stages.push((*s, "registry", d.clone()));
            }
            return Outcome { stages, panics, accepted: None };
        }
        Err(p) => {
            panics.push(p);
            for s in solvers {
                stages.push((*s, "registry", "panic".to_string()));
            }
            return Outcome { stages, panics, accepted: None };
        }
    };
    let mut accepted: Option<(Metadata, CairoProgram)> = None;
    let mut ap_only_done = false;
    for solver in solvers {
        let at = format!("calc_metadata[{}]", solver.name());
        let md = match guarded(&at, || calc_metadata(program, &info, solver.config())) {
            Ok(Ok(m)) => Ok(m),
            Ok(Err(e)) => Err(format!("{e}")),
            Err(p) => {
                panics.push(p);
                Err("panic".into())
            }
        };
        match md {
            Ok(metadata) => {
                let at = format!("compile[{}]", solver.name());
                match guarded(&at, || {
                    compile(
                        program,
                        &info,
                        &metadata,
                        SierraToCasmConfig { gas_usage_check: true, max_bytecode_size: usize::MAX },
                    )
                }) {
                    Ok(Ok(c)) => {
                        stages.push((*solver, "accepted", String::new()));
                        if accepted.is_none() {
                            accepted = Some((metadata, c));
                        }
                    }
                    Ok(Err(e)) => stages.push((*solver, "compile", format!("{e}"))),
                    Err(p) => {
                        stages.push((*solver, "compile", "panic".into()));
                        panics.push(p);
                    }
                }
            }
            Err(e) => {
                stages.push((*solver, "metadata", e));
                if ap_only_fallback && !ap_only_done {
                    ap_only_done = true;
                    match guarded("calc_metadata_ap_change_only", || calc_metadata_ap_change_only(program, &info)) {
                        Ok(Ok(m)) => {
                            if let Err(p) = guarded("compile[ap-only]", || {
                                compile(
                                    program,
                                    &info,
                                    &m,
                                    SierraToCasmConfig { gas_usage_check: false, max_bytecode_size: usize::MAX },
                                )
                            }) {
                                panics.push(p)
                            }
                        }
                        Ok(Err(_)) => {}
                        Err(p) => panics.push(p),
                    }
                }
            }
        }
    }
    let accepted = accepted.map(|(m, c)| (info, m, c));
    Outcome { stages, panics, accepted }
}
