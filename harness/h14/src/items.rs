//! Jobs and items of the C14 exploration: what a worker runs, in which order (deterministic in
//! VERIF_SEED, the tier and the corpus), and how a finding is replayed.
use std::hash::{Hash, Hasher};
use std::io::Write;
use std::time::Instant;

use cairo_lang_sierra::ProgramParser;
use cairo_lang_sierra::program::Program;
use h14lib::mutate::{self, Mu};
use h14lib::pipe::{self, Panic, Solver, guarded, msg_class, run_pipeline};
use serde_json::{Value, json};
use vcommon::Rng;

use crate::{classes, felts};

pub fn fnv(s: &str) -> u64 {
    let mut h: u64 = 0xcbf29ce484222325;
    for b in s.bytes() {
        h ^= b as u64;
        h = h.wrapping_mul(0x100000001b3);
    }
    h
}

pub fn hash_of<T: std::fmt::Debug>(x: &T) -> u64 {
    let mut h = std::collections::hash_map::DefaultHasher::new();
    format!("{:?}", x).hash(&mut h);
    h.finish() >> 11 // fits a JSON number exactly
}

pub fn emit_begin(i: usize, name: &str) {
    let out = std::io::stdout();
    let mut o = out.lock();
    let _ = writeln!(o, "B {}\t{}", i, name.replace(['\n', '\t'], " "));
    let _ = o.flush();
}
pub fn emit_keepalive() {
    let out = std::io::stdout();
    let mut o = out.lock();
    let _ = writeln!(o, "K");
    let _ = o.flush();
}
pub fn emit_end(v: &Value) {
    let out = std::io::stdout();
    let mut o = out.lock();
    let _ = writeln!(o, "E {}", serde_json::to_string(v).unwrap());
    let _ = o.flush();
}

pub fn panics_json(ps: &[Panic]) -> Vec<Value> {
    ps.iter().map(|p| json!({"at": p.at, "loc": p.loc, "msg": p.msg, "class": msg_class(&p.msg)})).collect()
}

pub fn list_files(dir: &str, suffix: &str) -> Vec<String> {
    let mut v: Vec<String> = std::fs::read_dir(dir)
        .map(|rd| {
            rd.filter_map(|e| e.ok())
                .map(|e| e.path().to_string_lossy().to_string())
                .filter(|p| p.ends_with(suffix))
                .collect()
        })
        .unwrap_or_default();
    v.sort();
    v
}

pub fn plan_jobs(corpus_dir: &str, jobs_dir: &str, thorough: bool, seed: u64) -> Vec<Value> {
    let tier = if thorough { "thorough" } else { "quick" };
    let mut jobs = vec![];
    if let Ok(dir) = std::env::var("H14_WITNESSES") {
        jobs.push(json!({"kind": "wit", "src": dir, "tier": tier, "seed": seed}));
    }
    let mut files: Vec<(u64, String)> = list_files(corpus_dir, ".sierra")
        .into_iter()
        .map(|f| (std::fs::metadata(&f).map(|m| m.len()).unwrap_or(0), f))
        .collect();
    // big programs first: no long tail at the end of the run
    files.sort_by(|a, b| b.0.cmp(&a.0).then(a.1.cmp(&b.1)));
    let classes = list_files(crate::TEST_DATA, ".contract_class.json")
        .into_iter()
        .filter(|f| !f.ends_with(".compiled_contract_class.json"))
        .collect::<Vec<_>>();
    // boundary templates first: the count templates are the longest single items
    jobs.extend(crate::templates::plan(corpus_dir, jobs_dir, thorough, seed));
    for c in &classes {
        jobs.push(json!({"kind": "cls", "src": c, "tier": tier, "seed": seed}));
    }
    for (_, f) in &files {
        jobs.push(json!({"kind": "mut", "src": f, "tier": tier, "seed": seed}));
    }
    for c in &classes {
        jobs.push(json!({"kind": "fel", "src": c, "tier": tier, "seed": seed}));
        jobs.push(json!({"kind": "jsn", "src": c, "tier": tier, "seed": seed}));
    }
    for (_, f) in &files {
        jobs.push(json!({"kind": "fel", "src": f, "tier": tier, "seed": seed}));
    }
    for k in 0..(if thorough { 16 } else { 4 }) {
        jobs.push(json!({"kind": "rnd", "src": format!("random#{k}"), "tier": tier, "seed": seed}));
    }
    jobs
}

pub fn run_job(job: &Value) {
    let kind = job["kind"].as_str().unwrap_or("");
    match kind {
        "mut" => run_mut_job(job),
        "cls" => classes::run_cls_job(job),
        "fel" => felts::run_fel_job(job),
        "rnd" => felts::run_rnd_job(job),
        "wit" => run_wit_job(job),
        "tpl" => crate::templates::run_tpl_job(job),
        "jsn" => classes::run_jsn_job(job),
        _ => {}
    }
}

pub struct Window {
    pub start: usize,
    pub only: Option<usize>,
}
impl Window {
    pub fn of(job: &Value) -> Window {
        Window {
            start: job["start"].as_u64().unwrap_or(0) as usize,
            only: job.get("only").and_then(|x| x.as_u64()).map(|x| x as usize),
        }
    }
    pub fn runs(&self, i: usize) -> bool {
        i >= self.start && self.only.map(|n| i < self.start + n).unwrap_or(true)
    }
}

pub fn solvers_for(at: &str) -> Vec<Solver> {
    if at.contains("nonlinear-skipcmp") {
        vec![Solver::NonLinearSkip]
    } else if at.contains("nonlinear") {
        vec![Solver::NonLinear]
    } else {
        vec![Solver::Linear]
    }
}

fn still_panics(p: &Program, loc: &str, solvers: &[Solver]) -> bool {
    emit_keepalive();
    let o = run_pipeline(p, solvers, true);
    if o.panics.iter().any(|x| x.loc == loc) {
        return true;
    }
    if let Some((_, _, casm)) = &o.accepted {
        if let Err(pa) = guarded("assemble", || casm.assemble()) {
            return pa.loc == loc;
        }
    }
    false
}

/// Greedy reduction of a program that makes the pipeline panic at `loc`: drop functions, then
/// statements (targets re-pointed), then declarations, while the same site still panics.
pub fn minimise(p: &Program, loc: &str, solvers: &[Solver], budget_s: f64) -> Program {
    let t0 = Instant::now();
    let mut cur = p.clone();
    let over = |t0: &Instant| t0.elapsed().as_secs_f64() > budget_s;
    for _round in 0..3 {
        let before = (cur.statements.len(), cur.funcs.len(), cur.libfunc_declarations.len(), cur.type_declarations.len());
        let mut k = cur.funcs.len();
        while k > 0 && !over(&t0) {
            k -= 1;
            let mut q = cur.clone();
            q.funcs.remove(k);
            if still_panics(&q, loc, solvers) {
                cur = q;
            }
        }
        // statements: try chunks first (halves of what is left), then single statements
        let mut chunk = (cur.statements.len() / 2).max(1);
        while chunk >= 1 && !over(&t0) {
            let mut i = cur.statements.len();
            while i > 0 && !over(&t0) {
                let lo = i.saturating_sub(chunk);
                let mut q = cur.clone();
                for j in (lo..i).rev() {
                    q = mutate::delete_statement(&q, j);
                }
                if q.statements.len() < cur.statements.len() && still_panics(&q, loc, solvers) {
                    cur = q;
                }
                i = lo;
            }
            if chunk == 1 {
                break;
            }
            chunk /= 2;
        }
        let mut k = cur.libfunc_declarations.len();
        while k > 0 && !over(&t0) {
            k -= 1;
            let mut q = cur.clone();
            q.libfunc_declarations.remove(k);
            if still_panics(&q, loc, solvers) {
                cur = q;
            }
        }
        let mut k = cur.type_declarations.len();
        while k > 0 && !over(&t0) {
            k -= 1;
            let mut q = cur.clone();
            q.type_declarations.remove(k);
            if still_panics(&q, loc, solvers) {
                cur = q;
            }
        }
        let after = (cur.statements.len(), cur.funcs.len(), cur.libfunc_declarations.len(), cur.type_declarations.len());
        if after == before || over(&t0) {
            break;
        }
    }
    cur
}

pub fn program_witness(p: &Program, solvers: &[Solver], minimised: bool, original_statements: usize) -> Value {
    let text = guarded("Display", || p.to_string()).unwrap_or_else(|_| String::from("(Program's Display panics on this program)"));
    json!({
        "entry": "pipeline",
        "solvers": solvers.iter().map(|s| s.name()).collect::<Vec<_>>(),
        "size": p.statements.len() + p.funcs.len() + p.libfunc_declarations.len() + p.type_declarations.len(),
        "statements": p.statements.len(),
        "original_statements": original_statements,
        "minimised": minimised,
        "program_json": serde_json::to_value(p).unwrap_or(Value::Null),
        "sierra": if text.len() < 20000 { text } else { String::from("(large)") },
    })
}

/// Runs one program through the pipeline; returns the E-line payload.
pub fn run_program_item(
    name: &str,
    kind: &str,
    q: &Program,
    nonlinear: bool,
    seen_locs: &mut std::collections::BTreeSet<String>,
    minimise_budget: f64,
) -> Value {
    let t = Instant::now();
    let mut solvers = vec![Solver::Linear];
    if nonlinear {
        solvers.push(Solver::NonLinear);
    }
    let mut o = run_pipeline(q, &solvers, true);
    let mut panics = std::mem::take(&mut o.panics);
    if nonlinear && panics.iter().any(|p| p.at.contains("[nonlinear]") && p.msg.contains("Comparison failed")) {
        // the cross-check of the two solvers fired; look behind it as well
        let o2 = run_pipeline(q, &[Solver::NonLinearSkip], false);
        panics.extend(o2.panics);
    }
    if let Some((_, _, casm)) = &o.accepted {
        if let Err(p) = guarded("assemble", || casm.assemble()) {
            panics.push(p);
        }
    }
    let mut pj = panics_json(&panics);
    for (k, p) in panics.iter().enumerate() {
        if seen_locs.insert(p.loc.clone()) {
            let sv = if p.at == "assemble" || p.at == "ProgramRegistryInfo::new" { vec![Solver::Linear] } else { solvers_for(&p.at) };
            let n0 = q.statements.len();
            let (w, minimised) = if n0 <= 6000 && minimise_budget > 0.0 {
                (minimise(q, &p.loc, &sv, minimise_budget), true)
            } else {
                (q.clone(), false)
            };
            pj[k]["witness"] = program_witness(&w, &sv, minimised, n0);
        }
    }
    let first_stage = o.stages.first().map(|s| s.1).unwrap_or("?");
    json!({
        "name": name, "kind": kind, "stage": if panics.is_empty() { first_stage.to_string() } else { "panic".to_string() },
        "stages": o.summary(), "panics": pj, "ms": t.elapsed().as_millis() as u64,
        "hash": hash_of(&(&q.statements, &q.funcs, &q.type_declarations, &q.libfunc_declarations)),
        // non-trivial: got past the registry (structurally well-formed enough to reach the solvers)
        "nontrivial": first_stage != "registry",
    })
}

fn run_mut_job(job: &Value) {
    let src = job["src"].as_str().unwrap_or("");
    let thorough = job["tier"].as_str() == Some("thorough");
    let seed = job["seed"].as_u64().unwrap_or(1);
    let w = Window::of(job);
    let Ok(text) = std::fs::read_to_string(src) else { return };
    let Ok(program) = ProgramParser::new().parse(&text) else { return };
    let base = std::path::Path::new(src).file_stem().map(|s| s.to_string_lossy().to_string()).unwrap_or_default();
    let mut rng = Rng(seed ^ fnv(&base));
    let n = program.statements.len();
    let nl_limit = if thorough { 400 } else { 150 };
    let nonlinear = n <= nl_limit;
    // ---- the item list: base, single-point mutants, k-point mutants ----
    let mut all = mutate::enumerate(&program, &mut rng, 0..n, true);
    let (single_budget, k_budget) = if thorough {
        (if n <= 300 { usize::MAX } else if n <= 2000 { 500 } else { 60 }, if n <= 2000 { 80 } else { 10 })
    } else {
        (if n <= 300 { 36 } else if n <= 2000 { 10 } else { 3 }, if n <= 300 { 10 } else if n <= 2000 { 3 } else { 1 })
    };
    let mut items: Vec<Vec<Mu>> = vec![vec![]];
    let mut picked = 0;
    while picked < single_budget && !all.is_empty() {
        let k = rng.below(all.len() as u64) as usize;
        items.push(vec![all.swap_remove(k)]);
        picked += 1;
    }
    for _ in 0..k_budget {
        let k = 2 + rng.below(3) as usize;
        let mut cur = program.clone();
        let mut chain = vec![];
        for _ in 0..k {
            // the site choice needs the current program; application cannot fail (sites are valid)
            if let Some(m) = mutate::random_mutation(&cur, &mut rng) {
                match vcommon::catch(std::panic::AssertUnwindSafe(|| mutate::apply(&cur, &m))) {
                    Ok(q) => {
                        cur = q;
                        chain.push(m);
                    }
                    Err(_) => break,
                }
            }
        }
        if chain.len() >= 2 {
            items.push(chain);
        }
    }
    let mut seen = std::collections::BTreeSet::new();
    for (i, chain) in items.iter().enumerate() {
        if !w.runs(i) {
            continue;
        }
        let mname = if chain.is_empty() { "base".to_string() } else { chain.iter().map(|m| m.name()).collect::<Vec<_>>().join("+") };
        let name = format!("{base}~{mname}");
        emit_begin(i, &name);
        let mut q = program.clone();
        let mut ok = true;
        for m in chain {
            match vcommon::catch(std::panic::AssertUnwindSafe(|| mutate::apply(&q, m))) {
                Ok(x) => q = x,
                Err(_) => ok = false, // a harness-side index slip: skip the item, never blame /repo
            }
        }
        if !ok {
            emit_end(&json!({"name": name, "kind": "mut", "stage": "harness-skip"}));
            continue;
        }
        if let Some(path) = job.get("dump").and_then(|x| x.as_str()) {
            let _ = std::fs::write(path, serde_json::to_string(&program_witness(&q, &[Solver::Linear], false, q.statements.len())).unwrap());
            return;
        }
        let mut e = run_program_item(&name, "mut", &q, nonlinear, &mut seen, if thorough { 40.0 } else { 12.0 });
        e["mclass"] = json!(if chain.is_empty() {
            "base".to_string()
        } else if chain.len() == 1 {
            chain[0].class()
        } else {
            format!("k{}", chain.len())
        });
        emit_end(&e);
    }
}

/// Runs the input stored in a finding / witness file; returns a description and the panics met.
pub fn run_witness(f: &Value) -> Option<(String, Vec<Panic>)> {
    match f["entry"].as_str() {
        Some("pipeline") => {
            let p = serde_json::from_value::<Program>(f["program_json"].clone()).ok()?;
            let solvers: Vec<Solver> = f["solvers"]
                .as_array()
                .map(|a| a.iter().filter_map(|x| x.as_str()).map(Solver::parse).collect())
                .unwrap_or_else(|| vec![Solver::Linear]);
            let o = run_pipeline(&p, &solvers, true);
            let mut panics = o.panics;
            if let Some((_, _, casm)) = &o.accepted {
                if let Err(pa) = guarded("assemble", || casm.assemble()) {
                    panics.push(pa);
                }
            }
            let d = o.stages.iter().map(|(s, st, d)| format!("{}:{} {}", s.name(), st, d)).collect::<Vec<_>>().join(" | ");
            Some((d, panics))
        }
        Some("program-class") => {
            let p = serde_json::from_value::<Program>(f["program_json"].clone()).ok()?;
            Some(crate::templates::class_path(&p))
        }
        Some("class-json") => classes::run_json_witness(f),
        Some("felts") => felts::run_witness(f),
        Some("class") => classes::run_witness(f),
        _ => None,
    }
}

/// Re-runs the witness of one finding; exit code 1 when the panic / failure reproduces.
pub fn replay(f: &Value) -> i32 {
    if let Some(job) = f.get("job") {
        // hang / crash findings: re-run the single item in this process
        println!("re-running item {} of job {}", job["start"], job);
        run_job(job);
        return 0;
    }
    match run_witness(f) {
        Some((d, panics)) => {
            println!("{d}");
            for p in &panics {
                println!("PANIC in {} at {}: {}", p.at, p.loc, p.msg);
            }
            if panics.is_empty() { 0 } else { 1 }
        }
        None => {
            println!("no runnable input in the finding file");
            2
        }
    }
}

/// Stored witnesses of earlier findings (corpus/C14/witnesses/*.json) are re-run on every run, so
/// that a known site is met whatever the seed, and a repaired one goes quiet.
fn run_wit_job(job: &Value) {
    let dir = job["src"].as_str().unwrap_or("");
    let w = Window::of(job);
    for (i, path) in list_files(dir, ".json").iter().enumerate() {
        if !w.runs(i) {
            continue;
        }
        let name = format!("witness~{}", std::path::Path::new(path).file_stem().map(|s| s.to_string_lossy().to_string()).unwrap_or_default());
        emit_begin(i, &name);
        let Ok(text) = std::fs::read_to_string(path) else { continue };
        let Ok(f) = serde_json::from_str::<Value>(&text) else { continue };
        // crash witnesses (unbounded allocation, stack overflow) carry the program as "input"
        let f = if f.get("entry").is_none() && f.get("input").map(|x| x.is_object()).unwrap_or(false) { f["input"].clone() } else { f };
        let Some((d, panics)) = run_witness(&f) else {
            emit_end(&json!({"name": name, "kind": "wit", "stage": "harness-skip"}));
            continue;
        };
        let mut pj = panics_json(&panics);
        for p in pj.iter_mut() {
            let mut wv = f.clone();
            if let Some(o) = wv.as_object_mut() {
                for k in ["panic", "item", "fingerprint", "count", "reached_from", "file"] {
                    o.remove(k);
                }
            }
            wv["stored_witness"] = json!(path);
            p["witness"] = wv;
        }
        emit_end(&json!({"name": name, "kind": "wit", "stage": if panics.is_empty() { "quiet" } else { "panic" },
                         "stages": d.chars().take(200).collect::<String>(), "panics": pj, "hash": fnv(&text) >> 11,
                         "nontrivial": true, "mclass": "witness"}));
    }
}

#[allow(dead_code)]
pub fn unused(_: &pipe::Outcome) {}
