//! Shared parts of the C14 / C02 harness: the Sierra mutation engine and the guarded pipeline.
pub mod mutate;
pub mod pipe;
