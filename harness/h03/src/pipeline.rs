//! C06 pipeline leg (C): one Cairo function per (operation, type) through the user-visible operators,
//! compiled with the current compiler and run with `SierraCasmRunner`; the operands and the
//! `RunResultValue`s are printed as Coq case files that are compared with `Spec.Ops.eval` inside Coq.
use std::path::{Path, PathBuf};

use cairo_lang_runner::{RunResultValue, SierraCasmRunner};
use cairo_lang_sierra::program::Program;
use num_bigint::BigInt;
use vcommon::Rng;

use crate::fault::{Mode, Outcome, run_once};
use crate::operands::{Ty, tuples};
use crate::translate::z;

#[derive(Clone)]
pub struct OpDef {
    pub ty: Ty,
    pub tyname: String,
    /// Coq term of type `Spec.Ops.op`
    pub coq_op: String,
    pub name: String,
    pub args: Vec<Ty>,
    pub src: String,
}

fn tyname(t: &Ty) -> String {
    match t {
        Ty::U(w) => format!("u{w}"),
        Ty::I(w) => format!("i{w}"),
        Ty::Felt => "felt252".into(),
        Ty::U256 => "u256".into(),
        Ty::U512 => "core::integer::u512".into(),
        Ty::Bool => "bool".into(),
        Ty::B(lo, hi) => format!("BoundedInt<{lo}, {hi}>"),
        Ty::NonZero(t) => format!("NonZero<{}>", tyname(t)),
    }
}
pub fn coq_ty(t: &Ty) -> String {
    match t {
        Ty::U(w) => format!("(U {w})"),
        Ty::I(w) => format!("(I {w})"),
        Ty::Felt => "Felt".into(),
        Ty::U256 => "U256T".into(),
        Ty::U512 => "U512T".into(),
        Ty::Bool => "BoolT".into(),
        Ty::B(..) => "Felt".into(),
        Ty::NonZero(t) => coq_ty(t),
    }
}

/// All (operation, type) functions of the pipeline.
pub fn op_table() -> Vec<OpDef> {
    let mut v = vec![];
    let uns = [Ty::U(8), Ty::U(16), Ty::U(32), Ty::U(64), Ty::U(128)];
    let sig = [Ty::I(8), Ty::I(16), Ty::I(32), Ty::I(64), Ty::I(128)];
    let mut ints: Vec<Ty> = uns.to_vec();
    ints.extend(sig.iter().cloned());
    let mut add = |ty: &Ty, coq: &str, name: &str, args: Vec<Ty>, ret: &str, body: &str, uses: &str| {
        let t = tyname(ty);
        let names = ["a", "b", "c"];
        let params: Vec<String> =
            args.iter().enumerate().map(|(i, a)| format!("{}: {}", names[i], tyname(a))).collect();
        let src = format!("{uses}fn main({}) -> {ret} {{\n    {body}\n}}\n", params.join(", "));
        v.push(OpDef {
            ty: ty.clone(),
            tyname: t.clone(),
            coq_op: coq.to_string(),
            name: format!("{}__{}", t.replace("::", "_"), name),
            args,
            src,
        });
    };
    let tr = "use core::num::traits::{CheckedAdd, CheckedSub, CheckedMul, WrappingAdd, WrappingSub, WrappingMul, OverflowingAdd, OverflowingSub, OverflowingMul, SaturatingAdd, SaturatingSub, SaturatingMul, WideMul, Sqrt};\n";
    let mut arith_types: Vec<Ty> = ints.clone();
    arith_types.push(Ty::U256);
    for ty in &arith_types {
        let t = tyname(ty);
        let two = vec![ty.clone(), ty.clone()];
        let unsigned = !matches!(ty, Ty::I(_));
        for (coq, name, e) in [
            ("OAdd", "add", "a + b"), ("OSub", "sub", "a - b"), ("OMul", "mul", "a * b"),
            ("ODiv", "div", "a / b"), ("ORem", "rem", "a % b"),
        ] {
            add(ty, coq, name, two.clone(), &t, e, "");
        }
        for (coq, name, e) in [
            ("OEq", "eq", "a == b"), ("ONe", "ne", "a != b"), ("OLt", "lt", "a < b"),
            ("OLe", "le", "a <= b"), ("OGt", "gt", "a > b"), ("OGe", "ge", "a >= b"),
        ] {
            add(ty, coq, name, two.clone(), "bool", e, "");
        }
        for (coq, name, e) in [
            ("OCheckedAdd", "checked_add", "a.checked_add(b)"),
            ("OCheckedSub", "checked_sub", "a.checked_sub(b)"),
        ] {
            add(ty, coq, name, two.clone(), &format!("Option<{t}>"), e, tr);
        }
        for (coq, name, e) in [
            ("OWrappingAdd", "wrapping_add", "a.wrapping_add(b)"),
            ("OWrappingSub", "wrapping_sub", "a.wrapping_sub(b)"),
            ("OSaturatingAdd", "saturating_add", "a.saturating_add(b)"),
            ("OSaturatingSub", "saturating_sub", "a.saturating_sub(b)"),
        ] {
            add(ty, coq, name, two.clone(), &t, e, tr);
        }
        for (coq, name, e) in [
            ("OOverflowingAdd", "overflowing_add", "a.overflowing_add(b)"),
            ("OOverflowingSub", "overflowing_sub", "a.overflowing_sub(b)"),
        ] {
            add(ty, coq, name, two.clone(), &format!("({t}, bool)"), e, tr);
        }
        if unsigned {
            add(ty, "OCheckedMul", "checked_mul", two.clone(), &format!("Option<{t}>"), "a.checked_mul(b)", tr);
            add(ty, "OWrappingMul", "wrapping_mul", two.clone(), &t, "a.wrapping_mul(b)", tr);
            add(ty, "OSaturatingMul", "saturating_mul", two.clone(), &t, "a.saturating_mul(b)", tr);
            add(ty, "OOverflowingMul", "overflowing_mul", two.clone(), &format!("({t}, bool)"), "a.overflowing_mul(b)", tr);
            add(ty, "OAnd", "and", two.clone(), &t, "a & b", "");
            add(ty, "OOr", "or", two.clone(), &t, "a | b", "");
            add(ty, "OXor", "xor", two.clone(), &t, "a ^ b", "");
            add(ty, "ONot", "not", vec![ty.clone()], &t, "~a", "");
            let sq = match ty {
                Ty::U(8) => "u8", Ty::U(16) => "u8", Ty::U(32) => "u16", Ty::U(64) => "u32",
                Ty::U(128) => "u64", _ => "u128",
            };
            add(ty, "OSqrt", "sqrt", vec![ty.clone()], sq, "a.sqrt()", tr);
        } else {
            add(ty, "ONeg", "neg", vec![ty.clone()], &t, "-a", "");
        }
        let wide = match ty {
            Ty::U(128) => Some("u256".to_string()),
            Ty::U(w) => Some(format!("u{}", 2 * w)),
            Ty::I(w) if *w < 128 => Some(format!("i{}", 2 * w)),
            _ => None,
        };
        if let Some(wt) = wide {
            add(ty, "OWideMul", "wide_mul", two.clone(), &wt, "a.wide_mul(b)", tr);
        }
        // div_rem through NonZero
        add(
            ty, "ODivRem", "div_rem",
            vec![ty.clone(), Ty::NonZero(Box::new(ty.clone()))],
            &format!("({t}, {t})"), "DivRem::div_rem(a, b)", "",
        );
    }
    // conversions
    let mut conv: Vec<Ty> = ints.clone();
    conv.push(Ty::U256);
    conv.push(Ty::Felt);
    for a in &conv {
        for b in &conv {
            if a == b {
                continue;
            }
            let (ta, tb) = (tyname(a), tyname(b));
            let into_ok = match (a, b) {
                (_, Ty::Felt) => !matches!(a, Ty::U256),
                (Ty::Felt, Ty::U256) => true,
                (Ty::Felt, _) => false,
                _ => b.min() <= a.min() && a.max() <= b.max(),
            };
            // the corelib has no TryInto between u256 and signed types / no felt252 -> u256 TryInto
            let try_ok = !into_ok
                && !matches!((a, b), (Ty::U256, Ty::I(_)) | (Ty::I(_), Ty::U256));
            if into_ok {
                add(a, &format!("(OInto {})", coq_ty(b)), &format!("into_{}", tb), vec![a.clone()], &tb, "a.into()", "");
            } else if try_ok {
                add(a, &format!("(OTryInto {})", coq_ty(b)), &format!("try_into_{}", tb), vec![a.clone()],
                    &format!("Option<{tb}>"), "a.try_into()", "");
            }
            let _ = ta;
        }
    }
    // multi-limb corelib operations (u256 x u256 -> u512, modular multiplication, 512/256 division,
    // modular inverse, squares): carries between 128-bit limbs
    let u256 = Ty::U256;
    let nz256 = Ty::NonZero(Box::new(Ty::U256));
    let trw = "use core::num::traits::{WideMul, WideSquare};\n";
    add(&u256, "OWideMul", "wide_mul", vec![u256.clone(), u256.clone()], "core::integer::u512", "a.wide_mul(b)", trw);
    for ty in arith_types.iter().filter(|t| !matches!(t, Ty::I(128))) {
        let wt = match ty {
            Ty::U256 => "core::integer::u512".to_string(),
            Ty::U(128) => "u256".to_string(),
            Ty::U(w) => format!("u{}", 2 * w),
            Ty::I(w) => format!("i{}", 2 * w),
            _ => continue,
        };
        add(ty, "OWideSquare", "wide_square", vec![ty.clone()], &wt, "a.wide_square()", trw);
    }
    add(&u256, "OMulModN", "mul_mod_n", vec![u256.clone(), u256.clone(), nz256.clone()], "u256",
        "core::math::u256_mul_mod_n(a, b, c)", "");
    add(&u256, "OInvMod", "inv_mod", vec![u256.clone(), nz256.clone()], "Option<NonZero<u256>>",
        "core::math::u256_inv_mod(a, b)", "");
    add(&u256, "ODivModN", "div_mod_n", vec![u256.clone(), u256.clone(), nz256.clone()], "Option<u256>",
        "core::math::u256_div_mod_n(a, b, c)", "");
    add(&Ty::U512, "OU512DivRem", "div_rem_by_u256", vec![Ty::U512, nz256.clone()],
        "(core::integer::u512, u256)", "core::integer::u512_safe_div_rem_by_u256(a, b)", "");
    // felt252
    let f = Ty::Felt;
    let two = vec![f.clone(), f.clone()];
    add(&f, "OAdd", "add", two.clone(), "felt252", "a + b", "");
    add(&f, "OSub", "sub", two.clone(), "felt252", "a - b", "");
    add(&f, "OMul", "mul", two.clone(), "felt252", "a * b", "");
    add(&f, "ONeg", "neg", vec![f.clone()], "felt252", "-a", "");
    add(&f, "OEq", "eq", two.clone(), "bool", "a == b", "");
    add(&f, "ONe", "ne", two.clone(), "bool", "a != b", "");
    add(&f, "OFeltDiv", "div", vec![f.clone(), Ty::NonZero(Box::new(f.clone()))], "felt252", "core::felt252_div(a, b)", "");
    v
}

pub fn coq_outcome(o: &Outcome) -> String {
    let l = |xs: &Vec<starknet_types_core::felt::Felt>| {
        format!("[{}]", xs.iter().map(|x| z(&x.to_bigint())).collect::<Vec<_>>().join("; "))
    };
    match o {
        Outcome::Value(RunResultValue::Success(xs)) => format!("(Success {})", l(xs)),
        Outcome::Value(RunResultValue::Panic(xs)) => format!("(Panic {})", l(xs)),
        Outcome::Failed(_) => "Failed".to_string(),
    }
}

pub struct OpRun {
    pub def: OpDef,
    /// (mathematical operands, outcome)
    pub cases: Vec<(Vec<BigInt>, Outcome)>,
    /// exhaustive 8-bit rows: (a, outcomes for every b in ascending order)
    pub rows: Vec<(BigInt, Vec<Outcome>)>,
    pub error: Option<String>,
}

fn seed_for(name: &str, seed: u64) -> Rng {
    let mut h: u64 = seed ^ 0xc06c06;
    for b in name.bytes() {
        h = h.wrapping_mul(0x100000001b3) ^ b as u64;
    }
    Rng(h)
}

pub fn run_op(def: &OpDef, program: &Program, full: bool, seed: u64) -> OpRun {
    let mut out = OpRun { def: def.clone(), cases: vec![], rows: vec![], error: None };
    let built = std::panic::catch_unwind(std::panic::AssertUnwindSafe(|| {
        SierraCasmRunner::new(program.clone(), None, Default::default(), None)
    }));
    let runner = match built {
        Ok(Ok(r)) => r,
        Ok(Err(e)) => {
            out.error = Some(format!("runner: {e}"));
            return out;
        }
        Err(_) => {
            out.error = Some(format!("runner: COMPILER PANIC in sierra-to-casm @ {}", vcommon::last_panic_location()));
            return out;
        }
    };
    let mut rng = seed_for(&def.name, seed);
    let (cap, nrand) = if full { (1200, 400) } else { (160, 60) };
    let run = |t: &Vec<BigInt>| -> Outcome {
        let felts: Vec<BigInt> = t.iter().zip(&def.args).flat_map(|(v, ty)| ty.to_felts(v)).collect();
        run_once(&runner, &felts, Mode::Honest, 5_000_000).0
    };
    for t in tuples(&def.args, full, cap, nrand, &mut rng) {
        let o = run(&t);
        out.cases.push((t, o));
    }
    // all 65 536 pairs for the 8-bit types (thorough)
    let eight = matches!(def.ty, Ty::U(8) | Ty::I(8));
    if full && eight && def.args.len() == 2 {
        let (lo, hi) = (def.args[0].min(), def.args[0].max());
        let mut a = lo.clone();
        while a <= hi {
            let mut row = vec![];
            let mut b = def.args[1].min();
            while b <= def.args[1].max() {
                if def.args[1].contains(&b) {
                    row.push(run(&vec![a.clone(), b.clone()]));
                }
                b += 1;
            }
            out.rows.push((a.clone(), row));
            a += 1;
        }
    }
    out
}

pub const HEADER: &str = "From Spec Require Import Ops Corr.\nImport ListNotations.\nOpen Scope Z_scope.\n";

/// Coq lines `(op, ty, [args], outcome)` of the boundary/random cases of one operation.
pub fn case_lines(r: &OpRun) -> Vec<String> {
    r.cases
        .iter()
        .map(|(args, o)| {
            format!(
                " ({}, {}, [{}], {})",
                r.def.coq_op,
                coq_ty(&r.def.ty),
                args.iter().map(z).collect::<Vec<_>>().join("; "),
                coq_outcome(o)
            )
        })
        .collect()
}

/// Writes `ops_NNN.v` shards (cases of all operations, 700 per shard); returns the number of shards.
pub fn write_case_shards(lines: &[String], dir: &Path) -> usize {
    let mut k = 0;
    for chunk in lines.chunks(700) {
        let mut s = String::from(HEADER);
        s.push_str("Definition cases : list case := [\n");
        s.push_str(&chunk.join(";\n"));
        s.push_str("\n].\nDefinition bad := Eval vm_compute in check_cases cases.\nPrint bad.\n");
        std::fs::write(dir.join(format!("ops_{:03}.v", k)), s).unwrap();
        k += 1;
    }
    k
}

/// Writes the exhaustive 8-bit sweep shards of one operation; returns the number of evaluations.
pub fn write_sweep_shards(r: &OpRun, dir: &Path) -> usize {
    let mut n = 0;
    for (k, chunk) in r.rows.chunks(64).enumerate() {
        let mut s = String::from(HEADER);
        s.push_str(&format!("(* exhaustive 8-bit sweep: {} *)\nDefinition rows : list row := [\n", r.def.name));
        let lines: Vec<String> = chunk
            .iter()
            .map(|(a, os)| {
                format!(
                    " ({}, {}, {}, [{}])",
                    r.def.coq_op,
                    coq_ty(&r.def.ty),
                    z(a),
                    os.iter().map(coq_outcome).collect::<Vec<_>>().join("; ")
                )
            })
            .collect();
        s.push_str(&lines.join(";\n"));
        s.push_str(&format!(
            "\n].\nDefinition bad := Eval vm_compute in check_rows {} rows.\nPrint bad.\n",
            if matches!(r.def.args[1], Ty::NonZero(_)) { "true" } else { "false" }
        ));
        std::fs::write(dir.join(format!("sweep_{}_{:03}.v", r.def.name, k)), s).unwrap();
        n += chunk.iter().map(|(_, os)| os.len()).sum::<usize>();
    }
    n
}

pub fn write_sources(defs: &[OpDef], dir: &Path) -> Vec<PathBuf> {
    std::fs::create_dir_all(dir).unwrap();
    defs.iter()
        .map(|d| {
            let p = dir.join(format!("{}.cairo", d.name));
            std::fs::write(&p, &d.src).unwrap();
            p
        })
        .collect()
}
