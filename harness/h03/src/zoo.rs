//! Path-theorem obligations (C17 / C04 libfunc-level premises) for freshly compiled, un-pinned
//! programs: every `cc_*.sierra` of a directory (examples, bug samples, the instantiation zoo --
//! written by h14run) is compiled Sierra -> CASM with the current sierra-to-casm (gas metadata on,
//! as the real pipeline), and every invoke statement becomes one obligation
//! (concrete libfunc id, the statement's CASM with offsets relative to its start, per branch the
//! relative target offset / declared ApChange::Known / declared Const gas cost), deduplicated.
use std::collections::BTreeMap;
use std::path::Path;

use cairo_lang_sierra::extensions::gas::CostTokenType;
use cairo_lang_sierra::program::{GenBranchTarget, GenStatement, Program};
use cairo_lang_sierra_to_casm::compiler::{SierraToCasmConfig, StatementKindDebugInfo};
use cairo_lang_sierra_to_casm::metadata::{calc_metadata, calc_metadata_ap_change_only};
use cairo_lang_sierra_type_size::ProgramRegistryInfo;

use cairo_lang_casm::instructions::{Instruction, InstructionBody};
use cairo_lang_casm::operand::{DerefOrImmediate, ResOperand};

use crate::translate::instr;

pub struct Obl {
    pub libfunc: String,
    pub coq: String,
    pub n_instr: usize,
    pub tokens: Vec<String>,
    pub sites: usize,
}

/// What `Range.rpaths` looks at in one instruction.
fn skeleton(off: usize, i: &Instruction) -> String {
    let imm = |d: &DerefOrImmediate| match d {
        DerefOrImmediate::Immediate(v) => format!("{}", v.value),
        DerefOrImmediate::Deref(_) => "cell".to_string(),
    };
    let body = match &i.body {
        InstructionBody::AssertEq(a) => {
            let fail = match &a.b {
                ResOperand::BinOp(b) => {
                    matches!(b.op, cairo_lang_casm::operand::Operation::Add)
                        && b.a == a.a
                        && matches!(&b.b, DerefOrImmediate::Immediate(_))
                }
                _ => false,
            };
            format!("assert{}{}", if fail { "!fail" } else { "" }, if matches!(a.b, ResOperand::DoubleDeref(..)) { "!dd" } else { "" })
        }
        InstructionBody::Jnz(j) => format!("jnz {}", imm(&j.jump_offset)),
        InstructionBody::Jump(j) => format!("jmp {} {}", j.relative, imm(&j.target)),
        InstructionBody::AddAp(a) => format!("addap {}", match &a.operand { ResOperand::Immediate(v) => format!("{}", v.value), _ => "x".into() }),
        InstructionBody::Call(c) => format!("call {}", c.relative),
        InstructionBody::Ret(_) => "ret".to_string(),
        InstructionBody::QM31AssertEq(_) => "qm31".to_string(),
        InstructionBody::Blake2sCompress(_) => "blake".to_string(),
    };
    format!("{off}:{body}:{}:{}", i.inc_ap, i.body.op_size())
}

fn zi(v: i64) -> String {
    if v < 0 { format!("({v})") } else { format!("{v}") }
}

/// Obligations of one program, keyed by their full text (the deduplication key).
pub fn obligations(program: &Program, out: &mut BTreeMap<String, Obl>) -> Result<(usize, bool), String> {
    let info = ProgramRegistryInfo::new(program).map_err(|e| format!("registry: {e}"))?;
    let mut with_gas = true;
    let casm = match calc_metadata(program, &info, Default::default()) {
        Ok(md) => cairo_lang_sierra_to_casm::compiler::compile(
            program,
            &info,
            &md,
            SierraToCasmConfig { gas_usage_check: true, max_bytecode_size: usize::MAX },
        )
        .map_err(|e| format!("sierra-to-casm: {e}"))?,
        Err(_) => {
            with_gas = false;
            let md = calc_metadata_ap_change_only(program, &info).map_err(|e| format!("metadata: {e}"))?;
            cairo_lang_sierra_to_casm::compiler::compile(
                program,
                &info,
                &md,
                SierraToCasmConfig { gas_usage_check: false, max_bytecode_size: usize::MAX },
            )
            .map_err(|e| format!("sierra-to-casm: {e}"))?
        }
    };
    // byte offset of every instruction
    let mut offs = Vec::with_capacity(casm.instructions.len() + 1);
    let mut o = 0usize;
    for i in &casm.instructions {
        offs.push(o);
        o += i.body.op_size();
    }
    offs.push(o);
    let sinfo = &casm.debug_info.sierra_statement_info;
    let mut n = 0;
    for (idx, st) in program.statements.iter().enumerate() {
        let GenStatement::Invocation(inv) = st else { continue };
        let si = &sinfo[idx];
        let StatementKindDebugInfo::Invoke(ii) = &si.additional_kind_info else { continue };
        if inv.branches.is_empty() {
            continue; // match on an enum without variants: unreachable, nothing is declared
        }
        n += 1;
        let (lo, hi) = (si.start_offset, si.end_offset);
        let first = si.instruction_idx;
        let mut code = vec![];
        let mut skel = vec![];
        let mut has_call = false;
        let mut k = first;
        while k < casm.instructions.len() && offs[k] < hi {
            let ins = &casm.instructions[k];
            code.push(format!("({}, {})", offs[k] - lo, instr(ins)));
            skel.push(skeleton(offs[k] - lo, ins));
            has_call |= matches!(ins.body, InstructionBody::Call(_) | InstructionBody::Ret(_));
            k += 1;
        }
        let mut brs = vec![];
        let mut tokens = vec![];
        for (b, br) in inv.branches.iter().enumerate() {
            let tgt = match &br.target {
                GenBranchTarget::Fallthrough => idx + 1,
                GenBranchTarget::Statement(t) => t.0,
            };
            let tgt_off = sinfo.get(tgt).map(|x| x.start_offset).unwrap_or(hi) as i64 - lo as i64;
            let (ap, cost) = match ii.result_branch_changes.get(b) {
                Some(bc) => {
                    for (t, v) in bc.gas_cost.iter() {
                        if *t != CostTokenType::Const && *v != 0 {
                            tokens.push(format!("{t:?}"));
                        }
                    }
                    (
                        match bc.ap_change {
                            cairo_lang_casm::ap_change::ApChange::Known(n) => format!("(Some {n})"),
                            _ => "None".to_string(),
                        },
                        bc.gas_cost.get(&CostTokenType::Const).copied().unwrap_or(0),
                    )
                }
                None => ("None".to_string(), 0),
            };
            brs.push(format!("({}, {}, {})", zi(tgt_off), ap, zi(cost)));
        }
        let lf = format!("{}", inv.libfunc_id).replace('"', "'");
        let coq = format!(
            " (\"{}\",\n  [{}],\n  [SI 0 \"{}\" 0 {} [{}]])",
            lf,
            code.join(";\n   "),
            lf,
            hi - lo,
            brs.join("; ")
        );
        tokens.sort();
        tokens.dedup();
        // deduplication key: what the path enumeration depends on -- the generic libfunc, the control
        // skeleton of the emitted instructions (kinds, sizes, ap++, jump / ap += immediates, the
        // failing-assert and double-dereference shapes; NOT the cell offsets of operands, which differ at
        // every site) and the declared branch data.  Statements that contain call/ret are not followed by
        // the enumeration at all: one representative per generic libfunc.
        let key = if has_call {
            format!("call|{}", lf.split('<').next().unwrap_or(""))
        } else {
            format!("{}|{}|{}", lf.split('<').next().unwrap_or(""), skel.join(";"), brs.join(";"))
        };
        let e = out.entry(key).or_insert(Obl { libfunc: lf, coq, n_instr: code.len(), tokens, sites: 0 });
        e.sites += 1;
    }
    Ok((n, with_gas))
}

pub fn run(sierra_dir: &Path, out_dir: &Path) {
    std::fs::create_dir_all(out_dir).unwrap();
    let t0 = std::time::Instant::now();
    let mut files: Vec<_> = std::fs::read_dir(sierra_dir)
        .unwrap_or_else(|e| panic!("reading {}: {e}", sierra_dir.display()))
        .filter_map(|e| e.ok().map(|e| e.path()))
        .filter(|p| {
            p.extension().map(|x| x == "sierra").unwrap_or(false)
                && p.file_name().map(|n| n.to_string_lossy().starts_with("cc_")).unwrap_or(false)
        })
        .collect();
    files.sort();
    let mut obl: BTreeMap<String, Obl> = BTreeMap::new();
    let (mut programs, mut statements, mut nogas) = (0usize, 0usize, 0usize);
    let mut failed: Vec<String> = vec![];
    for f in &files {
        let name = f.file_stem().unwrap().to_string_lossy().to_string();
        let text = match std::fs::read_to_string(f) {
            Ok(t) => t,
            Err(e) => {
                failed.push(format!("{name}: {e}"));
                continue;
            }
        };
        let r = vcommon::catch(std::panic::AssertUnwindSafe(|| -> Result<(usize, bool), String> {
            let program = cairo_lang_sierra::ProgramParser::new().parse(&text).map_err(|e| format!("parse: {e:?}"))?;
            obligations(&program, &mut obl)
        }));
        match r {
            Ok(Ok((n, g))) => {
                programs += 1;
                statements += n;
                if !g {
                    nogas += 1;
                }
            }
            Ok(Err(e)) => failed.push(format!("{name}: {}", e.chars().take(200).collect::<String>())),
            Err(p) => failed.push(format!("{name}: panic {p}")),
        }
    }
    let mut v = String::from(
        "(* GENERATED by harness/h03 (zoo): the distinct (concrete libfunc, emitted CASM, declared per-branch\n   ApChange / Const cost) statements of the freshly compiled examples, bug samples and the\n   instantiation zoo -- do not edit. *)\nFrom Coq Require Import String.\nFrom Vmx Require Import Casm.\nImport ListNotations.\nOpen Scope Z_scope.\nOpen Scope string_scope.\n\nDefinition zoo_programs : list (string * code * list stmt_info) := [\n",
    );
    v.push_str(&obl.values().map(|o| o.coq.clone()).collect::<Vec<_>>().join(";\n"));
    v.push_str("\n].\n");
    std::fs::write(out_dir.join("Zoo.v"), v).unwrap();
    let mut generic: BTreeMap<String, usize> = BTreeMap::new();
    let mut tokens: BTreeMap<String, usize> = BTreeMap::new();
    for o in obl.values() {
        *generic.entry(o.libfunc.split('<').next().unwrap_or("").to_string()).or_default() += 1;
        for t in &o.tokens {
            *tokens.entry(t.clone()).or_default() += 1;
        }
    }
    let summary = serde_json::json!({
        "sierra_files": files.len(), "programs": programs, "programs_without_gas_metadata": nogas,
        "statements": statements, "distinct_obligations": obl.len(),
        "statements_represented": obl.values().map(|o| o.sites).sum::<usize>(),
        "instructions_in_table": obl.values().map(|o| o.n_instr).sum::<usize>(),
        "generic_libfuncs": generic.len(), "obligations_per_generic_libfunc": generic,
        "obligations_with_builtin_cost_tokens": tokens,
        "not_compiled": failed, "total_s": t0.elapsed().as_secs_f64(),
    });
    std::fs::write(out_dir.join("zoo.json"), serde_json::to_string_pretty(&summary).unwrap()).unwrap();
    println!(
        "zoo: {} programs ({} failed), {} invoke statements, {} distinct obligations, {:.1}s",
        programs, failed.len(), statements, obl.len(), t0.elapsed().as_secs_f64()
    );
}
