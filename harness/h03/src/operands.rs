//! Operand generation shared by the C03 fault leg and the C06 pipeline leg: boundary sets
//! {0,1,2,MAX-1,MAX,MIN,MIN+1,-1,2^k,2^k±1} per type, cross products, seeded random operands.
use num_bigint::BigInt;
use num_traits::{One, Zero};
use vcommon::Rng;

#[derive(Clone, Debug, PartialEq)]
pub enum Ty {
    U(u32),
    I(u32),
    Felt,
    U256,
    U512,
    Bool,
    /// BoundedInt<lo, hi> (one felt)
    B(BigInt, BigInt),
    NonZero(Box<Ty>),
}

pub fn pow2(k: u32) -> BigInt {
    BigInt::one() << k
}

impl Ty {
    /// Parses the Sierra debug name of a parameter type.
    pub fn parse(s: &str) -> Option<Ty> {
        let s = s.trim();
        if let Some(inner) = s.strip_prefix("NonZero<").and_then(|r| r.strip_suffix('>')) {
            return Ty::parse(inner).map(|t| Ty::NonZero(Box::new(t)));
        }
        if let Some(inner) = s.strip_prefix("BoundedInt<").and_then(|r| r.strip_suffix('>')) {
            let mut it = inner.split(',').map(|x| x.trim().parse::<BigInt>().ok());
            return match (it.next(), it.next(), it.next()) {
                (Some(Some(lo)), Some(Some(hi)), None) => Some(Ty::B(lo, hi)),
                _ => None,
            };
        }
        match s {
            "u8" => Some(Ty::U(8)),
            "u16" => Some(Ty::U(16)),
            "u32" => Some(Ty::U(32)),
            "u64" => Some(Ty::U(64)),
            "u128" => Some(Ty::U(128)),
            "i8" => Some(Ty::I(8)),
            "i16" => Some(Ty::I(16)),
            "i32" => Some(Ty::I(32)),
            "i64" => Some(Ty::I(64)),
            "i128" => Some(Ty::I(128)),
            "felt252" => Some(Ty::Felt),
            "core::integer::u256" => Some(Ty::U256),
            "core::integer::u512" => Some(Ty::U512),
            "core::bool" => Some(Ty::Bool),
            _ => None,
        }
    }
    pub fn min(&self) -> BigInt {
        match self {
            Ty::I(w) => -pow2(w - 1),
            Ty::B(lo, _) => lo.clone(),
            Ty::NonZero(t) => t.min(),
            _ => BigInt::zero(),
        }
    }
    pub fn max(&self) -> BigInt {
        match self {
            Ty::U(w) => pow2(*w) - 1,
            Ty::I(w) => pow2(w - 1) - 1,
            Ty::Felt => vcommon::stark_prime() - 1,
            Ty::U256 => pow2(256) - 1,
            Ty::U512 => pow2(512) - 1,
            Ty::Bool => BigInt::one(),
            Ty::B(_, hi) => hi.clone(),
            Ty::NonZero(t) => t.max(),
        }
    }
    pub fn bits(&self) -> u32 {
        match self {
            Ty::U(w) | Ty::I(w) => *w,
            Ty::Felt => 252,
            Ty::U256 => 256,
            Ty::U512 => 512,
            Ty::Bool => 1,
            Ty::B(lo, hi) => ((hi - lo).bits() as u32).max(lo.bits() as u32).max(hi.bits() as u32).max(2),
            Ty::NonZero(t) => t.bits(),
        }
    }
    pub fn contains(&self, v: &BigInt) -> bool {
        let ok = *v >= self.min() && *v <= self.max();
        match self {
            Ty::NonZero(_) => ok && !v.is_zero(),
            _ => ok,
        }
    }
    /// Number of felts of the value in memory / as runner arguments.
    pub fn size(&self) -> usize {
        match self {
            Ty::U256 => 2,
            Ty::U512 => 4,
            Ty::NonZero(t) => t.size(),
            _ => 1,
        }
    }
    /// The value as the felts passed to the runner (limbs little-endian; negative -> P - |v|).
    pub fn to_felts(&self, v: &BigInt) -> Vec<BigInt> {
        let p = vcommon::stark_prime();
        match self {
            Ty::U256 | Ty::U512 => {
                let n = self.size();
                let mask = pow2(128) - 1;
                (0..n).map(|i| (v >> (128 * i)) & &mask).collect()
            }
            Ty::NonZero(t) => t.to_felts(v),
            _ => vec![((v % &p) + &p) % &p],
        }
    }

    /// Boundary values of the type; `full` = the long list, otherwise a short one.
    pub fn boundary(&self, full: bool) -> Vec<BigInt> {
        let mut v: Vec<BigInt> = vec![];
        let (mn, mx) = (self.min(), self.max());
        let one = BigInt::one();
        for d in 0..3 {
            v.push(&mn + d);
            v.push(&mx - d);
        }
        for x in [0i32, 1, 2, -1, -2] {
            v.push(BigInt::from(x));
        }
        let b = self.bits();
        let mut ks: Vec<u32> = vec![b / 2, b - 1];
        if full {
            ks.extend([7, 8, 15, 16, 31, 32, 63, 64, 127, 128, 129, 250, 251, 255, 256, 384].iter().filter(|k| **k <= b));
            ks.push(b.saturating_sub(2));
        } else {
            ks.extend([8u32, 64, 128].iter().filter(|k| **k < b));
        }
        for k in ks {
            for s in [1i32, -1] {
                let base = pow2(k) * s;
                v.push(base.clone());
                v.push(&base + &one);
                v.push(&base - &one);
            }
        }
        if let Ty::Felt = self {
            let p = vcommon::stark_prime();
            v.push((&p - 1) / 2);
            v.push((&p + 1) / 2);
            v.push(pow2(251));
            v.push(pow2(251) + 17 * pow2(192));
            v.push(&p - pow2(128));
            v.push(&p - pow2(128) - 1);
            v.push(&p - pow2(127));
            v.push(&p - 129);
            v.push(&p - 128);
            v.push(&p - 256);
        }
        if matches!(self, Ty::U256 | Ty::U512) {
            // multi-limb types: the full cross product of per-limb boundary values across the
            // 128-bit limbs (carries between limbs live there), plus square-root edge values
            let limbs = limb_values(full);
            let n = self.size();
            let mut acc: Vec<BigInt> = vec![BigInt::zero()];
            for i in 0..n {
                // u512: only the short limb list, else 9^4 values
                let ls = if n > 2 { limb_values(false) } else { limbs.clone() };
                let mut next = vec![];
                for a in &acc {
                    for l in &ls {
                        next.push(a + (l << (128 * i)));
                    }
                }
                acc = next;
            }
            v.extend(acc);
            // perfect squares +- small, and the values with 2*isqrt(v) - (v - isqrt(v)^2) == 2^128
            let mut roots: Vec<BigInt> = vec![pow2(64) - 1, pow2(64), pow2(127) - 1, pow2(127), pow2(128) - 1];
            if full {
                roots.extend([pow2(32), pow2(96) + 1, pow2(126) + 3, pow2(127) + pow2(64)]);
            }
            for r in &roots {
                let sq = r * r;
                for d in [-2i32, -1, 0, 1, 2] {
                    v.push(&sq + d);
                }
                v.push(&sq + 2 * r);
                v.push(&sq + 2 * r + 1);
            }
            for k in 0..(if full { 6 } else { 3 }) {
                let r = pow2(127) + k;
                v.push(&r * &r + 2 * k);
                v.push(&r * &r + 2 * k + 1);
                v.push(&r * &r + 2 * k - 1);
            }
        }
        v.retain(|x| self.contains(x));
        v.sort();
        v.dedup();
        v
    }

    /// For multi-limb types: the cross product of the per-limb boundary values (always used in
    /// full for pairs of operands, never sampled).
    pub fn limb_cross(&self, full: bool) -> Option<Vec<BigInt>> {
        let inner = match self {
            Ty::NonZero(t) => t.as_ref(),
            t => t,
        };
        let n = match inner {
            Ty::U256 => 2,
            Ty::U512 => 4,
            _ => return None,
        };
        // four limbs: {0, 1, 2^128-1} per limb in quick (81 values), the short list in thorough (625)
        let ls = if n > 2 {
            if full { limb_values(false) } else { vec![BigInt::zero(), BigInt::one(), pow2(128) - 1] }
        } else {
            limb_values(full)
        };
        let mut acc: Vec<BigInt> = vec![BigInt::zero()];
        for i in 0..n {
            let mut next = vec![];
            for a in &acc {
                for l in &ls {
                    next.push(a + (l << (128 * i)));
                }
            }
            acc = next;
        }
        acc.retain(|x| self.contains(x));
        Some(acc)
    }

    pub fn random(&self, rng: &mut Rng) -> BigInt {
        loop {
            let r = match rng.below(4) {
                // uniform over the whole range
                0 | 1 => {
                    let span = self.max() - self.min() + 1;
                    self.min() + rng.bits(self.bits() + 8) % span
                }
                // small magnitude
                2 => {
                    let k = rng.below(self.bits() as u64) as u32 + 1;
                    let x = rng.bits(k);
                    if self.min() < BigInt::zero() && rng.bool() { -x } else { x }
                }
                // near the top
                _ => {
                    let k = rng.below(self.bits() as u64 / 2 + 1) as u32 + 1;
                    self.max() - rng.bits(k)
                }
            };
            if self.contains(&r) {
                return r;
            }
        }
    }
}

/// Boundary values of one 128-bit limb.
pub fn limb_values(full: bool) -> Vec<BigInt> {
    let mut v = vec![BigInt::zero(), BigInt::one(), pow2(64), pow2(128) - 2, pow2(128) - 1];
    if full {
        v.extend([pow2(64) - 1, pow2(127)]);
    }
    v.sort();
    v
}

/// Operand tuples for a parameter list: cross product of boundary sets (capped by sampling when it
/// exceeds `cap`) plus `n_random` seeded random tuples.
pub fn tuples(tys: &[Ty], full: bool, cap: usize, n_random: usize, rng: &mut Rng) -> Vec<Vec<BigInt>> {
    tuples_with(tys, &[], full, cap, n_random, rng)
}

/// As [tuples]; `extra[i]` are additional values of special interest for parameter i (thresholds
/// of the instantiation, taken from the wrapper's header).
pub fn tuples_with(
    tys: &[Ty],
    extra: &[Vec<BigInt>],
    full: bool,
    cap: usize,
    n_random: usize,
    rng: &mut Rng,
) -> Vec<Vec<BigInt>> {
    let sets: Vec<Vec<BigInt>> = tys
        .iter()
        .enumerate()
        .map(|(i, t)| {
            let mut s = t.boundary(full);
            if let Some(e) = extra.get(i) {
                s.extend(e.iter().filter(|x| t.contains(x)).cloned());
                s.sort();
                s.dedup();
            }
            s
        })
        .collect();
    let total: usize = sets.iter().map(|s| s.len().max(1)).product();
    let mut out: Vec<Vec<BigInt>> = vec![];
    if tys.is_empty() {
        return vec![vec![]];
    }
    if total <= cap {
        let mut idx = vec![0usize; sets.len()];
        loop {
            out.push(idx.iter().enumerate().map(|(i, k)| sets[i][*k].clone()).collect());
            let mut i = 0;
            loop {
                idx[i] += 1;
                if idx[i] < sets[i].len() {
                    break;
                }
                idx[i] = 0;
                i += 1;
                if i == sets.len() {
                    break;
                }
            }
            if i == sets.len() {
                break;
            }
        }
    } else {
        // each boundary value of each position at least once, the rest sampled
        for (i, s) in sets.iter().enumerate() {
            for x in s {
                let mut t: Vec<BigInt> = sets.iter().map(|s| rng.pick(s).clone()).collect();
                t[i] = x.clone();
                out.push(t);
            }
        }
        while out.len() < cap {
            out.push(sets.iter().map(|s| rng.pick(s).clone()).collect());
        }
    }
    // multi-limb operands: full cross product of the per-limb boundary values of the first two
    // multi-limb parameters (carry chains); further parameters take a few of their boundary values
    let ml: Vec<usize> = (0..tys.len()).filter(|i| tys[*i].limb_cross(full).is_some()).collect();
    if !ml.is_empty() {
        let a_set = tys[ml[0]].limb_cross(full).unwrap();
        let b_set = if ml.len() > 1 { tys[ml[1]].limb_cross(full).unwrap() } else { vec![] };
        let mut push = |a: &BigInt, b: Option<&BigInt>, rng: &mut Rng| {
            let mut t: Vec<BigInt> = sets.iter().map(|s| rng.pick(s).clone()).collect();
            t[ml[0]] = a.clone();
            if let Some(b) = b {
                t[ml[1]] = b.clone();
            }
            out.push(t);
        };
        for a in &a_set {
            if b_set.is_empty() {
                push(a, None, rng);
            }
            for b in &b_set {
                push(a, Some(b), rng);
            }
        }
    }
    for _ in 0..n_random {
        out.push(tys.iter().map(|t| t.random(rng)).collect());
    }
    // related operands (equal, adjacent) are where comparisons / subtractions have their edges
    if tys.len() == 2 && tys[0] == tys[1] {
        for _ in 0..n_random / 2 + 1 {
            let a = tys[0].random(rng);
            for d in [-1i32, 0, 1] {
                let b = &a + d;
                if tys[1].contains(&b) {
                    out.push(vec![a.clone(), b]);
                }
            }
        }
    }
    out.sort();
    out.dedup();
    out
}
