//! h03 -- translator (T) and runner legs for C03 / C06.
//!   h03 translate <wrappers_dir> <out_dir>
//!   h03 fault <wrappers_dir> <out_dir> <quick|thorough>
//!   h03 pipeline <out_dir> <quick|thorough>
mod compile;
mod fault;
mod operands;
mod oracle;
mod pipeline;
mod translate;

use std::path::{Path, PathBuf};
use std::time::Instant;

fn main() {
    let args: Vec<String> = std::env::args().collect();
    if args.len() < 2 {
        eprintln!("usage: h03 translate <wrappers_dir> <out_dir>");
        std::process::exit(2);
    }
    match args[1].as_str() {
        "translate" => translate_cmd(Path::new(&args[2]), Path::new(&args[3])),
        "fault" => fault_cmd(Path::new(&args[2]), Path::new(&args[3]), args.get(4).map(|s| s.as_str()).unwrap_or("quick")),
        "pipeline" => pipeline_cmd(Path::new(&args[2]), args.get(3).map(|s| s.as_str()).unwrap_or("quick")),
        m => {
            eprintln!("unknown mode {m}");
            std::process::exit(2);
        }
    }
}

fn translate_cmd(wrappers: &Path, out: &Path) {
    std::fs::create_dir_all(out).unwrap();
    let t0 = Instant::now();
    let files: Vec<PathBuf> = compile::list_cairo_files(wrappers);
    let mut db = compile::new_db();
    let compiled = compile::compile_files(&mut db, &files, &out.join("crates"));
    let mut summary = vec![];
    for c in &compiled {
        let r = c.program.as_ref().map_err(|e| e.clone()).and_then(|p| translate::translate(&c.name, p));
        match r {
            Ok(t) => {
                std::fs::write(out.join(format!("W_{}.v", c.name)), &t.coq).unwrap();
                std::fs::write(out.join(format!("{}.casm", c.name)), &t.casm_text).unwrap();
                summary.push(serde_json::json!({"name": c.name, "ok": true, "instructions": t.n_instr,
                    "hints": t.n_hints, "hint_kinds": t.hint_kinds,
                    "params": t.params.iter().map(|(a,b)| format!("{a}:{b}")).collect::<Vec<_>>(),
                    "rets": t.rets.iter().map(|(a,b)| format!("{a}:{b}")).collect::<Vec<_>>()}));
            }
            Err(e) => summary.push(serde_json::json!({"name": c.name, "ok": false, "error": e})),
        }
    }
    std::fs::write(out.join("translate.json"), serde_json::to_string_pretty(&summary).unwrap()).unwrap();
    println!("translated {} wrappers in {:.1}s", compiled.len(), t0.elapsed().as_secs_f64());
}

const BUILTINS: &[&str] = &[
    "RangeCheck", "Bitwise", "Pedersen", "Poseidon", "EcOp", "SegmentArena", "GasBuiltin", "System",
    "RangeCheck96", "AddMod", "MulMod", "BuiltinCosts",
];

/// User parameter types of `main` (builtins skipped); None if a type is not supported.
pub fn user_params(program: &cairo_lang_sierra::program::Program) -> Option<Vec<operands::Ty>> {
    let func = program
        .funcs
        .iter()
        .find(|f| f.id.debug_name.as_ref().map(|n| n.ends_with("::main")).unwrap_or(false))?;
    let mut v = vec![];
    for t in &func.signature.param_types {
        let n = format!("{t}");
        if BUILTINS.contains(&n.as_str()) {
            continue;
        }
        v.push(operands::Ty::parse(&n)?);
    }
    Some(v)
}

fn fault_cmd(wrappers: &Path, out: &Path, tier: &str) {
    use rayon::prelude::*;
    vcommon::quiet_panics();
    std::fs::create_dir_all(out).unwrap();
    let t0 = Instant::now();
    let seed = vcommon::Rng::from_env().0;
    let full = tier == "thorough";
    let files: Vec<PathBuf> = compile::list_cairo_files(wrappers);
    let mut db = compile::new_db();
    let compiled = compile::compile_files(&mut db, &files, &out.join("crates"));
    let t_compile = t0.elapsed().as_secs_f64();
    let mut errors: Vec<String> = vec![];
    let mut jobs = vec![];
    for c in compiled {
        match c.program {
            Err(e) => errors.push(format!("{}: {}", c.name, e.chars().take(300).collect::<String>())),
            Ok(p) => match user_params(&p) {
                None => errors.push(format!("{}: unsupported parameter type", c.name)),
                Some(tys) => jobs.push((c.name, p, tys)),
            },
        }
    }
    drop(db);
    let reports: Vec<fault::WrapperReport> =
        jobs.par_iter().map(|(n, p, tys)| fault::explore(n, p, tys, full, seed)).collect();
    let mut violations = vec![];
    let mut samples = vec![];
    let mut per = serde_json::Map::new();
    let (mut tuples, mut occs, mut mutated, mut failed, mut same, mut honest_failed) = (0, 0, 0, 0, 0, 0);
    let mut kinds: std::collections::BTreeMap<String, usize> = Default::default();
    let mut wrappers_run = vec![];
    for r in &reports {
        tuples += r.tuples;
        occs += r.occurrences;
        mutated += r.mutated;
        failed += r.failed;
        same += r.same;
        honest_failed += r.honest_failed;
        for (k, v) in &r.hint_kinds {
            *kinds.entry(k.clone()).or_default() += v;
        }
        violations.extend(r.violations.iter().cloned());
        if samples.len() < 8 {
            samples.extend(r.samples.iter().take(1).cloned());
        }
        if let Some(e) = &r.error {
            errors.push(format!("{}: {}", r.name, e));
        }
        wrappers_run.push(r.name.clone());
        per.insert(
            r.name.clone(),
            serde_json::json!({"tuples": r.tuples, "hint_occurrences": r.occurrences, "mutated_runs": r.mutated,
                "vm_failures": r.failed, "same_result": r.same, "violations": r.violations.len()}),
        );
    }
    let res = serde_json::json!({
        "summary": {
            "wrappers": reports.len(), "wrappers_run": wrappers_run, "operand_tuples": tuples,
            "hint_occurrences": occs, "mutated_runs": mutated, "distinct_nontrivial": mutated,
            "outcomes": {"vm_failure": failed, "same_result": same, "different_result": violations.len()},
            "honest_runs_failed": honest_failed, "hint_kinds": kinds, "per_wrapper": per,
            "compile_s": t_compile, "total_s": t0.elapsed().as_secs_f64(), "tier": tier, "seed": seed,
        },
        "violations": violations, "samples": samples, "errors": errors,
    });
    std::fs::write(out.join("fault.json"), serde_json::to_string_pretty(&res).unwrap()).unwrap();
    println!(
        "fault: {} wrappers, {} tuples, {} hint occurrences, {} mutated runs: {} VM failures, {} same result, {} DIFFERENT; {} errors; {:.1}s",
        reports.len(), tuples, occs, mutated, failed, same, violations.len(), errors.len(), t0.elapsed().as_secs_f64()
    );
}

fn pipeline_cmd(out: &Path, tier: &str) {
    use rayon::prelude::*;
    vcommon::quiet_panics();
    let t0 = Instant::now();
    let seed = vcommon::Rng::from_env().0;
    let full = tier == "thorough";
    let cases_dir = out.join("cases");
    std::fs::create_dir_all(&cases_dir).unwrap();
    let defs = pipeline::op_table();
    let files = pipeline::write_sources(&defs, &out.join("src"));
    let mut db = compile::new_db();
    let compiled = compile::compile_files(&mut db, &files, &out.join("crates"));
    drop(db);
    let t_compile = t0.elapsed().as_secs_f64();
    let mut errors: Vec<String> = vec![];
    let mut jobs = vec![];
    for (d, c) in defs.iter().zip(compiled) {
        assert_eq!(d.name, c.name);
        match c.program {
            Ok(p) => jobs.push((d.clone(), p)),
            Err(e) => errors.push(format!("{}: does not compile: {}", d.name, e.chars().take(400).collect::<String>())),
        }
    }
    let runs: Vec<pipeline::OpRun> = jobs.par_iter().map(|(d, p)| pipeline::run_op(d, p, full, seed)).collect();
    let mut evals = 0usize;
    let mut distinct: std::collections::BTreeSet<String> = Default::default();
    let mut oracle_failures = vec![];
    let mut oracle_checked = 0usize;
    let mut samples = vec![];
    let mut failed_runs = 0usize;
    let mut panics = 0usize;
    let mut per_type: std::collections::BTreeMap<String, usize> = Default::default();
    let mut sweep_evals = 0usize;
    let mut all_lines: Vec<String> = vec![];
    for r in &runs {
        if let Some(e) = &r.error {
            errors.push(format!("{}: {}", r.def.name, e));
            continue;
        }
        all_lines.extend(pipeline::case_lines(r));
        evals += r.cases.len() + pipeline::write_sweep_shards(r, &cases_dir);
        *per_type.entry(r.def.tyname.clone()).or_default() += r.cases.len();
        sweep_evals += r.rows.iter().map(|x| x.1.len()).sum::<usize>();
        let mut check = |args: &Vec<num_bigint::BigInt>, o: &fault::Outcome| {
            match o {
                fault::Outcome::Failed(e) => {
                    failed_runs += 1;
                    if oracle_failures.len() < 50 {
                        oracle_failures.push(serde_json::json!({"op": r.def.name, "source": r.def.src,
                            "args": args.iter().map(|x| x.to_string()).collect::<Vec<_>>(),
                            "why": format!("the run FAILED in the VM: {e}")}));
                    }
                }
                fault::Outcome::Value(v) => {
                    if matches!(v, cairo_lang_runner::RunResultValue::Panic(_)) {
                        panics += 1;
                    }
                    let key = r.def.coq_op.trim_start_matches('(').split(' ').next().unwrap().to_string();
                    if let Some(exp) = oracle::expected(&key, &r.def.ty, args) {
                        oracle_checked += 1;
                        let got = match v {
                            cairo_lang_runner::RunResultValue::Success(xs) => {
                                oracle::Expect::Success(xs.iter().map(|x| x.to_bigint()).collect())
                            }
                            cairo_lang_runner::RunResultValue::Panic(xs) => {
                                if xs.len() == 1 {
                                    let want = match &exp { oracle::Expect::Panic(s) => Some(s.clone()), _ => None };
                                    match want {
                                        Some(s) if oracle::short_string(&s) == xs[0].to_bigint() => oracle::Expect::Panic(s),
                                        _ => oracle::Expect::Panic(format!("<felt {}>", xs[0].to_bigint())),
                                    }
                                } else {
                                    oracle::Expect::Panic(format!("<{} felts>", xs.len()))
                                }
                            }
                        };
                        if got != exp && oracle_failures.len() < 50 {
                            oracle_failures.push(serde_json::json!({"op": r.def.name, "source": r.def.src,
                                "args": args.iter().map(|x| x.to_string()).collect::<Vec<_>>(),
                                "got": format!("{got:?}"), "expected": format!("{exp:?}"),
                                "why": format!("{} on {:?}: implementation returned {:?}, the mathematical result is {:?}",
                                    r.def.name, args.iter().map(|x| x.to_string()).collect::<Vec<_>>(), got, exp)}));
                        }
                    }
                }
            }
        };
        for (args, o) in &r.cases {
            distinct.insert(format!("{}{:?}", r.def.name, args));
            check(args, o);
        }
        for (a, os) in &r.rows {
            let mut b = r.def.args[1].min();
            for o in os {
                while !r.def.args[1].contains(&b) {
                    b += 1;
                }
                distinct.insert(format!("{}[{}, {}]", r.def.name, a, b));
                check(&vec![a.clone(), b.clone()], o);
                b += 1;
            }
        }
        if samples.len() < 12 && !r.cases.is_empty() {
            let (args, o) = &r.cases[r.cases.len() / 2];
            samples.push(format!("{}({}) = {}", r.def.name,
                args.iter().map(|x| x.to_string()).collect::<Vec<_>>().join(", "), pipeline::coq_outcome(o)));
        }
    }
    let n_shards = pipeline::write_case_shards(&all_lines, &cases_dir);
    std::fs::write(out.join("oracle_failures.json"), serde_json::to_string_pretty(&oracle_failures).unwrap()).unwrap();
    std::fs::write(out.join("samples.txt"), samples.join("\n")).unwrap();
    let summary = serde_json::json!({
        "functions": defs.len(), "functions_compiled": jobs.len(), "evaluations": evals, "case_shards": n_shards,
        "distinct_cases": distinct.len(), "exhaustive_8bit_evaluations": sweep_evals,
        "runs_that_panicked": panics, "runs_failed_in_vm": failed_runs,
        "oracle_checked": oracle_checked, "oracle_failures": oracle_failures.len(),
        "cases_per_type": per_type, "errors": errors, "tier": tier, "seed": seed,
        "compile_s": t_compile, "total_s": t0.elapsed().as_secs_f64(),
    });
    std::fs::write(out.join("summary.json"), serde_json::to_string_pretty(&summary).unwrap()).unwrap();
    println!(
        "pipeline: {} functions ({} compiled), {} evaluations ({} in 8-bit sweeps), {} panics, {} VM failures, oracle: {} checked / {} failures, {} errors, {:.1}s",
        defs.len(), jobs.len(), evals, sweep_evals, panics, failed_runs, oracle_checked, oracle_failures.len(), errors.len(),
        t0.elapsed().as_secs_f64()
    );
}
