//! h03 -- translator (T) and runner legs for C03 / C06.
//!   h03 translate <wrappers_dir> <out_dir>
//!   h03 fault <wrappers_dir> <out_dir> <quick|thorough>
mod compile;
mod fault;
mod operands;
mod translate;

use std::path::{Path, PathBuf};
use std::time::Instant;

fn main() {
    let args: Vec<String> = std::env::args().collect();
    if args.len() < 2 {
        eprintln!("usage: h03 translate <wrappers_dir> <out_dir>");
        std::process::exit(2);
    }
    match args[1].as_str() {
        "translate" => translate_cmd(Path::new(&args[2]), Path::new(&args[3])),
        "fault" => fault_cmd(Path::new(&args[2]), Path::new(&args[3]), args.get(4).map(|s| s.as_str()).unwrap_or("quick")),
        m => {
            eprintln!("unknown mode {m}");
            std::process::exit(2);
        }
    }
}

fn translate_cmd(wrappers: &Path, out: &Path) {
    std::fs::create_dir_all(out).unwrap();
    let t0 = Instant::now();
    let files: Vec<PathBuf> = compile::list_cairo_files(wrappers);
    let mut db = compile::new_db();
    let compiled = compile::compile_files(&mut db, &files, &out.join("crates"));
    let mut summary = vec![];
    for c in &compiled {
        let r = c.program.as_ref().map_err(|e| e.clone()).and_then(|p| translate::translate(&c.name, p));
        match r {
            Ok(t) => {
                std::fs::write(out.join(format!("W_{}.v", c.name)), &t.coq).unwrap();
                std::fs::write(out.join(format!("{}.casm", c.name)), &t.casm_text).unwrap();
                summary.push(serde_json::json!({"name": c.name, "ok": true, "instructions": t.n_instr,
                    "hints": t.n_hints, "hint_kinds": t.hint_kinds,
                    "params": t.params.iter().map(|(a,b)| format!("{a}:{b}")).collect::<Vec<_>>(),
                    "rets": t.rets.iter().map(|(a,b)| format!("{a}:{b}")).collect::<Vec<_>>()}));
            }
            Err(e) => summary.push(serde_json::json!({"name": c.name, "ok": false, "error": e})),
        }
    }
    std::fs::write(out.join("translate.json"), serde_json::to_string_pretty(&summary).unwrap()).unwrap();
    println!("translated {} wrappers in {:.1}s", compiled.len(), t0.elapsed().as_secs_f64());
}

const BUILTINS: &[&str] = &[
    "RangeCheck", "Bitwise", "Pedersen", "Poseidon", "EcOp", "SegmentArena", "GasBuiltin", "System",
    "RangeCheck96", "AddMod", "MulMod", "BuiltinCosts",
];

/// User parameter types of `main` (builtins skipped); None if a type is not supported.
pub fn user_params(program: &cairo_lang_sierra::program::Program) -> Option<Vec<operands::Ty>> {
    let func = program
        .funcs
        .iter()
        .find(|f| f.id.debug_name.as_ref().map(|n| n.ends_with("::main")).unwrap_or(false))?;
    let mut v = vec![];
    for t in &func.signature.param_types {
        let n = format!("{t}");
        if BUILTINS.contains(&n.as_str()) {
            continue;
        }
        v.push(operands::Ty::parse(&n)?);
    }
    Some(v)
}

fn fault_cmd(wrappers: &Path, out: &Path, tier: &str) {
    use rayon::prelude::*;
    vcommon::quiet_panics();
    std::fs::create_dir_all(out).unwrap();
    let t0 = Instant::now();
    let seed = vcommon::Rng::from_env().0;
    let full = tier == "thorough";
    let files: Vec<PathBuf> = compile::list_cairo_files(wrappers);
    let mut db = compile::new_db();
    let compiled = compile::compile_files(&mut db, &files, &out.join("crates"));
    let t_compile = t0.elapsed().as_secs_f64();
    let mut errors: Vec<String> = vec![];
    let mut jobs = vec![];
    for c in compiled {
        match c.program {
            Err(e) => errors.push(format!("{}: {}", c.name, e.chars().take(300).collect::<String>())),
            Ok(p) => match user_params(&p) {
                None => errors.push(format!("{}: unsupported parameter type", c.name)),
                Some(tys) => jobs.push((c.name, p, tys)),
            },
        }
    }
    drop(db);
    let reports: Vec<fault::WrapperReport> =
        jobs.par_iter().map(|(n, p, tys)| fault::explore(n, p, tys, full, seed)).collect();
    let mut violations = vec![];
    let mut samples = vec![];
    let mut per = serde_json::Map::new();
    let (mut tuples, mut occs, mut mutated, mut failed, mut same, mut honest_failed) = (0, 0, 0, 0, 0, 0);
    let mut kinds: std::collections::BTreeMap<String, usize> = Default::default();
    let mut wrappers_run = vec![];
    for r in &reports {
        tuples += r.tuples;
        occs += r.occurrences;
        mutated += r.mutated;
        failed += r.failed;
        same += r.same;
        honest_failed += r.honest_failed;
        for (k, v) in &r.hint_kinds {
            *kinds.entry(k.clone()).or_default() += v;
        }
        violations.extend(r.violations.iter().cloned());
        if samples.len() < 8 {
            samples.extend(r.samples.iter().take(1).cloned());
        }
        if let Some(e) = &r.error {
            errors.push(format!("{}: {}", r.name, e));
        }
        wrappers_run.push(r.name.clone());
        per.insert(
            r.name.clone(),
            serde_json::json!({"tuples": r.tuples, "hint_occurrences": r.occurrences, "mutated_runs": r.mutated,
                "vm_failures": r.failed, "same_result": r.same, "violations": r.violations.len()}),
        );
    }
    let res = serde_json::json!({
        "summary": {
            "wrappers": reports.len(), "wrappers_run": wrappers_run, "operand_tuples": tuples,
            "hint_occurrences": occs, "mutated_runs": mutated, "distinct_nontrivial": mutated,
            "outcomes": {"vm_failure": failed, "same_result": same, "different_result": violations.len()},
            "honest_runs_failed": honest_failed, "hint_kinds": kinds, "per_wrapper": per,
            "compile_s": t_compile, "total_s": t0.elapsed().as_secs_f64(), "tier": tier, "seed": seed,
        },
        "violations": violations, "samples": samples, "errors": errors,
    });
    std::fs::write(out.join("fault.json"), serde_json::to_string_pretty(&res).unwrap()).unwrap();
    println!(
        "fault: {} wrappers, {} tuples, {} hint occurrences, {} mutated runs: {} VM failures, {} same result, {} DIFFERENT; {} errors; {:.1}s",
        reports.len(), tuples, occs, mutated, failed, same, violations.len(), errors.len(), t0.elapsed().as_secs_f64()
    );
}
