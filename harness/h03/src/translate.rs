//! Translator (T): Sierra -> CASM with the current `cairo-lang-sierra-to-casm`, printed as a Coq term.
use cairo_lang_casm::hints::{CoreHint, CoreHintBase, Hint};
use cairo_lang_casm::instructions::{Instruction, InstructionBody};
use cairo_lang_casm::operand::{
    BinOpOperand, CellRef, DerefOrImmediate, Operation, Register, ResOperand,
};
use cairo_lang_sierra::program::Program;
use cairo_lang_sierra_to_casm::compiler::{CairoProgram, SierraToCasmConfig};
use cairo_lang_sierra_to_casm::metadata::calc_metadata_ap_change_only;
use cairo_lang_sierra_type_size::ProgramRegistryInfo;
use num_bigint::BigInt;

pub fn z(v: &BigInt) -> String {
    // hex for large literals (decimal Z literals parse quadratically in Coq)
    if v.sign() == num_bigint::Sign::Minus {
        format!("({})", v)
    } else if v.bits() > 64 {
        format!("0x{:x}", v)
    } else {
        format!("{}", v)
    }
}
fn zi(v: i64) -> String {
    if v < 0 { format!("({})", v) } else { format!("{}", v) }
}
fn cell(c: &CellRef) -> String {
    format!("(cr {} {})", match c.register { Register::AP => "AP", Register::FP => "FP" }, zi(c.offset as i64))
}
fn doi(d: &DerefOrImmediate) -> String {
    match d {
        DerefOrImmediate::Deref(c) => format!("(DDeref {})", cell(c)),
        DerefOrImmediate::Immediate(v) => format!("(DImm {})", z(&v.value)),
    }
}
fn res(r: &ResOperand) -> String {
    match r {
        ResOperand::Deref(c) => format!("(RDeref {})", cell(c)),
        ResOperand::DoubleDeref(c, o) => format!("(RDouble {} {})", cell(c), zi(*o as i64)),
        ResOperand::Immediate(v) => format!("(RImm {})", z(&v.value)),
        ResOperand::BinOp(BinOpOperand { op, a, b }) => format!(
            "(RBin {} {} {})",
            match op { Operation::Add => "OAdd", Operation::Mul => "OMul" },
            cell(a),
            doi(b)
        ),
    }
}
fn hint_name(h: &Hint) -> String {
    let s = format!("{h:?}");
    let s = s.trim_start_matches("Core(").trim_start_matches("Core(").trim_start_matches("Deprecated(");
    s.chars().take_while(|c| c.is_alphanumeric() || *c == '_').collect()
}
pub fn hint(h: &Hint) -> String {
    match h {
        Hint::Core(CoreHintBase::Core(c)) => match c {
            CoreHint::AllocSegment { dst } => format!("(HAllocSegment {})", cell(dst)),
            CoreHint::TestLessThan { lhs, rhs, dst } => {
                format!("(HTestLessThan {} {} {})", res(lhs), res(rhs), cell(dst))
            }
            CoreHint::TestLessThanOrEqual { lhs, rhs, dst } => {
                format!("(HTestLessThanOrEqual {} {} {})", res(lhs), res(rhs), cell(dst))
            }
            CoreHint::WideMul128 { lhs, rhs, high, low } => {
                format!("(HWideMul128 {} {} {} {})", res(lhs), res(rhs), cell(high), cell(low))
            }
            CoreHint::DivMod { lhs, rhs, quotient, remainder } => {
                format!("(HDivMod {} {} {} {})", res(lhs), res(rhs), cell(quotient), cell(remainder))
            }
            CoreHint::SquareRoot { value, dst } => format!("(HSquareRoot {} {})", res(value), cell(dst)),
            CoreHint::LinearSplit { value, scalar, max_x, x, y } => format!(
                "(HLinearSplit {} {} {} {} {})",
                res(value), res(scalar), res(max_x), cell(x), cell(y)
            ),
            CoreHint::Uint256DivMod {
                dividend0, dividend1, divisor0, divisor1, quotient0, quotient1, remainder0, remainder1,
            } => format!(
                "(HUint256DivMod {} {} {} {} {} {} {} {})",
                res(dividend0), res(dividend1), res(divisor0), res(divisor1),
                cell(quotient0), cell(quotient1), cell(remainder0), cell(remainder1)
            ),
            _ => format!("(HOther \"{}\")", hint_name(h)),
        },
        _ => format!("(HOther \"{}\")", hint_name(h)),
    }
}
fn body(b: &InstructionBody) -> String {
    match b {
        InstructionBody::AddAp(i) => format!("(AddAp {})", res(&i.operand)),
        InstructionBody::AssertEq(i) => format!("(AssertEq {} {})", cell(&i.a), res(&i.b)),
        InstructionBody::Call(i) => format!("(Call {} {})", doi(&i.target), i.relative),
        InstructionBody::Jnz(i) => format!("(Jnz {} {})", doi(&i.jump_offset), cell(&i.condition)),
        InstructionBody::Jump(i) => format!("(Jump {} {})", doi(&i.target), i.relative),
        InstructionBody::Ret(_) => "Ret".to_string(),
        InstructionBody::QM31AssertEq(_) => "(Unsupported \"QM31AssertEq\")".to_string(),
        InstructionBody::Blake2sCompress(_) => "(Unsupported \"Blake2sCompress\")".to_string(),
    }
}
pub fn instr(i: &Instruction) -> String {
    let hs: Vec<String> = i.hints.iter().map(hint).collect();
    format!("Ins {} {} {} [{}]", body(&i.body), i.inc_ap, i.body.op_size(), hs.join("; "))
}

pub struct Casm {
    pub casm: CairoProgram,
    pub info: ProgramRegistryInfo,
}

/// Sierra -> CASM exactly as `RunnableBuilder::new(program, None)` does (no gas usage check).
pub fn to_casm(program: &Program) -> Result<Casm, String> {
    let info = ProgramRegistryInfo::new(program).map_err(|e| format!("registry: {e}"))?;
    let metadata = calc_metadata_ap_change_only(program, &info).map_err(|e| format!("metadata: {e}"))?;
    let casm = cairo_lang_sierra_to_casm::compiler::compile(
        program,
        &info,
        &metadata,
        SierraToCasmConfig { gas_usage_check: false, max_bytecode_size: usize::MAX },
    )
    .map_err(|e| format!("sierra-to-casm: {e}"))?;
    Ok(Casm { casm, info })
}

pub struct Translated {
    pub coq: String,
    pub n_instr: usize,
    pub n_hints: usize,
    pub hint_kinds: Vec<String>,
    pub casm_text: String,
    pub params: Vec<(String, i16)>,
    pub rets: Vec<(String, i16)>,
}

/// The Coq file for one wrapper: `code_<name>`, `entry_<name>`, `params_<name>`, `rets_<name>`.
pub fn translate(name: &str, program: &Program) -> Result<Translated, String> {
    let Casm { casm, info } = to_casm(program)?;
    let func = program
        .funcs
        .iter()
        .find(|f| f.id.debug_name.as_ref().map(|n| n.ends_with("::main")).unwrap_or(false))
        .ok_or("no function ending in ::main")?;
    let entry = casm.debug_info.sierra_statement_info[func.entry_point.0].start_offset;
    let tys = |ts: &[cairo_lang_sierra::ids::ConcreteTypeId]| -> Vec<(String, i16)> {
        ts.iter().map(|t| (format!("{}", t), info.type_sizes[t])).collect()
    };
    let params = tys(&func.signature.param_types);
    let rets = tys(&func.signature.ret_types);
    let mut out = String::new();
    out.push_str(&format!(
        "(* GENERATED by harness/h03 (translator) from /verif/wrappers/{name}.cairo with the compiler\n   linked from /repo -- do not edit.  Sierra signature: ({}) -> ({}) *)\n",
        params.iter().map(|(t, s)| format!("{t}:{s}")).collect::<Vec<_>>().join(", "),
        rets.iter().map(|(t, s)| format!("{t}:{s}")).collect::<Vec<_>>().join(", "),
    ));
    out.push_str("From Coq Require Import String.\nFrom Vmx Require Import Casm.\nImport ListNotations.\nOpen Scope Z_scope.\nOpen Scope string_scope.\n\n");
    out.push_str(&format!("Definition code_{name} : list (Z * instr) := [\n"));
    let mut off = 0usize;
    let mut n_hints = 0;
    let mut kinds = vec![];
    let mut text = String::new();
    let n = casm.instructions.len();
    for (k, i) in casm.instructions.iter().enumerate() {
        out.push_str(&format!(" ({}, {}){}\n", off, instr(i), if k + 1 < n { ";" } else { "" }));
        text.push_str(&format!("{:4}: {}\n", off, i.to_string().replace('\n', " ")));
        n_hints += i.hints.len();
        for h in &i.hints {
            kinds.push(hint_name(h));
        }
        off += i.body.op_size();
    }
    out.push_str("].\n\n");
    // per Sierra invoke statement: code range, and per branch the target offset, the declared
    // ApChange (Known k) and the declared Const gas cost (BranchChanges of the compiled invocation)
    out.push_str(&format!("Definition stmts_{name} : list stmt_info := [\n"));
    let mut sts = vec![];
    for (idx, st) in program.statements.iter().enumerate() {
        let cairo_lang_sierra::program::GenStatement::Invocation(inv) = st else { continue };
        let info = &casm.debug_info.sierra_statement_info[idx];
        let cairo_lang_sierra_to_casm::compiler::StatementKindDebugInfo::Invoke(ii) = &info.additional_kind_info
        else {
            continue;
        };
        let lf = format!("{}", inv.libfunc_id);
        let mut brs = vec![];
        for (k, b) in inv.branches.iter().enumerate() {
            let tgt = match &b.target {
                cairo_lang_sierra::program::GenBranchTarget::Fallthrough => idx + 1,
                cairo_lang_sierra::program::GenBranchTarget::Statement(t) => t.0,
            };
            let tgt_off = casm
                .debug_info
                .sierra_statement_info
                .get(tgt)
                .map(|x| x.start_offset)
                .unwrap_or(info.end_offset);
            let (ap, cost) = match ii.result_branch_changes.get(k) {
                Some(bc) => (
                    match bc.ap_change {
                        cairo_lang_casm::ap_change::ApChange::Known(n) => format!("(Some {n})"),
                        _ => "None".to_string(),
                    },
                    bc.gas_cost
                        .get(&cairo_lang_sierra::extensions::gas::CostTokenType::Const)
                        .copied()
                        .unwrap_or(0),
                ),
                None => ("None".to_string(), 0),
            };
            brs.push(format!("({}, {}, {})", tgt_off, ap, zi(cost)));
        }
        sts.push(format!(
            " SI {} \"{}\" {} {} [{}]",
            idx,
            lf.replace('"', "'"),
            info.start_offset,
            info.end_offset,
            brs.join("; ")
        ));
    }
    out.push_str(&sts.join(";\n"));
    out.push_str("\n].\n\n");
    out.push_str(&format!("Definition entry_{name} : Z := {entry}.\n"));
    let szs = |v: &[(String, i16)]| v.iter().map(|(_, s)| format!("{s}")).collect::<Vec<_>>().join("; ");
    let nms = |v: &[(String, i16)]| v.iter().map(|(t, _)| format!("\"{t}\"")).collect::<Vec<_>>().join("; ");
    out.push_str(&format!("Definition param_sizes_{name} : list Z := [{}].\n", szs(&params)));
    out.push_str(&format!("Definition ret_sizes_{name} : list Z := [{}].\n", szs(&rets)));
    out.push_str(&format!("Definition param_types_{name} : list string := [{}].\n", nms(&params)));
    out.push_str(&format!("Definition ret_types_{name} : list string := [{}].\n", nms(&rets)));
    kinds.sort();
    kinds.dedup();
    Ok(Translated { coq: out, n_instr: n, n_hints, hint_kinds: kinds, casm_text: text, params, rets })
}
