//! Impl-level oracle of C06, independent of the Coq model: the mathematical result of each
//! (operation, type) on big integers, written directly from the property text.  `None` = this
//! oracle has no opinion (operation not covered here).
use num_bigint::BigInt;
use num_traits::{One, Signed, Zero};

use crate::operands::{Ty, pow2};

#[derive(Debug, PartialEq, Clone)]
pub enum Expect {
    Success(Vec<BigInt>),
    /// panic with a single short-string felt
    Panic(String),
}

fn p() -> BigInt {
    vcommon::stark_prime()
}
fn enc(t: &Ty, v: &BigInt) -> Vec<BigInt> {
    t.to_felts(v)
}
fn wrap(t: &Ty, v: &BigInt) -> BigInt {
    match t {
        Ty::U(w) => ((v % pow2(*w)) + pow2(*w)) % pow2(*w),
        Ty::I(w) => {
            let m = pow2(*w);
            let h = pow2(*w - 1);
            (((v + &h) % &m) + &m) % &m - h
        }
        Ty::U256 => ((v % pow2(256)) + pow2(256)) % pow2(256),
        Ty::Felt => ((v % p()) + p()) % p(),
        _ => v.clone(),
    }
}
fn name(t: &Ty) -> String {
    match t {
        Ty::U(w) => format!("u{w}"),
        Ty::I(w) => format!("i{w}"),
        Ty::U256 => "u256".into(),
        _ => "felt252".into(),
    }
}
fn isqrt(v: &BigInt) -> BigInt {
    v.sqrt()
}
fn inv_mod_p(b: &BigInt) -> BigInt {
    b.modpow(&(p() - 2), &p())
}

/// b^-1 mod n by the extended Euclidean algorithm (None when gcd(b, n) != 1).
fn inv_mod(b: &BigInt, n: &BigInt) -> Option<BigInt> {
    let (mut r0, mut r1) = (n.clone(), ((b % n) + n) % n);
    let (mut t0, mut t1) = (BigInt::zero(), BigInt::one());
    while !r1.is_zero() {
        let q = &r0 / &r1;
        let r2 = &r0 - &q * &r1;
        r0 = std::mem::replace(&mut r1, r2);
        let t2 = &t0 - &q * &t1;
        t0 = std::mem::replace(&mut t1, t2);
    }
    if r0 != BigInt::one() {
        return None;
    }
    Some(((t0 % n) + n) % n)
}

pub fn short_string(s: &str) -> BigInt {
    s.bytes().fold(BigInt::zero(), |acc, b| acc * 256 + b)
}

pub fn expected(op: &str, t: &Ty, a: &[BigInt]) -> Option<Expect> {
    let felt = matches!(t, Ty::Felt);
    let signed = matches!(t, Ty::I(_));
    let ok = |v: BigInt| Expect::Success(enc(t, &v));
    let b01 = |b: bool| Expect::Success(vec![if b { BigInt::one() } else { BigInt::zero() }]);
    let arith = |r: BigInt, what: &str| -> Expect {
        if felt {
            return Expect::Success(vec![wrap(t, &r)]);
        }
        if t.contains(&r) {
            ok(r)
        } else if signed && what != "mul" && r < t.min() {
            Expect::Panic(format!("{}_{} Underflow", name(t), what))
        } else {
            Expect::Panic(format!("{}_{} Overflow", name(t), what))
        }
    };
    let opt = |r: BigInt| -> Expect {
        if t.contains(&r) {
            let mut v = vec![BigInt::zero()];
            v.extend(enc(t, &r));
            Expect::Success(v)
        } else {
            let mut v = vec![BigInt::one()];
            v.extend(std::iter::repeat(BigInt::zero()).take(t.size()));
            Expect::Success(v)
        }
    };
    let ovf = |r: BigInt| -> Expect {
        let mut v = enc(t, &wrap(t, &r));
        v.push(if t.contains(&r) { BigInt::zero() } else { BigInt::one() });
        Expect::Success(v)
    };
    let sat = |r: BigInt| -> Expect {
        ok(if r < t.min() { t.min() } else if r > t.max() { t.max() } else { r })
    };
    let tdiv = |x: &BigInt, y: &BigInt| -> (BigInt, BigInt) {
        // truncating division (Rust / Cairo semantics for signed integers)
        let q = x.abs() / y.abs();
        let q = if (x.is_negative()) != (y.is_negative()) { -q } else { q };
        let r = x - &q * y;
        (q, r)
    };
    Some(match op {
        "OAdd" => arith(&a[0] + &a[1], "add"),
        "OSub" => arith(&a[0] - &a[1], "sub"),
        "OMul" => arith(&a[0] * &a[1], "mul"),
        "ODiv" | "ORem" if !felt => {
            if a[1].is_zero() {
                Expect::Panic("Division by 0".into())
            } else {
                let (q, r) = tdiv(&a[0], &a[1]);
                if op == "ODiv" {
                    if t.contains(&q) { ok(q) } else { Expect::Panic("attempt to divide with overflow".into()) }
                } else {
                    ok(r)
                }
            }
        }
        "ONeg" => {
            if felt {
                Expect::Success(vec![wrap(t, &-&a[0])])
            } else if t.contains(&-&a[0]) {
                ok(-&a[0])
            } else {
                Expect::Panic(format!("{}_neg Underflow", name(t)))
            }
        }
        "OEq" => b01(a[0] == a[1]),
        "ONe" => b01(a[0] != a[1]),
        "OLt" => b01(a[0] < a[1]),
        "OLe" => b01(a[0] <= a[1]),
        "OGt" => b01(a[0] > a[1]),
        "OGe" => b01(a[0] >= a[1]),
        "OAnd" => ok(&a[0] & &a[1]),
        "OOr" => ok(&a[0] | &a[1]),
        "OXor" => ok(&a[0] ^ &a[1]),
        "ONot" => ok(t.max() - &a[0]),
        "OCheckedAdd" => opt(&a[0] + &a[1]),
        "OCheckedSub" => opt(&a[0] - &a[1]),
        "OCheckedMul" => opt(&a[0] * &a[1]),
        "OWrappingAdd" => ok(wrap(t, &(&a[0] + &a[1]))),
        "OWrappingSub" => ok(wrap(t, &(&a[0] - &a[1]))),
        "OWrappingMul" => ok(wrap(t, &(&a[0] * &a[1]))),
        "OSaturatingAdd" => sat(&a[0] + &a[1]),
        "OSaturatingSub" => sat(&a[0] - &a[1]),
        "OSaturatingMul" => sat(&a[0] * &a[1]),
        "OOverflowingAdd" => ovf(&a[0] + &a[1]),
        "OOverflowingSub" => ovf(&a[0] - &a[1]),
        "OOverflowingMul" => ovf(&a[0] * &a[1]),
        "OSqrt" => Expect::Success(vec![isqrt(&a[0])]),
        "OWideMul" | "OWideSquare" => {
            let b = if op == "OWideSquare" { &a[0] } else { &a[1] };
            let wt = match t {
                Ty::U256 => Ty::U512,
                Ty::U(128) => Ty::U256,
                Ty::U(w) => Ty::U(2 * w),
                Ty::I(w) => Ty::I(2 * w),
                _ => return None,
            };
            Expect::Success(enc(&wt, &(&a[0] * b)))
        }
        "OMulModN" => Expect::Success(enc(&Ty::U256, &((&a[0] * &a[1]) % &a[2]))),
        "OU512DivRem" => {
            let mut v = enc(&Ty::U512, &(&a[0] / &a[1]));
            v.extend(enc(&Ty::U256, &(&a[0] % &a[1])));
            Expect::Success(v)
        }
        "OInvMod" | "ODivModN" => {
            // unique solution when gcd = 1 and n > 1
            let (num, den, n) = if op == "OInvMod" {
                (BigInt::one(), a[0].clone(), a[1].clone())
            } else {
                (a[0].clone(), a[1].clone(), a[2].clone())
            };
            let none = Expect::Success(vec![BigInt::one(), BigInt::zero(), BigInt::zero()]);
            if n <= BigInt::one() {
                none
            } else {
                match inv_mod(&den, &n) {
                    None => none,
                    Some(inv) => {
                        let mut v = vec![BigInt::zero()];
                        v.extend(enc(&Ty::U256, &((num * inv) % &n)));
                        Expect::Success(v)
                    }
                }
            }
        }
        "OFeltDiv" => Expect::Success(vec![(&a[0] * inv_mod_p(&a[1])) % p()]),
        _ => return None,
    })
}
