//! Compiles Cairo source files with the compiler linked from /repo (Cairo -> Sierra -> CASM), all in
//! one salsa database so that corelib is analysed once per process.  Nothing is cached across runs.
use std::path::{Path, PathBuf};

use cairo_lang_compiler::db::RootDatabase;
use cairo_lang_compiler::diagnostics::DiagnosticsReporter;
use cairo_lang_compiler::project::setup_single_file_project;
use cairo_lang_diagnostics::ToOption;
use cairo_lang_filesystem::cfg::{Cfg, CfgSet};
use cairo_lang_filesystem::ids::CrateInput;
use cairo_lang_sierra::program::Program;
use cairo_lang_sierra_generator::db::SierraGenGroup;
use cairo_lang_sierra_generator::replace_ids::replace_sierra_ids_in_program;

/// Root of the tree under test: $VERIF_REPO (set by lib/seedeval.sh for scratch worktrees), else /repo.
/// corelib is part of the tree under test and is always taken from there.
pub fn repo_root() -> String {
    std::env::var("VERIF_REPO").ok().filter(|s| !s.is_empty()).unwrap_or_else(|| "/repo".to_string())
}
pub fn corelib() -> String {
    format!("{}/corelib/src", repo_root())
}

/// A database configured like `cairo-run` without `--available-gas` (no gas bookkeeping in the code).
pub fn new_db() -> RootDatabase {
    // `detect_corelib` looks at $CARGO_MANIFEST_DIR/../../corelib/src first: point it at /repo.
    unsafe {
        std::env::set_var("CARGO_MANIFEST_DIR", format!("{}/crates/cairo-lang-compiler", repo_root()))
    };
    let cl = corelib();
    assert!(Path::new(&cl).exists(), "corelib not found at {cl}");
    assert_eq!(
        cairo_lang_filesystem::detect::detect_corelib().map(|p| p.to_string_lossy().to_string()),
        Some(cl.clone()),
        "corelib detection does not point at the tree under test"
    );
    let mut b = RootDatabase::builder();
    b.detect_corelib();
    b.skip_auto_withdraw_gas().with_cfg(CfgSet::from_iter([Cfg::kv("gas", "disabled")]));
    b.build().expect("building the compiler database")
}

pub struct Compiled {
    pub name: String,
    pub path: PathBuf,
    pub program: Result<Program, String>,
}

/// Compiles every `*.cairo` file (one crate per file, crate name = file stem) to Sierra with
/// human-readable ids.
pub fn compile_files(db: &mut RootDatabase, files: &[PathBuf], scratch: &Path) -> Vec<Compiled> {
    // `setup_single_file_project` roots a crate at the file's directory, so every source gets a
    // directory of its own: <scratch>/<name>/lib.cairo.
    let mut inputs: Vec<(String, PathBuf, Result<CrateInput, String>)> = vec![];
    for f in files {
        let name = f.file_stem().unwrap().to_string_lossy().to_string();
        let dir = scratch.join(&name);
        std::fs::create_dir_all(&dir).unwrap();
        let lib = dir.join("lib.cairo");
        std::fs::write(&lib, std::fs::read(f).unwrap()).unwrap();
        let ci = setup_single_file_project(db, &lib).map_err(|e| format!("{e}"));
        inputs.push((name, f.clone(), ci));
    }
    let mut res = vec![];
    for (name, path, ci) in inputs {
        let program = match ci {
            Err(e) => Err(e),
            Ok(ci) => {
                let mut diag = String::new();
                let failed = {
                    let mut rep = DiagnosticsReporter::write_to_string(&mut diag)
                        .with_crates(std::slice::from_ref(&ci));
                    rep.check(db)
                };
                if failed {
                    Err(format!("diagnostics: {diag}"))
                } else {
                    let ids = CrateInput::into_crate_ids(db, vec![ci]);
                    match db.get_sierra_program(ids).to_option() {
                        None => Err("no sierra program".to_string()),
                        Some(p) => Ok(replace_sierra_ids_in_program(db, &p.program)),
                    }
                }
            }
        };
        res.push(Compiled { name, path, program });
    }
    res
}

pub fn list_cairo_files(dir: &Path) -> Vec<PathBuf> {
    let mut v: Vec<PathBuf> = std::fs::read_dir(dir)
        .unwrap_or_else(|e| panic!("reading {}: {e}", dir.display()))
        .filter_map(|e| e.ok().map(|e| e.path()))
        .filter(|p| p.extension().map(|x| x == "cairo").unwrap_or(false))
        .collect();
    v.sort();
    v
}
