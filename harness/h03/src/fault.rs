//! C03 exploration / search on break (impl-level oracle): one hint answer of an honest run is
//! replaced and the function is run again on cairo-vm through
//! `SierraCasmRunner::run_function_with_prepared_starknet_context` with a wrapped
//! `CairoHintProcessor`.  The outcome must be a VM failure or the honest result.
use std::any::Any;
use std::sync::Arc;

use cairo_lang_casm::hints::{CoreHint, CoreHintBase, Hint};
use cairo_lang_casm::operand::{CellRef, ResOperand};
use cairo_lang_runner::casm_run::{
    CairoHintProcessor, StarknetHintProcessor, cell_ref_to_relocatable, get_val,
};
use cairo_lang_runner::{
    Arg, RunResultValue, SierraCasmRunner, StarknetExecutionResources, StarknetState,
};
use cairo_lang_sierra::program::Program;
use cairo_vm::hint_processor::hint_processor_definition::{HintProcessorLogic, HintReference};
use cairo_vm::serde::deserialize_program::ApTracking;
use cairo_vm::types::exec_scope::ExecutionScopes;
use cairo_vm::types::relocatable::Relocatable;
use cairo_vm::vm::errors::hint_errors::HintError;
use cairo_vm::vm::errors::vm_errors::VirtualMachineError;
use cairo_vm::vm::runners::cairo_runner::{ResourceTracker, RunResources};
use cairo_vm::vm::vm_core::VirtualMachine;
use num_bigint::BigInt;
use starknet_types_core::felt::Felt as Felt252;
use vcommon::Rng;

use crate::operands::{Ty, pow2};

/// One execution of a pure Core hint in the honest run.
#[derive(Clone, Debug)]
pub struct Occ {
    pub index: usize,
    pub kind: String,
    /// addresses of the output cells and the honest values (None = the hint left the cell unset)
    pub cells: Vec<(Relocatable, Option<Felt252>)>,
    /// values of operands that define alternative decompositions (divisor / scalar), if any
    pub aux: Vec<Felt252>,
}

pub enum Mode {
    Honest,
    Record,
    Replace { index: usize, values: Vec<Option<Felt252>> },
}

pub struct Tamper<'a> {
    pub inner: CairoHintProcessor<'a>,
    pub mode: Mode,
    pub counter: usize,
    pub log: Vec<Occ>,
    pub replaced: bool,
}

/// Output cells of the Core hints whose only effect is writing those cells (no execution-scope
/// state, no segment allocation), and the operands defining alternative decompositions.
fn pure_outputs(h: &CoreHint) -> Option<(Vec<CellRef>, Vec<ResOperand>)> {
    Some(match h {
        CoreHint::TestLessThan { dst, .. }
        | CoreHint::TestLessThanOrEqual { dst, .. }
        | CoreHint::TestLessThanOrEqualAddress { dst, .. } => (vec![*dst], vec![]),
        CoreHint::WideMul128 { high, low, .. } => (vec![*high, *low], vec![]),
        CoreHint::DivMod { rhs, quotient, remainder, .. } => (vec![*quotient, *remainder], vec![rhs.clone()]),
        CoreHint::Uint256DivMod { divisor0, divisor1, quotient0, quotient1, remainder0, remainder1, .. } => (
            vec![*quotient0, *quotient1, *remainder0, *remainder1],
            vec![divisor0.clone(), divisor1.clone()],
        ),
        CoreHint::Uint512DivModByUint256 {
            divisor0, divisor1, quotient0, quotient1, quotient2, quotient3, remainder0, remainder1, ..
        } => (
            vec![*quotient0, *quotient1, *quotient2, *quotient3, *remainder0, *remainder1],
            vec![divisor0.clone(), divisor1.clone()],
        ),
        CoreHint::SquareRoot { dst, .. } => (vec![*dst], vec![]),
        CoreHint::Uint256SquareRoot {
            sqrt0, sqrt1, remainder_low, remainder_high, sqrt_mul_2_minus_remainder_ge_u128, ..
        } => (
            vec![*sqrt0, *sqrt1, *remainder_low, *remainder_high, *sqrt_mul_2_minus_remainder_ge_u128],
            vec![],
        ),
        CoreHint::LinearSplit { scalar, x, y, .. } => (vec![*x, *y], vec![scalar.clone()]),
        CoreHint::FieldSqrt { sqrt, .. } => (vec![*sqrt], vec![]),
        CoreHint::U256InvModN { g0_or_no_inv, g1_option, s_or_r0, s_or_r1, t_or_k0, t_or_k1, .. } => (
            vec![*g0_or_no_inv, *g1_option, *s_or_r0, *s_or_r1, *t_or_k0, *t_or_k1],
            vec![],
        ),
        CoreHint::RandomEcPoint { x, y } => (vec![*x, *y], vec![]),
        _ => return None,
    })
}

fn kind_of(h: &CoreHint) -> String {
    format!("{h:?}").chars().take_while(|c| c.is_alphanumeric()).collect()
}

impl HintProcessorLogic for Tamper<'_> {
    fn execute_hint(
        &mut self,
        vm: &mut VirtualMachine,
        exec_scopes: &mut ExecutionScopes,
        hint_data: &Box<dyn Any>,
    ) -> Result<(), HintError> {
        if let Mode::Honest = self.mode {
            return self.inner.execute_hint(vm, exec_scopes, hint_data);
        }
        let pure = match hint_data.downcast_ref::<Hint>() {
            Some(Hint::Core(CoreHintBase::Core(h))) => pure_outputs(h).map(|o| (kind_of(h), o)),
            _ => None,
        };
        let Some((kind, (outs, auxs))) = pure else {
            return self.inner.execute_hint(vm, exec_scopes, hint_data);
        };
        let index = self.counter;
        self.counter += 1;
        let addrs: Vec<Relocatable> = outs.iter().map(|c| cell_ref_to_relocatable(c, vm)).collect();
        match &self.mode {
            Mode::Replace { index: target, values } if *target == index => {
                self.replaced = true;
                for (a, v) in addrs.iter().zip(values.iter()) {
                    if let Some(v) = v {
                        vm.insert_value(*a, *v).map_err(HintError::Memory)?;
                    }
                }
                Ok(())
            }
            Mode::Record => {
                let aux: Vec<Felt252> = auxs.iter().filter_map(|r| get_val(vm, r).ok()).collect();
                self.inner.execute_hint(vm, exec_scopes, hint_data)?;
                let cells = addrs
                    .iter()
                    .map(|a| (*a, vm.get_integer(*a).ok().map(|c| c.into_owned())))
                    .collect();
                self.log.push(Occ { index, kind, cells, aux });
                Ok(())
            }
            _ => self.inner.execute_hint(vm, exec_scopes, hint_data),
        }
    }

    #[allow(clippy::disallowed_types)]
    fn compile_hint(
        &self,
        hint_code: &str,
        ap_tracking_data: &ApTracking,
        reference_ids: &std::collections::HashMap<String, usize>,
        references: &[HintReference],
        accessible_scopes: &[String],
        constants: Arc<std::collections::HashMap<String, Felt252>>,
    ) -> Result<Box<dyn Any>, VirtualMachineError> {
        self.inner.compile_hint(hint_code, ap_tracking_data, reference_ids, references, accessible_scopes, constants)
    }
}
impl ResourceTracker for Tamper<'_> {
    fn consumed(&self) -> bool {
        self.inner.consumed()
    }
    fn consume_step(&mut self) {
        self.inner.consume_step()
    }
    fn get_n_steps(&self) -> Option<usize> {
        self.inner.get_n_steps()
    }
    fn run_resources(&self) -> &RunResources {
        self.inner.run_resources()
    }
}
impl StarknetHintProcessor for Tamper<'_> {
    fn take_starknet_state(&mut self) -> StarknetState {
        self.inner.take_starknet_state()
    }
    fn take_syscalls_used_resources(&mut self) -> StarknetExecutionResources {
        self.inner.take_syscalls_used_resources()
    }
}

#[derive(Clone, Debug, PartialEq)]
pub enum Outcome {
    Value(RunResultValue),
    Failed(String),
}

pub fn felt(v: &BigInt) -> Felt252 {
    Felt252::from(v.clone())
}

/// Runs `main` of the runner's program with the given argument felts in the given mode.
pub fn run_once(
    runner: &SierraCasmRunner,
    args: &[BigInt],
    mode: Mode,
    max_steps: usize,
) -> (Outcome, Vec<Occ>, bool) {
    let func = match runner.find_function("::main") {
        Ok(f) => f,
        Err(e) => return (Outcome::Failed(format!("find_function: {e}")), vec![], false),
    };
    let args: Vec<Arg> = args.iter().map(|a| Arg::Value(felt(a))).collect();
    let (hp, ctx) = match runner.prepare_starknet_context(func, args, None, StarknetState::default()) {
        Ok(x) => x,
        Err(e) => return (Outcome::Failed(format!("prepare: {e}")), vec![], false),
    };
    let mut t = Tamper { inner: hp, mode, counter: 0, log: vec![], replaced: false };
    t.inner.run_resources = RunResources::new(max_steps);
    let r = std::panic::catch_unwind(std::panic::AssertUnwindSafe(|| {
        runner.run_function_with_prepared_starknet_context(func, &mut t, ctx)
    }));
    let out = match r {
        Ok(Ok(res)) => Outcome::Value(res.value),
        Ok(Err(e)) => Outcome::Failed(format!("{e}").chars().take(160).collect()),
        Err(_) => Outcome::Failed(format!("panic in runner at {}", vcommon::last_panic_location())),
    };
    (out, t.log, t.replaced)
}

/// Alternative answers for one hint occurrence (each a full vector of output values).
pub fn mutations(occ: &Occ, rng: &mut Rng) -> Vec<(String, Vec<Option<Felt252>>)> {
    let honest: Vec<Option<Felt252>> = occ.cells.iter().map(|c| c.1).collect();
    let mut out: Vec<(String, Vec<Option<Felt252>>)> = vec![];
    let two128 = felt(&pow2(128));
    let mut push = |name: String, v: Vec<Option<Felt252>>| {
        if v != honest && !out.iter().any(|(_, w)| *w == v) {
            out.push((name, v));
        }
    };
    for (i, h) in honest.iter().enumerate() {
        let base = h.unwrap_or(Felt252::ZERO);
        let mut alts: Vec<(&str, Felt252)> = vec![
            ("plus1", base + Felt252::ONE),
            ("minus1", base - Felt252::ONE),
            ("neg", -base),
            ("zero", Felt252::ZERO),
            ("one", Felt252::ONE),
            ("flip", Felt252::ONE - base),
            ("plus2^128", base + two128),
            ("minus2^128", base - two128),
            ("random_felt", felt(&(rng.bits(251)))),
            ("random_u128", felt(&(rng.bits(128)))),
            ("random_small", felt(&(rng.bits(7)))),
        ];
        if h.is_none() {
            alts.truncate(5);
        }
        for (n, a) in alts {
            let mut v = honest.clone();
            v[i] = Some(a);
            push(format!("cell{i}:{n}"), v);
        }
    }
    for i in 0..honest.len().saturating_sub(1) {
        let mut v = honest.clone();
        v.swap(i, i + 1);
        push(format!("swap{i}"), v);
    }
    // alternative decompositions value = x * d + y: (x + 1, y - d), (x - 1, y + d)
    if honest.len() == 2 && honest.iter().all(|h| h.is_some()) {
        let (x, y) = (honest[0].unwrap(), honest[1].unwrap());
        let ds: Vec<Felt252> = if occ.kind == "WideMul128" { vec![two128] } else { occ.aux.clone() };
        for d in ds {
            // DivMod / LinearSplit: cells = (quotient, remainder) / (x, y); WideMul128: (high, low)
            push("decomp+1".into(), vec![Some(x + Felt252::ONE), Some(y - d)]);
            push("decomp-1".into(), vec![Some(x - Felt252::ONE), Some(y + d)]);
        }
    }
    if occ.kind == "Uint256DivMod" && occ.aux.len() == 2 && honest.iter().all(|h| h.is_some()) {
        let h: Vec<Felt252> = honest.iter().map(|x| x.unwrap()).collect();
        push(
            "decomp+1".into(),
            vec![Some(h[0] + Felt252::ONE), Some(h[1]), Some(h[2] - occ.aux[0]), Some(h[3] - occ.aux[1])],
        );
        push(
            "decomp-1".into(),
            vec![Some(h[0] - Felt252::ONE), Some(h[1]), Some(h[2] + occ.aux[0]), Some(h[3] + occ.aux[1])],
        );
    }
    out
}

pub struct WrapperReport {
    pub name: String,
    pub tuples: usize,
    pub honest_failed: usize,
    pub occurrences: usize,
    pub mutated: usize,
    pub failed: usize,
    pub same: usize,
    pub violations: Vec<serde_json::Value>,
    pub samples: Vec<serde_json::Value>,
    pub hint_kinds: std::collections::BTreeMap<String, usize>,
    pub error: Option<String>,
}

fn fmt_val(v: &RunResultValue) -> String {
    match v {
        RunResultValue::Success(xs) => format!("Success{:?}", xs.iter().map(|x| x.to_bigint().to_string()).collect::<Vec<_>>()),
        RunResultValue::Panic(xs) => format!("Panic{:?}", xs.iter().map(|x| x.to_bigint().to_string()).collect::<Vec<_>>()),
    }
}

/// The whole exploration for one wrapper.
pub fn explore(name: &str, program: &Program, param_tys: &[Ty], full: bool, seed: u64) -> WrapperReport {
    let mut rep = WrapperReport {
        name: name.to_string(), tuples: 0, honest_failed: 0, occurrences: 0, mutated: 0, failed: 0, same: 0,
        violations: vec![], samples: vec![], hint_kinds: Default::default(), error: None,
    };
    let runner = match SierraCasmRunner::new(program.clone(), None, Default::default(), None) {
        Ok(r) => r,
        Err(e) => {
            rep.error = Some(format!("runner: {e}"));
            return rep;
        }
    };
    // per-wrapper PRNG so that results do not depend on scheduling
    let mut h: u64 = seed ^ 0x5bd1e995;
    for b in name.bytes() {
        h = h.wrapping_mul(0x100000001b3) ^ b as u64;
    }
    let mut rng = Rng(h);
    let (cap, nrand) = if full { (400, 40) } else { (40, 8) };
    let tuples = crate::operands::tuples(param_tys, full, cap, nrand, &mut rng);
    for t in &tuples {
        let felts: Vec<BigInt> =
            t.iter().zip(param_tys).flat_map(|(v, ty)| ty.to_felts(v)).collect();
        rep.tuples += 1;
        let (honest, log, _) = run_once(&runner, &felts, Mode::Record, 2_000_000);
        let Outcome::Value(hv) = &honest else {
            rep.honest_failed += 1;
            if rep.error.is_none() {
                rep.error = Some(format!("honest run failed on {:?}: {:?}", t, honest));
            }
            continue;
        };
        for occ in &log {
            rep.occurrences += 1;
            *rep.hint_kinds.entry(occ.kind.clone()).or_default() += 1;
            for (mname, vals) in mutations(occ, &mut rng) {
                let (o, _, replaced) = run_once(
                    &runner,
                    &felts,
                    Mode::Replace { index: occ.index, values: vals.clone() },
                    2_000_000,
                );
                if !replaced {
                    continue;
                }
                rep.mutated += 1;
                let case = serde_json::json!({
                    "wrapper": name,
                    "args": t.iter().map(|x| x.to_string()).collect::<Vec<_>>(),
                    "hint_index": occ.index, "hint": occ.kind, "mutation": mname,
                    "honest_answer": occ.cells.iter().map(|c| c.1.map(|v| v.to_bigint().to_string())).collect::<Vec<_>>(),
                    "answer": vals.iter().map(|v| v.map(|v| v.to_bigint().to_string())).collect::<Vec<_>>(),
                    "honest_result": fmt_val(hv),
                    "outcome": match &o { Outcome::Value(v) => fmt_val(v), Outcome::Failed(e) => format!("VM failure: {e}") },
                });
                match &o {
                    Outcome::Failed(_) => rep.failed += 1,
                    Outcome::Value(v) if v == hv => rep.same += 1,
                    Outcome::Value(_) => rep.violations.push(case.clone()),
                }
                if rep.samples.len() < 2 && (rep.mutated % 7 == 1) {
                    rep.samples.push(case);
                }
            }
        }
    }
    rep
}
