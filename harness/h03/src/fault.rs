//! C03 exploration / search on break (impl-level oracle): one hint answer of an honest run is
//! replaced and the function is run again on cairo-vm through
//! `SierraCasmRunner::run_function_with_prepared_starknet_context` with a wrapped
//! `CairoHintProcessor`.  The outcome must be a VM failure or the honest result.
use std::any::Any;
use std::sync::Arc;

use cairo_lang_casm::hints::{CoreHint, CoreHintBase, Hint};
use cairo_lang_casm::operand::{CellRef, ResOperand};
use cairo_lang_runner::casm_run::{
    CairoHintProcessor, StarknetHintProcessor, cell_ref_to_relocatable, get_val,
};
use cairo_lang_runner::{
    Arg, RunResultValue, SierraCasmRunner, StarknetExecutionResources, StarknetState,
};
use cairo_lang_sierra::program::Program;
use cairo_vm::hint_processor::hint_processor_definition::{HintProcessorLogic, HintReference};
use cairo_vm::serde::deserialize_program::ApTracking;
use cairo_vm::types::exec_scope::ExecutionScopes;
use cairo_vm::types::relocatable::Relocatable;
use cairo_vm::vm::errors::hint_errors::HintError;
use cairo_vm::vm::errors::vm_errors::VirtualMachineError;
use cairo_vm::vm::runners::cairo_runner::{ResourceTracker, RunResources};
use cairo_vm::vm::vm_core::VirtualMachine;
use num_bigint::BigInt;
use starknet_types_core::felt::Felt as Felt252;
use vcommon::Rng;

use crate::operands::{Ty, pow2};

/// One execution of a pure Core hint in the honest run.
#[derive(Clone, Debug)]
pub struct Occ {
    pub index: usize,
    pub kind: String,
    /// addresses of the output cells and the honest values (None = the hint left the cell unset)
    pub cells: Vec<(Relocatable, Option<Felt252>)>,
    /// values of operands that define alternative decompositions (divisor / scalar), if any
    pub aux: Vec<Felt252>,
    /// values of all input operands of the hint, in declaration order
    pub ins: Vec<Felt252>,
}

pub enum Mode {
    Honest,
    Record,
    Replace { index: usize, values: Vec<Option<Felt252>> },
}

pub struct Tamper<'a> {
    pub inner: CairoHintProcessor<'a>,
    pub mode: Mode,
    pub counter: usize,
    pub log: Vec<Occ>,
    pub replaced: bool,
}

/// Output cells of the Core hints whose only effect is writing those cells (no execution-scope
/// state, no segment allocation), and the operands defining alternative decompositions.
fn pure_outputs(h: &CoreHint) -> Option<(Vec<CellRef>, Vec<ResOperand>)> {
    Some(match h {
        CoreHint::TestLessThan { dst, .. }
        | CoreHint::TestLessThanOrEqual { dst, .. }
        | CoreHint::TestLessThanOrEqualAddress { dst, .. } => (vec![*dst], vec![]),
        CoreHint::WideMul128 { high, low, .. } => (vec![*high, *low], vec![]),
        CoreHint::DivMod { rhs, quotient, remainder, .. } => (vec![*quotient, *remainder], vec![rhs.clone()]),
        CoreHint::Uint256DivMod { divisor0, divisor1, quotient0, quotient1, remainder0, remainder1, .. } => (
            vec![*quotient0, *quotient1, *remainder0, *remainder1],
            vec![divisor0.clone(), divisor1.clone()],
        ),
        CoreHint::Uint512DivModByUint256 {
            divisor0, divisor1, quotient0, quotient1, quotient2, quotient3, remainder0, remainder1, ..
        } => (
            vec![*quotient0, *quotient1, *quotient2, *quotient3, *remainder0, *remainder1],
            vec![divisor0.clone(), divisor1.clone()],
        ),
        CoreHint::SquareRoot { dst, .. } => (vec![*dst], vec![]),
        CoreHint::Uint256SquareRoot {
            sqrt0, sqrt1, remainder_low, remainder_high, sqrt_mul_2_minus_remainder_ge_u128, ..
        } => (
            vec![*sqrt0, *sqrt1, *remainder_low, *remainder_high, *sqrt_mul_2_minus_remainder_ge_u128],
            vec![],
        ),
        CoreHint::LinearSplit { scalar, x, y, .. } => (vec![*x, *y], vec![scalar.clone()]),
        CoreHint::FieldSqrt { sqrt, .. } => (vec![*sqrt], vec![]),
        CoreHint::U256InvModN { g0_or_no_inv, g1_option, s_or_r0, s_or_r1, t_or_k0, t_or_k1, .. } => (
            vec![*g0_or_no_inv, *g1_option, *s_or_r0, *s_or_r1, *t_or_k0, *t_or_k1],
            vec![],
        ),
        CoreHint::RandomEcPoint { x, y } => (vec![*x, *y], vec![]),
        _ => return None,
    })
}

/// Input operands of the hints for which kind-specific lies are generated.
fn hint_inputs(h: &CoreHint) -> Vec<ResOperand> {
    match h {
        CoreHint::TestLessThan { lhs, rhs, .. }
        | CoreHint::TestLessThanOrEqual { lhs, rhs, .. }
        | CoreHint::WideMul128 { lhs, rhs, .. }
        | CoreHint::DivMod { lhs, rhs, .. } => vec![lhs.clone(), rhs.clone()],
        CoreHint::SquareRoot { value, .. } => vec![value.clone()],
        CoreHint::LinearSplit { value, scalar, max_x, .. } => {
            vec![value.clone(), scalar.clone(), max_x.clone()]
        }
        CoreHint::Uint256DivMod { dividend0, dividend1, divisor0, divisor1, .. } => {
            vec![dividend0.clone(), dividend1.clone(), divisor0.clone(), divisor1.clone()]
        }
        CoreHint::Uint512DivModByUint256 {
            dividend0, dividend1, dividend2, dividend3, divisor0, divisor1, ..
        } => vec![
            dividend0.clone(), dividend1.clone(), dividend2.clone(), dividend3.clone(),
            divisor0.clone(), divisor1.clone(),
        ],
        CoreHint::Uint256SquareRoot { value_low, value_high, .. } => {
            vec![value_low.clone(), value_high.clone()]
        }
        _ => vec![],
    }
}

fn kind_of(h: &CoreHint) -> String {
    format!("{h:?}").chars().take_while(|c| c.is_alphanumeric()).collect()
}

impl HintProcessorLogic for Tamper<'_> {
    fn execute_hint(
        &mut self,
        vm: &mut VirtualMachine,
        exec_scopes: &mut ExecutionScopes,
        hint_data: &Box<dyn Any>,
    ) -> Result<(), HintError> {
        if let Mode::Honest = self.mode {
            return self.inner.execute_hint(vm, exec_scopes, hint_data);
        }
        let pure = match hint_data.downcast_ref::<Hint>() {
            Some(Hint::Core(CoreHintBase::Core(h))) => {
                pure_outputs(h).map(|o| (kind_of(h), o, hint_inputs(h)))
            }
            _ => None,
        };
        let Some((kind, (outs, auxs), inps)) = pure else {
            return self.inner.execute_hint(vm, exec_scopes, hint_data);
        };
        let index = self.counter;
        self.counter += 1;
        let addrs: Vec<Relocatable> = outs.iter().map(|c| cell_ref_to_relocatable(c, vm)).collect();
        match &self.mode {
            Mode::Replace { index: target, values } if *target == index => {
                self.replaced = true;
                for (a, v) in addrs.iter().zip(values.iter()) {
                    if let Some(v) = v {
                        vm.insert_value(*a, *v).map_err(HintError::Memory)?;
                    }
                }
                Ok(())
            }
            Mode::Record => {
                let aux: Vec<Felt252> = auxs.iter().filter_map(|r| get_val(vm, r).ok()).collect();
                let ins: Vec<Felt252> = inps.iter().filter_map(|r| get_val(vm, r).ok()).collect();
                let ins = if ins.len() == inps.len() { ins } else { vec![] };
                self.inner.execute_hint(vm, exec_scopes, hint_data)?;
                let cells = addrs
                    .iter()
                    .map(|a| (*a, vm.get_integer(*a).ok().map(|c| c.into_owned())))
                    .collect();
                self.log.push(Occ { index, kind, cells, aux, ins });
                Ok(())
            }
            _ => self.inner.execute_hint(vm, exec_scopes, hint_data),
        }
    }

    #[allow(clippy::disallowed_types)]
    fn compile_hint(
        &self,
        hint_code: &str,
        ap_tracking_data: &ApTracking,
        reference_ids: &std::collections::HashMap<String, usize>,
        references: &[HintReference],
        accessible_scopes: &[String],
        constants: Arc<std::collections::HashMap<String, Felt252>>,
    ) -> Result<Box<dyn Any>, VirtualMachineError> {
        self.inner.compile_hint(hint_code, ap_tracking_data, reference_ids, references, accessible_scopes, constants)
    }
}
impl ResourceTracker for Tamper<'_> {
    fn consumed(&self) -> bool {
        self.inner.consumed()
    }
    fn consume_step(&mut self) {
        self.inner.consume_step()
    }
    fn get_n_steps(&self) -> Option<usize> {
        self.inner.get_n_steps()
    }
    fn run_resources(&self) -> &RunResources {
        self.inner.run_resources()
    }
}
impl StarknetHintProcessor for Tamper<'_> {
    fn take_starknet_state(&mut self) -> StarknetState {
        self.inner.take_starknet_state()
    }
    fn take_syscalls_used_resources(&mut self) -> StarknetExecutionResources {
        self.inner.take_syscalls_used_resources()
    }
}

#[derive(Clone, Debug, PartialEq)]
pub enum Outcome {
    Value(RunResultValue),
    Failed(String),
}

pub fn felt(v: &BigInt) -> Felt252 {
    Felt252::from(v.clone())
}

/// Runs `main` of the runner's program with the given argument felts in the given mode.
pub fn run_once(
    runner: &SierraCasmRunner,
    args: &[BigInt],
    mode: Mode,
    max_steps: usize,
) -> (Outcome, Vec<Occ>, bool) {
    let func = match runner.find_function("::main") {
        Ok(f) => f,
        Err(e) => return (Outcome::Failed(format!("find_function: {e}")), vec![], false),
    };
    let args: Vec<Arg> = args.iter().map(|a| Arg::Value(felt(a))).collect();
    let (hp, ctx) = match runner.prepare_starknet_context(func, args, None, StarknetState::default()) {
        Ok(x) => x,
        Err(e) => return (Outcome::Failed(format!("prepare: {e}")), vec![], false),
    };
    let mut t = Tamper { inner: hp, mode, counter: 0, log: vec![], replaced: false };
    t.inner.run_resources = RunResources::new(max_steps);
    let r = std::panic::catch_unwind(std::panic::AssertUnwindSafe(|| {
        runner.run_function_with_prepared_starknet_context(func, &mut t, ctx)
    }));
    let out = match r {
        Ok(Ok(res)) => Outcome::Value(res.value),
        Ok(Err(e)) => Outcome::Failed(format!("{e}").chars().take(160).collect()),
        Err(_) => Outcome::Failed(format!("panic in runner at {}", vcommon::last_panic_location())),
    };
    (out, t.log, t.replaced)
}

/// Alternative answers for one hint occurrence (each a full vector of output values).
pub fn mutations(occ: &Occ, rng: &mut Rng) -> Vec<(String, Vec<Option<Felt252>>)> {
    let honest: Vec<Option<Felt252>> = occ.cells.iter().map(|c| c.1).collect();
    let mut out: Vec<(String, Vec<Option<Felt252>>)> = vec![];
    let two128 = felt(&pow2(128));
    let mut push = |name: String, v: Vec<Option<Felt252>>| {
        if v != honest && !out.iter().any(|(_, w)| *w == v) {
            out.push((name, v));
        }
    };
    for (i, h) in honest.iter().enumerate() {
        let base = h.unwrap_or(Felt252::ZERO);
        let mut alts: Vec<(&str, Felt252)> = vec![
            ("plus1", base + Felt252::ONE),
            ("minus1", base - Felt252::ONE),
            ("neg", -base),
            ("zero", Felt252::ZERO),
            ("one", Felt252::ONE),
            ("flip", Felt252::ONE - base),
            ("plus2^128", base + two128),
            ("minus2^128", base - two128),
            ("random_felt", felt(&(rng.bits(251)))),
            ("random_u128", felt(&(rng.bits(128)))),
            ("random_small", felt(&(rng.bits(7)))),
        ];
        if h.is_none() {
            alts.truncate(5);
        }
        for (n, a) in alts {
            let mut v = honest.clone();
            v[i] = Some(a);
            push(format!("cell{i}:{n}"), v);
        }
    }
    for i in 0..honest.len().saturating_sub(1) {
        let mut v = honest.clone();
        v.swap(i, i + 1);
        push(format!("swap{i}"), v);
    }
    // alternative decompositions value = x * d + y: (x + 1, y - d), (x - 1, y + d)
    if honest.len() == 2 && honest.iter().all(|h| h.is_some()) {
        let (x, y) = (honest[0].unwrap(), honest[1].unwrap());
        let ds: Vec<Felt252> = if occ.kind == "WideMul128" { vec![two128] } else { occ.aux.clone() };
        for d in ds {
            // DivMod / LinearSplit: cells = (quotient, remainder) / (x, y); WideMul128: (high, low)
            push("decomp+1".into(), vec![Some(x + Felt252::ONE), Some(y - d)]);
            push("decomp-1".into(), vec![Some(x - Felt252::ONE), Some(y + d)]);
        }
    }
    // ---- lies by hint kind: the off-by-modulus solutions of the relation the code checks ----
    let p = vcommon::stark_prime();
    let big = |f: &Felt252| f.to_bigint();
    let fe = |v: &BigInt| felt(&(((v % &p) + &p) % &p));
    let mask = pow2(128) - 1;
    match (occ.kind.as_str(), occ.ins.len()) {
        ("DivMod", 2) => {
            let (a, b) = (big(&occ.ins[0]), big(&occ.ins[1]));
            if b > BigInt::from(0) {
                for k in 1..=3 {
                    let n: BigInt = &a + &p * k;
                    let (q, r): (BigInt, BigInt) = (&n / &b, &n % &b);
                    push(format!("modulus:a+{k}P"), vec![Some(fe(&q)), Some(fe(&r))]);
                }
                // (q, r) with r >= b and with q beyond 2^128
                let (q1, r1): (BigInt, BigInt) = (&a / &b - 1, &a % &b + &b);
                push("modulus:q-1,r+b".into(), vec![Some(fe(&q1)), Some(fe(&r1))]);
                push("modulus:q=0,r=a".into(), vec![Some(Felt252::ZERO), Some(fe(&a))]);
            }
        }
        ("WideMul128", 2) => {
            let prod: BigInt = big(&occ.ins[0]) * big(&occ.ins[1]);
            for k in 1..=2 {
                let n: BigInt = &prod + &p * k;
                let (hi, lo): (BigInt, BigInt) = (&n >> 128, &n & &mask);
                push(format!("modulus:ab+{k}P"), vec![Some(fe(&hi)), Some(fe(&lo))]);
            }
            push("modulus:high=0,low=ab".into(), vec![Some(Felt252::ZERO), Some(fe(&prod))]);
        }
        ("SquareRoot", 1) => {
            let v = big(&occ.ins[0]);
            for k in 1..=2 {
                let n: BigInt = &v + &p * k;
                push(format!("modulus:sqrt(v+{k}P)"), vec![Some(fe(&n.sqrt()))]);
            }
        }
        ("LinearSplit", 3) => {
            let (v, sc, mx) = (big(&occ.ins[0]), big(&occ.ins[1]), big(&occ.ins[2]));
            if sc > BigInt::from(0) {
                for k in 1..=2 {
                    let n: BigInt = &v + &p * k;
                    let x: BigInt = std::cmp::min(&n / &sc, mx.clone());
                    let y: BigInt = &n - &x * &sc;
                    push(format!("modulus:v+{k}P"), vec![Some(fe(&x)), Some(fe(&y))]);
                }
                let ymax: BigInt = &v - &mx * &sc;
                push("modulus:x=max".into(), vec![Some(fe(&mx)), Some(fe(&ymax))]);
                push("modulus:x=0".into(), vec![Some(Felt252::ZERO), Some(fe(&v))]);
            }
        }
        ("Uint256SquareRoot", 2) if honest.iter().all(|h| h.is_some()) => {
            let v: BigInt = big(&occ.ins[0]) + (big(&occ.ins[1]) << 128);
            let s = v.sqrt();
            for d in [-1i32, 1] {
                let s2: BigInt = &s + d;
                if s2 < BigInt::from(0) {
                    continue;
                }
                let rem: BigInt = &v - &s2 * &s2;
                let t: BigInt = &s2 * 2 - &rem;
                let flag = t >= pow2(128);
                let two64 = pow2(64);
                let (s_lo, s_hi): (BigInt, BigInt) = (&s2 % &two64, &s2 / &two64);
                let r_lo: BigInt = ((&rem % pow2(128)) + pow2(128)) % pow2(128);
                let r_hi: BigInt = (&rem - &r_lo) >> 128;
                push(
                    format!("resqrt{d:+}"),
                    vec![
                        Some(fe(&s_lo)), Some(fe(&s_hi)), Some(fe(&r_lo)), Some(fe(&r_hi)),
                        Some(if flag { Felt252::ONE } else { Felt252::ZERO }),
                    ],
                );
            }
        }
        ("Uint256DivMod", 4) | ("Uint512DivModByUint256", 6) if honest.iter().all(|h| h.is_some()) => {
            // dividend + k * 2^(128 * limbs) and + P : other solutions modulo the limb arithmetic
            let nl = occ.ins.len() - 2;
            let mut a = BigInt::from(0);
            for i in 0..nl {
                a += big(&occ.ins[i]) << (128 * i);
            }
            let b: BigInt = big(&occ.ins[nl]) + (big(&occ.ins[nl + 1]) << 128);
            if b > BigInt::from(0) {
                let alts: Vec<(&str, BigInt)> =
                    vec![("a+P", &a + &p), ("a+2^128", &a + pow2(128)), ("a+b*2^128", &a + (&b << 128))];
                for (nm, n) in alts {
                    let (q, r): (BigInt, BigInt) = (&n / &b, &n % &b);
                    let mut v: Vec<Option<Felt252>> = vec![];
                    for i in 0..nl {
                        let l: BigInt = (&q >> (128 * i)) & &mask;
                        v.push(Some(fe(&l)));
                    }
                    let (r0, r1): (BigInt, BigInt) = (&r & &mask, &r >> 128);
                    v.push(Some(fe(&r0)));
                    v.push(Some(fe(&r1)));
                    push(format!("modulus:{nm}"), v);
                }
            }
        }
        _ => {}
    }
    if occ.kind == "Uint256DivMod" && occ.aux.len() == 2 && honest.iter().all(|h| h.is_some()) {
        let h: Vec<Felt252> = honest.iter().map(|x| x.unwrap()).collect();
        push(
            "decomp+1".into(),
            vec![Some(h[0] + Felt252::ONE), Some(h[1]), Some(h[2] - occ.aux[0]), Some(h[3] - occ.aux[1])],
        );
        push(
            "decomp-1".into(),
            vec![Some(h[0] - Felt252::ONE), Some(h[1]), Some(h[2] + occ.aux[0]), Some(h[3] + occ.aux[1])],
        );
    }
    out
}

/// What a wrapper's header says about it: `// spec: <kind> <ints...>` (the mathematical meaning of
/// the instantiation, for the honest-run oracle) and `// extra<i>: <ints...>` (thresholds of the
/// instantiation to be used as operands of parameter i).
#[derive(Default, Clone)]
pub struct Meta {
    pub spec: Option<(String, Vec<BigInt>)>,
    pub extra: Vec<Vec<BigInt>>,
    pub class: Option<String>,
}
pub fn parse_meta(src: &str) -> Meta {
    let mut m = Meta::default();
    let ints = |s: &str| -> Vec<BigInt> { s.split_whitespace().filter_map(|x| x.parse::<BigInt>().ok()).collect() };
    for l in src.lines() {
        let l = l.trim();
        if let Some(r) = l.strip_prefix("// spec:") {
            let mut it = r.trim().splitn(2, ' ');
            let k = it.next().unwrap_or("").to_string();
            m.spec = Some((k, ints(it.next().unwrap_or(""))));
        } else if let Some(r) = l.strip_prefix("// class:") {
            m.class = Some(r.trim().to_string());
        } else if let Some(r) = l.strip_prefix("// extra") {
            if let Some((i, vals)) = r.split_once(':') {
                if let Ok(i) = i.trim().parse::<usize>() {
                    while m.extra.len() <= i {
                        m.extra.push(vec![]);
                    }
                    m.extra[i] = ints(vals);
                }
            }
        }
    }
    m
}

/// Operands derived from the constants of the emitted code: a range check on `x - lower` or
/// `x + (2^128 - upper)` excludes exactly the values next to / one range-check period away from those
/// constants, so for every immediate k of the CASM (as a signed and as an unsigned number) the values
/// +-k, +-k +- 1, +-k +- 2^128, 2^128 - k, and P - small are offered to every parameter.
pub fn operands_from_code(casm: &cairo_lang_sierra_to_casm::compiler::CairoProgram) -> Vec<BigInt> {
    use cairo_lang_casm::hints::{CoreHint, CoreHintBase, Hint};
    use cairo_lang_casm::instructions::InstructionBody;
    use cairo_lang_casm::operand::{DerefOrImmediate, ResOperand};
    let p = vcommon::stark_prime();
    let mut ks: Vec<BigInt> = vec![];
    let mut res = |r: &ResOperand, ks: &mut Vec<BigInt>| match r {
        ResOperand::Immediate(v) => ks.push(v.value.clone()),
        ResOperand::BinOp(b) => {
            if let DerefOrImmediate::Immediate(v) = &b.b {
                ks.push(v.value.clone())
            }
        }
        _ => {}
    };
    for i in &casm.instructions {
        if let InstructionBody::AssertEq(a) = &i.body {
            res(&a.b, &mut ks);
        }
        for h in &i.hints {
            if let Hint::Core(CoreHintBase::Core(CoreHint::TestLessThan { lhs, rhs, .. }))
            | Hint::Core(CoreHintBase::Core(CoreHint::TestLessThanOrEqual { lhs, rhs, .. })) = h
            {
                res(lhs, &mut ks);
                res(rhs, &mut ks);
            }
        }
    }
    let b128 = pow2(128);
    let mut out: Vec<BigInt> = vec![];
    for k in ks {
        let k = ((&k % &p) + &p) % &p;
        // signed reading of the immediate
        for c in [k.clone(), &k - &p] {
            if c.bits() > 200 {
                continue;
            }
            for base in [c.clone(), -&c, &b128 - &c, &c - &b128, &c + &b128, -&c + &b128, -&c - &b128] {
                for d in [-1i32, 0, 1] {
                    out.push(&base + d);
                }
            }
        }
    }
    for d in 1..4 {
        out.push(&p - d);
    }
    out.sort();
    out.dedup();
    out
}

/// Honest-run oracle for the parametric wrappers: the mathematically expected result felts.
pub fn expected_from_spec(spec: &(String, Vec<BigInt>), a: &[BigInt]) -> Option<Vec<BigInt>> {
    let p = vcommon::stark_prime();
    let f = |v: &BigInt| ((v % &p) + &p) % &p;
    let (k, c) = (spec.0.as_str(), &spec.1);
    let z = BigInt::from(0);
    let one = BigInt::from(1);
    Some(match k {
        "constrain" => vec![if a[0] < c[0] { z.clone() } else { one.clone() }, f(&a[0])],
        "div_rem" => {
            if a[1] <= z || a[0] < z {
                return None;
            }
            vec![f(&(&a[0] / &a[1])), f(&(&a[0] % &a[1]))]
        }
        "add" => vec![f(&(&a[0] + &a[1]))],
        "sub" => vec![f(&(&a[0] - &a[1]))],
        "mul" => vec![f(&(&a[0] * &a[1]))],
        "trim" => {
            if a[0] == c[0] { vec![z.clone(), z.clone()] } else { vec![one.clone(), f(&a[0])] }
        }
        "downcast" => {
            if c[0] <= a[0] && a[0] <= c[1] { vec![z.clone(), f(&a[0])] } else { vec![one.clone(), z.clone()] }
        }
        "is_zero" => {
            if a[0] == z { vec![z.clone(), z.clone()] } else { vec![one.clone(), f(&a[0])] }
        }
        "felt_downcast" => {
            // the felt a denotes a value of [lo, hi] iff a or a - P lies in it
            let am = &a[0] - &p;
            if (c[0] <= a[0] && a[0] <= c[1]) || (c[0] <= am && am <= c[1]) {
                vec![z.clone(), f(&a[0])]
            } else {
                vec![one.clone(), z.clone()]
            }
        }
        "ident" => vec![f(&a[0])],
        _ => return None,
    })
}

pub struct WrapperReport {
    pub name: String,
    pub tuples: usize,
    pub honest_failed: usize,
    pub occurrences: usize,
    pub mutated: usize,
    pub failed: usize,
    pub same: usize,
    pub violations: Vec<serde_json::Value>,
    pub samples: Vec<serde_json::Value>,
    pub hint_kinds: std::collections::BTreeMap<String, usize>,
    /// (hint kind, lie kind) -> number of lying runs
    pub lies: std::collections::BTreeMap<(String, String), usize>,
    pub oracle_checked: usize,
    pub error: Option<String>,
}

fn fmt_val(v: &RunResultValue) -> String {
    match v {
        RunResultValue::Success(xs) => format!("Success{:?}", xs.iter().map(|x| x.to_bigint().to_string()).collect::<Vec<_>>()),
        RunResultValue::Panic(xs) => format!("Panic{:?}", xs.iter().map(|x| x.to_bigint().to_string()).collect::<Vec<_>>()),
    }
}

/// The whole exploration for one wrapper.
pub fn explore(
    name: &str,
    program: &Program,
    param_tys: &[Ty],
    meta: &Meta,
    full: bool,
    seed: u64,
) -> WrapperReport {
    let mut rep = WrapperReport {
        name: name.to_string(), tuples: 0, honest_failed: 0, occurrences: 0, mutated: 0, failed: 0, same: 0,
        violations: vec![], samples: vec![], hint_kinds: Default::default(), lies: Default::default(),
        oracle_checked: 0, error: None,
    };
    let built = std::panic::catch_unwind(std::panic::AssertUnwindSafe(|| {
        SierraCasmRunner::new(program.clone(), None, Default::default(), None)
    }));
    let runner = match built {
        Ok(Ok(r)) => r,
        Ok(Err(e)) => {
            rep.error = Some(format!("runner: {e}"));
            return rep;
        }
        Err(_) => {
            rep.error = Some(format!("runner: COMPILER PANIC in sierra-to-casm @ {}", vcommon::last_panic_location()));
            return rep;
        }
    };
    // per-wrapper PRNG so that results do not depend on scheduling
    let mut h: u64 = seed ^ 0x5bd1e995;
    for b in name.bytes() {
        h = h.wrapping_mul(0x100000001b3) ^ b as u64;
    }
    let mut rng = Rng(h);
    let (cap, nrand) = if full { (400, 40) } else { (40, 8) };
    // wrappers with multi-limb parameters run the limb cross product: fewer random extras there
    let tuples = crate::operands::tuples_with(param_tys, &meta.extra, full, cap, nrand, &mut rng);
    // every tuple gets its honest run (and the honest-result oracle); at most `budget` of them,
    // evenly spread, are additionally re-run with lies (the limb cross products are large)
    let budget = if full { 500 } else { 120 };
    let stride = tuples.len().div_ceil(budget).max(1);
    for (ti, t) in tuples.iter().enumerate() {
        let felts: Vec<BigInt> =
            t.iter().zip(param_tys).flat_map(|(v, ty)| ty.to_felts(v)).collect();
        rep.tuples += 1;
        let (honest, log, _) = run_once(&runner, &felts, Mode::Record, 2_000_000);
        let Outcome::Value(hv) = &honest else {
            rep.honest_failed += 1;
            if rep.violations.len() < 5 {
                rep.violations.push(serde_json::json!({
                    "wrapper": name, "args": t.iter().map(|x| x.to_string()).collect::<Vec<_>>(),
                    "hint_index": -1, "hint": "(none)", "mutation": "HONEST RUN FAILS IN THE VM",
                    "outcome": format!("{:?}", honest), "honest_result": "(failure)",
                }));
            }
            continue;
        };
        if let Some(spec) = &meta.spec {
            if let Some(exp) = expected_from_spec(spec, t) {
                rep.oracle_checked += 1;
                let got = match hv {
                    RunResultValue::Success(xs) => Some(xs.iter().map(|x| x.to_bigint()).collect::<Vec<_>>()),
                    RunResultValue::Panic(_) => None,
                };
                if got.as_ref() != Some(&exp) && rep.violations.len() < 5 {
                    rep.violations.push(serde_json::json!({
                        "wrapper": name, "args": t.iter().map(|x| x.to_string()).collect::<Vec<_>>(),
                        "hint_index": -1, "hint": "(none)",
                        "mutation": format!("HONEST RESULT WRONG: spec {} {:?}", spec.0, spec.1.iter().map(|x| x.to_string()).collect::<Vec<_>>()),
                        "outcome": fmt_val(hv),
                        "honest_result": format!("expected Success{:?}", exp.iter().map(|x| x.to_string()).collect::<Vec<_>>()),
                    }));
                }
            }
        }
        if ti % stride != 0 {
            continue;
        }
        for occ in &log {
            rep.occurrences += 1;
            *rep.hint_kinds.entry(occ.kind.clone()).or_default() += 1;
            for (mname, vals) in mutations(occ, &mut rng) {
                let (o, _, replaced) = run_once(
                    &runner,
                    &felts,
                    Mode::Replace { index: occ.index, values: vals.clone() },
                    2_000_000,
                );
                if !replaced {
                    continue;
                }
                rep.mutated += 1;
                let lie = if mname.starts_with("cell") {
                    mname.split(':').nth(1).unwrap_or("").to_string()
                } else if mname.starts_with("swap") {
                    "swap".to_string()
                } else {
                    mname.clone()
                };
                *rep.lies.entry((occ.kind.clone(), lie)).or_default() += 1;
                let case = serde_json::json!({
                    "wrapper": name,
                    "args": t.iter().map(|x| x.to_string()).collect::<Vec<_>>(),
                    "hint_index": occ.index, "hint": occ.kind, "mutation": mname,
                    "honest_answer": occ.cells.iter().map(|c| c.1.map(|v| v.to_bigint().to_string())).collect::<Vec<_>>(),
                    "answer": vals.iter().map(|v| v.map(|v| v.to_bigint().to_string())).collect::<Vec<_>>(),
                    "honest_result": fmt_val(hv),
                    "outcome": match &o { Outcome::Value(v) => fmt_val(v), Outcome::Failed(e) => format!("VM failure: {e}") },
                });
                match &o {
                    Outcome::Failed(_) => rep.failed += 1,
                    Outcome::Value(v) if v == hv => rep.same += 1,
                    Outcome::Value(_) => rep.violations.push(case.clone()),
                }
                if rep.samples.len() < 2 && (rep.mutated % 7 == 1) {
                    rep.samples.push(case);
                }
            }
        }
    }
    rep
}
