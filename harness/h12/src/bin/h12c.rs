//! C12 whole-compiler differential exploration (label: explored, not proved).
//!
//! usage: h12c <out_dir> <tier>        (VERIF_SEED, VERIF_REPO from the environment)
//!
//! Each project is compiled once per configuration, every time in a fresh database:
//!   threads  : rayon pool of 1 / 2 / 4 / 16 threads (`ThreadPoolBuilder`, `pool.install`)
//!   warm-up  : which entry point is asked first - `compile_prepared_db_program_artifact`
//!              (-> `ensure_diagnostics` + `warmup_functions_blocking`, parallel when the pool has
//!              > 1 thread) or `compile_prepared_db` (no warm-up at all); both are always run
//!   history  : none, or a seeded random sequence of other queries asked first on the same database:
//!              syntax / semantic / lowering diagnostics of single modules, and per-function queries
//!              (`function_with_body_sierra`, `lowered_body` at every stage,
//!              `function_with_body_feedback_set`) - more than half of them on modules and functions
//!              OF THE SAME PROJECT, the rest on corelib - sequentially or in parallel on database
//!              clones; optionally after another project was compiled in the same database
//! and EVERYTHING the compile entry points return must be byte-identical to the baseline
//! configuration (interned ids canonicalised where an output is keyed by them):
//!   diagnostics; Sierra with debug names / canonical ids; CASM; statement annotations; function debug
//!   info; type names; the `ProgramArtifact` JSON with its `executables`; for `#[executable]`
//!   projects the list of executables and every executable's compiled CASM + `Executable` JSON; for
//!   test projects the `TestCompilation` (named tests, function_set_costs, contracts_info, program);
//!   for Starknet projects the contract classes (ABI, entry points, debug annotations) and the CASM
//!   classes (hints and pythonic hints).
//! Projects hold several items of every collected kind (executables with one attribute, tests,
//! contracts, impls and generic instantiations) and call cycles of every shape (mutual recursion of
//! 2 and 3 functions, through trait impls, generic instantiations, a loop, a closure, across modules).
//!
//! A difference is classified: if the two Sierra programs have the same functions, the bodies that
//! differ all belong to call cycles and differ only in where the gas withdrawal of the cycle was
//! placed, it is the known finding `scc-representative-intern-id`; anything else is a violation.
use std::collections::{BTreeMap, BTreeSet};
use std::fmt::Write as _;
use std::fs;
use std::panic::AssertUnwindSafe;
use std::path::{Path, PathBuf};
use std::time::Instant;

use cairo_lang_compiler::db::RootDatabase;
use cairo_lang_compiler::diagnostics::DiagnosticsReporter;
use cairo_lang_compiler::project::setup_project;
use cairo_lang_compiler::{CompilerConfig, compile_prepared_db, compile_prepared_db_program, compile_prepared_db_program_artifact};
use cairo_lang_defs::db::DefsGroup;
use cairo_lang_defs::ids::{FreeFunctionId, ModuleId, TopLevelLanguageElementId};
use cairo_lang_executable::compile::{
    ExecutableConfig, compile_executable_function_in_prepared_db, find_executable_functions, originating_function_path,
};
use cairo_lang_executable::executable::Executable;
use cairo_lang_executable_plugin::executable_plugin_suite;
use cairo_lang_filesystem::cfg::{Cfg, CfgSet};
use cairo_lang_filesystem::db::{FilesGroup, init_dev_corelib};
use cairo_lang_filesystem::ids::{CrateInput, FileId};
use cairo_lang_lowering::{DependencyType, LoweringStage};
use cairo_lang_lowering::db::LoweringGroup;
use cairo_lang_lowering::ids::ConcreteFunctionWithBodyId;
use cairo_lang_lowering::optimizations::config::Optimizations;
use cairo_lang_lowering::utils::InliningStrategy;
use cairo_lang_semantic::db::SemanticGroup;
use cairo_lang_sierra::debug_info::{Annotations, DebugInfo};
use cairo_lang_sierra::program::{GenStatement, GenericArg, Program, ProgramArtifact, VersionedProgram};
use cairo_lang_sierra_generator::canonical_id_replacer::CanonicalReplacer;
use cairo_lang_sierra_generator::db::SierraGenGroup;
use cairo_lang_sierra_generator::debug_info::SerializableTypeNamesDebugInfo;
use cairo_lang_sierra_generator::replace_ids::{SierraIdReplacer, replace_sierra_ids_in_program};
use cairo_lang_sierra_to_casm::compiler::{SierraToCasmConfig, compile};
use cairo_lang_sierra_to_casm::metadata::{MetadataComputationConfig, calc_metadata, calc_metadata_ap_change_only};
use cairo_lang_sierra_type_size::ProgramRegistryInfo;
use cairo_lang_starknet::compile::compile_prepared_db as starknet_compile_prepared_db;
use cairo_lang_starknet::contract::find_contracts;
use cairo_lang_starknet::starknet_plugin_suite;
use cairo_lang_starknet_classes::casm_contract_class::CasmContractClass;
use cairo_lang_test_plugin::{TestsCompilationConfig, compile_test_prepared_db, test_plugin_suite};
use cairo_lang_utils::CloneableDatabase;
use rayon::iter::{IntoParallelIterator, ParallelIterator};
use salsa::Database;
use vcommon::*;

fn repo() -> String {
    std::env::var("VERIF_REPO").unwrap_or_else(|_| "/repo".to_string())
}

#[derive(Clone, Copy, PartialEq)]
enum Kind {
    /// default compiler database (gas enabled)
    Plain,
    /// `cairo-execute` database: executable plugin, gas disabled
    Executable,
    /// `cairo-test` database: cfg(test), test plugin (+ starknet plugin when `true`), gas enabled
    Tests(bool),
    /// starknet plugin; the named contracts are compiled together by `compile_prepared_db`
    Starknet(&'static [&'static str]),
}

#[derive(Clone)]
struct Project {
    name: &'static str,
    path: PathBuf,
    kind: Kind,
    /// per call cycle (SCC of >= 2 functions of the lowering call graph, found in a scratch
    /// database): its members that are free functions without generic parameters, by full path, in
    /// declaration order.  The first one is the member that is *pinned*: interned before anything
    /// else, it becomes the cycle's representative (the minimum intern id) in every run.
    cycles: Vec<Vec<String>>,
}

#[derive(Clone, Debug)]
struct Config {
    threads: usize,
    warmup: bool,
    /// seed of the query prefix, number of queries, run on clones in parallel?
    prefix: Option<(u64, usize, bool)>,
    /// another project set up in the same database and compiled completely before this one
    other_first: Option<PathBuf>,
    /// intern the first free member of every call cycle before anything else (neutralises the known
    /// finding scc-representative-intern-id: the representative is then the same in every run)
    pin: bool,
    /// after pinning: per-function queries on the OTHER members of some call cycles, in a seeded
    /// random permutation (the order in which they are interned)
    cycle_perm: Option<u64>,
}
impl Config {
    fn label(&self) -> String {
        format!(
            "{}{}threads={} first={} prefix={}{}",
            if self.pin { "representatives-pinned " } else { "" },
            match self.cycle_perm {
                Some(s) => format!("cycle-members-permuted/seed{s} "),
                None => String::new(),
            },
            self.threads,
            if self.warmup { "artifact(warm-up)" } else { "crate(no warm-up)" },
            match self.prefix {
                None => "none".to_string(),
                Some((s, n, par)) => format!("{}q/seed{}/{}", n, s, if par { "parallel-clones" } else { "sequential" }),
            },
            if self.other_first.is_some() { " other-project-compiled-first" } else { "" }
        )
    }
}

struct Art {
    name: String,
    text: String,
    /// `Some(g)`: derived from the Sierra program(s) of group `g` (a difference may be a consequence
    /// of the known finding, decided on those programs); `None`: independent of any program body.
    group: Option<&'static str>,
}

#[derive(Default)]
struct Artifacts {
    items: Vec<Art>,
    /// Sierra programs with debug names, per group, for the classification of differences
    programs: BTreeMap<&'static str, Vec<Program>>,
    sierra_raw: String,
    prefix_log: Vec<String>,
    seconds: f64,
}
impl Artifacts {
    fn push(&mut self, name: impl Into<String>, text: String, group: Option<&'static str>) {
        self.items.push(Art { name: name.into(), text, group });
    }
}

// ---------------------------------------------------------------------------------------------
// helpers on Sierra programs
// ---------------------------------------------------------------------------------------------
fn strip_names(p: &Program) -> Program {
    let mut q = p.clone();
    let ga = |gs: &mut Vec<GenericArg>| {
        for g in gs {
            match g {
                GenericArg::Type(t) => t.debug_name = None,
                GenericArg::UserFunc(f) => f.debug_name = None,
                GenericArg::Libfunc(l) => l.debug_name = None,
                _ => {}
            }
        }
    };
    for d in &mut q.type_declarations {
        d.id.debug_name = None;
        ga(&mut d.long_id.generic_args);
    }
    for d in &mut q.libfunc_declarations {
        d.id.debug_name = None;
        ga(&mut d.long_id.generic_args);
    }
    for st in &mut q.statements {
        if let GenStatement::Invocation(i) = st {
            i.libfunc_id.debug_name = None;
        }
    }
    for f in &mut q.funcs {
        f.id.debug_name = None;
        for p in &mut f.params {
            p.ty.debug_name = None;
        }
        for t in &mut f.signature.param_types {
            t.debug_name = None;
        }
        for t in &mut f.signature.ret_types {
            t.debug_name = None;
        }
    }
    q
}

fn casm_text(program: &Program) -> String {
    let info = match ProgramRegistryInfo::new(program) {
        Ok(i) => i,
        Err(e) => return format!("<registry error: {e}>"),
    };
    let (metadata, gas) = match calc_metadata(program, &info, MetadataComputationConfig::default()) {
        Ok(m) => (m, true),
        Err(e1) => match calc_metadata_ap_change_only(program, &info) {
            Ok(m) => (m, false),
            Err(e2) => return format!("<metadata error: {e1} / {e2}>"),
        },
    };
    match compile(program, &info, &metadata, SierraToCasmConfig { gas_usage_check: gas, max_bytecode_size: usize::MAX }) {
        Ok(c) => c.to_string(),
        Err(e) => format!("<sierra-to-casm error: {e}>"),
    }
}

/// The artifact as it is written to disk (`VersionedProgram` JSON), with the interned ids replaced
/// by canonical ones in the program and in every id-keyed part of the debug info.
fn canonical_artifact_json(a: &ProgramArtifact) -> String {
    let r = CanonicalReplacer::from_program(&a.program);
    let program = r.apply(&a.program);
    let debug_info = a.debug_info.as_ref().map(|d| DebugInfo {
        type_names: d.type_names.iter().map(|(k, v)| (r.replace_type_id(k), v.clone())).collect(),
        libfunc_names: d.libfunc_names.iter().map(|(k, v)| (r.replace_libfunc_id(k), v.clone())).collect(),
        user_func_names: d.user_func_names.iter().map(|(k, v)| (r.replace_function_id(k), v.clone())).collect(),
        annotations: d.annotations.clone(),
        executables: d.executables.iter().map(|(k, v)| (k.clone(), v.iter().map(|f| r.replace_function_id(f)).collect())).collect(),
    });
    let v: VersionedProgram = ProgramArtifact { program, debug_info }.into();
    serde_json::to_string_pretty(&v).unwrap()
}

/// Replaces every `{"id": n, "debug_name": "name"}` object of a JSON value by `"name"`.
fn ids_to_names(v: &mut serde_json::Value) {
    use serde_json::Value;
    let name = match v {
        Value::Object(m) if m.len() == 2 && m.contains_key("id") => match m.get("debug_name") {
            Some(Value::String(s)) => Some(s.clone()),
            _ => None,
        },
        _ => None,
    };
    if let Some(n) = name {
        *v = Value::String(n);
        return;
    }
    match v {
        Value::Object(m) => m.values_mut().for_each(ids_to_names),
        Value::Array(a) => a.iter_mut().for_each(ids_to_names),
        _ => {}
    }
}

/// `executables` of the debug info as readable lines: attribute, then the functions in order.
fn executables_text(a: &ProgramArtifact) -> String {
    let mut s = String::new();
    if let Some(d) = &a.debug_info {
        for (attr, fs) in d.executables.iter() {
            writeln!(s, "[{attr}]").unwrap();
            for f in fs {
                writeln!(s, "  {}", f.debug_name.as_ref().map(|x| x.to_string()).unwrap_or_else(|| "<unnamed: compile with replace_ids>".into())).unwrap();
            }
        }
    }
    s
}

// ---------------------------------------------------------------------------------------------
// classification of a difference between two Sierra programs (debug names)
// ---------------------------------------------------------------------------------------------
fn libfunc_name(p: &Program, st: &cairo_lang_sierra::program::Statement, decl: &BTreeMap<u64, usize>) -> String {
    match st {
        GenStatement::Return(_) => "return".to_string(),
        GenStatement::Invocation(i) => match decl.get(&i.libfunc_id.id) {
            Some(k) => p.libfunc_declarations[*k].long_id.to_string(),
            None => format!("<undeclared {}>", i.libfunc_id),
        },
    }
}
fn generic_of(name: &str) -> &str {
    name.split('<').next().unwrap_or(name)
}
/// What may differ inside a function when only the gas withdrawal of its call cycle moved.
fn gas_or_plumbing(name: &str) -> bool {
    const GAS: [&str; 5] = ["withdraw_gas", "withdraw_gas_all", "redeposit_gas", "get_builtin_costs", "coupon_refund"];
    const PLUMBING: [&str; 15] = [
        "branch_align", "store_temp", "store_local", "alloc_local", "finalize_locals", "drop", "dup", "rename", "jump",
        "disable_ap_tracking", "enable_ap_tracking", "revoke_ap_tracking", "snapshot_take", "return",
        // the argument of a call that is a specialised call `f{c}()` in the other compile
        "const_as_immediate",
    ];
    let g = generic_of(name);
    GAS.contains(&g) || PLUMBING.contains(&g)
        // the out-of-gas panic branch: panic_with_const_felt252::<'Out of gas'>, PanicResult / Panic plumbing
        || name.contains("375233589013918064796019")
        || name.contains("Panic")
}
fn is_gas_withdrawal(name: &str) -> bool {
    matches!(generic_of(name), "withdraw_gas" | "withdraw_gas_all")
}

struct FnView {
    name: String,
    body: Vec<String>,
    callees: BTreeSet<u64>,
    id: u64,
}
fn function_views(p: &Program) -> Vec<FnView> {
    let decl: BTreeMap<u64, usize> = p.libfunc_declarations.iter().enumerate().map(|(k, d)| (d.id.id, k)).collect();
    let mut order: Vec<usize> = (0..p.funcs.len()).collect();
    order.sort_by_key(|i| p.funcs[*i].entry_point.0);
    let mut views: Vec<Option<FnView>> = (0..p.funcs.len()).map(|_| None).collect();
    for (pos, &fi) in order.iter().enumerate() {
        let start = p.funcs[fi].entry_point.0;
        let end = order.get(pos + 1).map(|j| p.funcs[*j].entry_point.0).unwrap_or(p.statements.len());
        let mut body = vec![];
        let mut callees = BTreeSet::new();
        for st in &p.statements[start.min(p.statements.len())..end.min(p.statements.len())] {
            body.push(libfunc_name(p, st, &decl));
            if let GenStatement::Invocation(i) = st {
                if let Some(k) = decl.get(&i.libfunc_id.id) {
                    let l = &p.libfunc_declarations[*k].long_id;
                    if matches!(l.generic_id.0.as_str(), "function_call" | "coupon_call" | "coupon_buy") {
                        for g in &l.generic_args {
                            if let GenericArg::UserFunc(f) = g {
                                callees.insert(f.id);
                            }
                        }
                    }
                }
            }
        }
        let f = &p.funcs[fi];
        views[fi] = Some(FnView { name: f.id.debug_name.as_ref().map(|s| s.to_string()).unwrap_or_else(|| format!("[{}]", f.id.id)), body, callees, id: f.id.id });
    }
    views.into_iter().map(|v| v.unwrap()).collect()
}

/// Members of call cycles (functions on a cycle of the call graph), by index, with a cycle label.
fn cyclic_components(views: &[FnView]) -> BTreeMap<usize, usize> {
    let idx: BTreeMap<u64, usize> = views.iter().enumerate().map(|(i, v)| (v.id, i)).collect();
    let n = views.len();
    let adj: Vec<Vec<usize>> = views.iter().map(|v| v.callees.iter().filter_map(|c| idx.get(c).copied()).collect()).collect();
    // reachability by BFS from every node (programs here are small); i and j are in one SCC iff
    // each reaches the other
    let mut reach: Vec<BTreeSet<usize>> = vec![BTreeSet::new(); n];
    for s in 0..n {
        let mut stack = adj[s].clone();
        while let Some(x) = stack.pop() {
            if reach[s].insert(x) {
                stack.extend(adj[x].iter().copied());
            }
        }
    }
    let mut comp = BTreeMap::new();
    for i in 0..n {
        if reach[i].contains(&i) {
            let label = (0..n).find(|j| reach[i].contains(j) && reach[*j].contains(&i)).unwrap_or(i);
            comp.insert(i, label);
        }
    }
    comp
}

/// A call of the const-specialisation `f{c}` counts as a call of `f`.
fn unspecialised(name: &str) -> String {
    match (name.find('{'), name.rfind('}')) {
        (Some(i), Some(j)) if i < j => format!("{}{}", &name[..i], &name[j + 1..]),
        _ => name.to_string(),
    }
}
fn multiset_diff(a: &[String], b: &[String]) -> Vec<String> {
    let mut m: BTreeMap<String, i64> = BTreeMap::new();
    for x in a {
        *m.entry(unspecialised(x)).or_default() += 1;
    }
    for x in b {
        *m.entry(unspecialised(x)).or_default() -= 1;
    }
    m.into_iter().filter(|(_, c)| *c != 0).map(|(k, _)| k).collect()
}

/// `Ok(description)` when the difference between the two programs is exactly the known finding:
/// * the two programs have the same functions (up to one-sided const-specialisations);
/// * every function whose body differs calls the same functions (up to the out-of-gas panic helper
///   and const-specialisations);
/// * the *core* of the difference is non-empty: functions whose number of gas withdrawals differs
///   and which lie on a call cycle of the program or are const-specialisations `f{..}` (the
///   specialised copy carries the body of `f` with or without `f`'s withdrawal; `f` itself and its
///   cycle need not be in the program);
/// * every other differing function reaches a core function through calls (its callee's signature
///   gained or lost the gas implicits) and has the same number of gas withdrawals.
/// `Err(reason)` otherwise.
fn classify_scc(a: &Program, b: &Program) -> Result<String, String> {
    let (mut va, mut vb) = (function_views(a), function_views(b));
    let all_a: Vec<(u64, String)> = va.iter().map(|v| (v.id, v.name.clone())).collect();
    let all_b: Vec<(u64, String)> = vb.iter().map(|v| (v.id, v.name.clone())).collect();
    // which const-specialisations `f{..}` exist may differ (the decision looks at the body of `f`,
    // with or without its gas withdrawal): one-sided specialisations are set aside, every other
    // function must be present on both sides, in the same order
    let names_a: BTreeSet<String> = va.iter().map(|v| v.name.clone()).collect();
    let names_b: BTreeSet<String> = vb.iter().map(|v| v.name.clone()).collect();
    let one_sided = |n: &String, other: &BTreeSet<String>| n.contains('{') && !other.contains(n);
    va.retain(|v| !one_sided(&v.name, &names_b));
    vb.retain(|v| !one_sided(&v.name, &names_a));
    // the order of the functions in the program is the order of discovery from the requested
    // functions; it follows the calls, so it may move with the specialisations: match by name
    va.sort_by(|x, y| x.name.cmp(&y.name));
    vb.sort_by(|x, y| x.name.cmp(&y.name));
    let (na, nb): (Vec<&String>, Vec<&String>) = (va.iter().map(|v| &v.name).collect(), vb.iter().map(|v| &v.name).collect());
    if na != nb {
        let only_a: Vec<&&String> = na.iter().filter(|n| !names_b.contains(**n)).take(4).collect();
        let only_b: Vec<&&String> = nb.iter().filter(|n| !names_a.contains(**n)).take(4).collect();
        return Err(format!("the sets of functions differ (only in one: {:?} / only in the other: {:?})", only_a, only_b));
    }
    let cyc = cyclic_components(&va);
    let idx: BTreeMap<u64, usize> = va.iter().enumerate().map(|(i, v)| (v.id, i)).collect();
    let idxb: BTreeMap<u64, usize> = vb.iter().enumerate().map(|(i, v)| (v.id, i)).collect();
    let mut core: BTreeMap<usize, bool> = BTreeMap::new(); // index -> withdrawal is in version a
    let mut others: Vec<usize> = vec![];
    for (i, (fa, fb)) in va.iter().zip(vb.iter()).enumerate() {
        if fa.body == fb.body {
            continue;
        }
        // callees by name, a const-specialisation counting as its base function (va / vb were
        // filtered, so the lookup goes through the complete views)
        let ca: BTreeSet<String> = all_a.iter().filter(|v| fa.callees.contains(&v.0)).map(|v| unspecialised(&v.1)).collect();
        let cb: BTreeSet<String> = all_b.iter().filter(|v| fb.callees.contains(&v.0)).map(|v| unspecialised(&v.1)).collect();
        let cd: Vec<&String> = ca.symmetric_difference(&cb).filter(|n| !n.contains("375233589013918064796019")).collect();
        if !cd.is_empty() {
            return Err(format!("function {} calls different functions: {:?}", fa.name, cd));
        }
        // (what else changes inside a differing function - arguments built for a callee that is a
        // const-specialisation in one compile only, value plumbing, the out-of-gas branch - is not
        // restricted here: the decisive test is the re-run with pinned representatives)
        let _ = (multiset_diff(&fa.body, &fb.body), gas_or_plumbing(""));
        let (wa, wb) = (fa.body.iter().filter(|n| is_gas_withdrawal(n)).count(), fb.body.iter().filter(|n| is_gas_withdrawal(n)).count());
        if wa != wb {
            let base = fa.name.split('{').next().unwrap_or(&fa.name);
            let on_cycle = cyc.contains_key(&i) || va.iter().position(|v| v.name == base).map(|j| cyc.contains_key(&j)).unwrap_or(false);
            if !(on_cycle || base != fa.name) {
                return Err(format!("function {} has a different number of gas withdrawals and is neither on a call cycle nor a specialisation", fa.name));
            }
            core.insert(i, wa > wb);
        } else {
            others.push(i);
        }
    }
    if core.is_empty() {
        return Err("no function on a call cycle (or specialisation) with a moved gas withdrawal".into());
    }
    // every other differing function must reach the core through calls (in either version)
    for &o in &others {
        let mut seen = BTreeSet::new();
        let mut stack = vec![o];
        let mut found = false;
        while let Some(x) = stack.pop() {
            if !seen.insert(x) {
                continue;
            }
            if core.contains_key(&x) {
                found = true;
                break;
            }
            stack.extend(va[x].callees.iter().filter_map(|c| idx.get(c).copied()));
            stack.extend(vb[x].callees.iter().filter_map(|c| idxb.get(c).copied()));
        }
        if !found {
            return Err(format!("function {} differs, has the same gas withdrawals and does not call into the differing call cycle", va[o].name));
        }
    }
    let ina: Vec<&String> = core.iter().filter(|(_, x)| **x).map(|(i, _)| &va[*i].name).collect();
    let inb: Vec<&String> = core.iter().filter(|(_, x)| !**x).map(|(i, _)| &va[*i].name).collect();
    let mut cycles: BTreeSet<Vec<&String>> = BTreeSet::new();
    for i in core.keys() {
        if let Some(l) = cyc.get(i) {
            cycles.insert(cyc.iter().filter(|(_, m)| *m == l).map(|(k, _)| &va[*k].name).collect());
        }
    }
    Ok(format!(
        "gas withdrawal of a call cycle placed in {:?} in one compile and in {:?} in the other; call cycles visible in the program: {:?}; {} caller(s) follow with changed implicits",
        ina, inb, cycles, others.len()
    ))
}

// ---------------------------------------------------------------------------------------------
// the history: a prefix of other queries
// ---------------------------------------------------------------------------------------------
#[derive(Clone, Copy)]
enum Query<'db> {
    Syntax(FileId<'db>),
    Semantic(ModuleId<'db>),
    Lowering(ModuleId<'db>),
    // functions are kept as definition ids: the concrete (lowering) id of a function is interned
    // only when its query runs, so that the order of the history is the order of interning
    Sierra(FreeFunctionId<'db>),
    Lowered(FreeFunctionId<'db>, LoweringStage),
    Feedback(FreeFunctionId<'db>, LoweringStage),
}

fn run_query(db: &dyn Database, q: Query<'_>) {
    // results are dropped: only the memoisation / interning side effects on the database matter
    let _ = catch(AssertUnwindSafe(|| match q {
        Query::Syntax(f) => {
            let _ = cairo_lang_parser::db::ParserGroup::file_syntax_diagnostics(db, f);
        }
        Query::Semantic(m) => {
            let _ = db.module_semantic_diagnostics(m);
        }
        Query::Lowering(m) => {
            let _ = db.module_lowering_diagnostics(m);
        }
        Query::Sierra(f) => {
            if let Some(c) = ConcreteFunctionWithBodyId::from_no_generics_free(db, f) {
                let _ = db.function_with_body_sierra(c);
            }
        }
        Query::Lowered(f, s) => {
            if let Some(c) = ConcreteFunctionWithBodyId::from_no_generics_free(db, f) {
                let _ = db.lowered_body(c, s);
            }
        }
        Query::Feedback(f, s) => {
            if let Some(c) = ConcreteFunctionWithBodyId::from_no_generics_free(db, f) {
                let _ = db.function_with_body_feedback_set(c, s);
            }
        }
    }));
}

fn describe(db: &dyn Database, q: &Query<'_>) -> String {
    match q {
        Query::Syntax(f) => format!("syntax_diagnostics({})", f.full_path(db)),
        Query::Semantic(m) => format!("semantic_diagnostics({})", m.full_path(db)),
        Query::Lowering(m) => format!("lowering_diagnostics({})", m.full_path(db)),
        Query::Sierra(f) => format!("function_with_body_sierra({})", f.full_path(db)),
        Query::Lowered(f, s) => format!("lowered_body({}, {:?})", f.full_path(db), s),
        Query::Feedback(f, s) => format!("function_with_body_feedback_set({}, {:?})", f.full_path(db), s),
    }
}

fn free_functions_of<'db>(db: &'db dyn Database, modules: &[ModuleId<'db>]) -> Vec<FreeFunctionId<'db>> {
    let mut v = vec![];
    for m in modules {
        let Ok(data) = m.module_data(db) else { continue };
        for (id, _) in data.free_functions(db).iter() {
            // (functions with generic parameters have no concrete id of their own: their queries
            // are no-ops; nothing is asked about a function before its turn in the history)
            v.push(*id);
        }
    }
    v
}

fn run_prefix(db: &dyn CloneableDatabase, own: &[CrateInput], seed: u64, n: usize, parallel: bool) -> Vec<String> {
    let mut rng = Rng(seed);
    let own_ids = CrateInput::into_crate_ids(db, own.to_vec());
    let mut own_modules: Vec<ModuleId<'_>> = vec![];
    let mut other_modules: Vec<ModuleId<'_>> = vec![];
    for c in db.crates() {
        let ms = db.crate_modules(*c);
        if own_ids.contains(c) {
            own_modules.extend(ms.iter().copied());
        } else {
            other_modules.extend(ms.iter().copied());
        }
    }
    let own_fns = free_functions_of(db, &own_modules);
    const STAGES: [LoweringStage; 4] = [LoweringStage::Monomorphized, LoweringStage::PreOptimizations, LoweringStage::PostBaseline, LoweringStage::Final];
    let mut queries: Vec<Query<'_>> = vec![];
    let mut guard = 0;
    while queries.len() < n && guard < n * 20 {
        guard += 1;
        // 2 of 3 queries concern the project itself
        let own_turn = rng.below(3) != 0 && !own_modules.is_empty();
        if own_turn && !own_fns.is_empty() && rng.below(4) != 0 {
            let f = *rng.pick(&own_fns);
            queries.push(match rng.below(6) {
                0 | 1 | 2 => Query::Sierra(f),
                3 | 4 => Query::Lowered(f, *rng.pick(&STAGES)),
                _ => Query::Feedback(f, *rng.pick(&[LoweringStage::Monomorphized, LoweringStage::Final])),
            });
            continue;
        }
        let pool = if own_turn { &own_modules } else { &other_modules };
        if pool.is_empty() {
            continue;
        }
        let m = *rng.pick(pool);
        match rng.below(10) {
            0 => {
                if let Ok(files) = db.module_files(m) {
                    if let Some(f) = files.first() {
                        queries.push(Query::Syntax(*f));
                    }
                }
            }
            1 | 2 => queries.push(Query::Semantic(m)),
            3 | 4 => queries.push(Query::Lowering(m)),
            _ => {
                let fs = free_functions_of(db, &[m]);
                if fs.is_empty() {
                    continue;
                }
                let f = *rng.pick(&fs);
                queries.push(if rng.below(3) == 0 { Query::Lowered(f, *rng.pick(&STAGES)) } else { Query::Sierra(f) });
            }
        }
    }
    let log: Vec<String> = queries.iter().map(|q| describe(db, q)).collect();
    if parallel {
        queries.into_par_iter().for_each_with(db.dyn_clone(), |db, q| run_query(db.as_ref(), q));
    } else {
        for q in queries {
            run_query(db, q);
        }
    }
    log
}

// ---------------------------------------------------------------------------------------------
// call cycles of a project: analysis (scratch database), pinning, permuted histories
// ---------------------------------------------------------------------------------------------
fn own_free_functions<'db>(db: &'db dyn Database, own: &[CrateInput]) -> Vec<(FreeFunctionId<'db>, String)> {
    let own_ids = CrateInput::into_crate_ids(db, own.to_vec());
    let mut v = vec![];
    for c in own_ids {
        for m in db.crate_modules(c).iter() {
            for f in free_functions_of(db, &[*m]) {
                v.push((f, f.full_path(db)));
            }
        }
    }
    v
}

/// The call cycles of the project's lowering call graph, as seen from its free functions.
fn analyse_cycles(path: &Path, kind: Kind) -> Vec<Vec<String>> {
    let r = catch(AssertUnwindSafe(|| {
        let mut db = build_db(kind);
        let Ok(inputs) = setup_project(&mut db, path) else { return vec![] };
        let db = &db;
        let fns = own_free_functions(db, &inputs);
        let conc: Vec<Option<ConcreteFunctionWithBodyId<'_>>> = fns.iter().map(|(f, _)| ConcreteFunctionWithBodyId::from_no_generics_free(db, *f)).collect();
        let mut done: BTreeSet<usize> = BTreeSet::new();
        let mut cycles = vec![];
        for i in 0..fns.len() {
            let Some(c) = conc[i] else { continue };
            if done.contains(&i) {
                continue;
            }
            let mut members: Vec<ConcreteFunctionWithBodyId<'_>> = vec![];
            for dep in [DependencyType::Cost, DependencyType::Call] {
                if let Ok(scc) = catch(AssertUnwindSafe(|| db.lowered_scc(c, dep, LoweringStage::Monomorphized))) {
                    members.extend(scc);
                }
            }
            let mut distinct = members.clone();
            distinct.sort_by_key(|m| m.full_path(db));
            distinct.dedup();
            if distinct.len() < 2 {
                continue;
            }
            let free: Vec<usize> = (0..fns.len()).filter(|j| conc[*j].map(|cj| members.contains(&cj)).unwrap_or(false)).collect();
            done.extend(free.iter().copied());
            cycles.push(free.iter().map(|j| fns[*j].1.clone()).collect());
        }
        cycles
    }));
    r.unwrap_or_default()
}

fn find_free_function<'db>(fns: &[(FreeFunctionId<'db>, String)], path: &str) -> Option<FreeFunctionId<'db>> {
    fns.iter().find(|(_, p)| p == path).map(|(f, _)| *f)
}

/// Interns (only interns: nothing is computed) the concrete id of the first free member of every
/// call cycle, in the fixed order of the analysis.
fn pin_representatives(db: &dyn Database, own: &[CrateInput], cycles: &[Vec<String>]) -> usize {
    let fns = own_free_functions(db, own);
    let mut n = 0;
    for c in cycles {
        if let Some(f) = c.first().and_then(|p| find_free_function(&fns, p)) {
            if ConcreteFunctionWithBodyId::from_no_generics_free(db, f).is_some() {
                n += 1;
            }
        }
    }
    n
}

/// Per-function queries on the non-pinned free members of some call cycles, in a seeded random
/// permutation: the order in which the other members of a cycle get their intern ids.
fn run_cycle_permutation(db: &dyn Database, own: &[CrateInput], cycles: &[Vec<String>], seed: u64) -> Vec<String> {
    let mut rng = Rng(seed);
    let fns = own_free_functions(db, own);
    let mut log = vec![];
    let mut candidates: Vec<&Vec<String>> = cycles.iter().filter(|c| c.len() >= 3).collect();
    if candidates.is_empty() {
        candidates = cycles.iter().filter(|c| c.len() >= 2).collect();
    }
    if candidates.is_empty() {
        return log;
    }
    // most of the time every dense cycle, sometimes a single one
    let chosen: Vec<&Vec<String>> = if rng.below(3) == 0 { vec![*rng.pick(&candidates)] } else { candidates.clone() };
    for cyc in chosen {
        let mut rest: Vec<&String> = cyc[1..].iter().collect();
        for i in (1..rest.len()).rev() {
            let j = rng.below(i as u64 + 1) as usize;
            rest.swap(i, j);
        }
        // sometimes only a prefix of the permutation
        let take = if rng.below(3) == 0 { 1 + rng.below(rest.len() as u64) as usize } else { rest.len() };
        for p in rest.into_iter().take(take) {
            let Some(f) = find_free_function(&fns, p) else { continue };
            let q = match rng.below(4) {
                0 => Query::Sierra(f),
                1 => Query::Lowered(f, LoweringStage::Monomorphized),
                _ => Query::Lowered(f, LoweringStage::Final),
            };
            log.push(describe(db, &q));
            run_query(db, q);
        }
    }
    log
}

// ---------------------------------------------------------------------------------------------
// one compilation
// ---------------------------------------------------------------------------------------------
fn build_db(kind: Kind) -> RootDatabase {
    let mut b = RootDatabase::builder();
    match kind {
        Kind::Plain => {
            b.with_optimizations(Optimizations::enabled_with_default_movable_functions(InliningStrategy::Default));
        }
        Kind::Executable => {
            // as cairo_lang_executable::compile::prepare_db
            b.skip_auto_withdraw_gas().with_cfg(CfgSet::from_iter([Cfg::kv("gas", "disabled")])).with_default_plugin_suite(executable_plugin_suite());
        }
        Kind::Tests(starknet) => {
            // as cairo_lang_test_runner::TestCompiler::try_new with gas enabled
            b.with_cfg(CfgSet::from_iter([Cfg::name("test"), Cfg::kv("target", "test")]));
            b.with_default_plugin_suite(test_plugin_suite());
            if starknet {
                b.with_default_plugin_suite(starknet_plugin_suite());
            }
        }
        Kind::Starknet(_) => {
            b.with_optimizations(Optimizations::enabled_with_default_movable_functions(InliningStrategy::Default));
            b.with_default_plugin_suite(starknet_plugin_suite());
        }
    }
    let mut db = b.build().expect("RootDatabase");
    init_dev_corelib(&mut db, PathBuf::from(format!("{}/corelib/src", repo())));
    db
}

/// `compile_prepared_db` (no warm-up): the Sierra of the crates with all its debug info.
fn crate_entry(db: &dyn CloneableDatabase, inputs: &[CrateInput], art: &mut Artifacts) {
    let crate_ids = CrateInput::into_crate_ids(db, inputs.to_vec());
    let mut diag = String::new();
    let res = {
        let reporter = DiagnosticsReporter::write_to_string(&mut diag).with_crates(inputs).allow_warnings();
        let config = CompilerConfig { diagnostics_reporter: reporter, replace_ids: false, ..Default::default() };
        catch(AssertUnwindSafe(|| {
            compile_prepared_db(db, crate_ids, config).map(|pd| {
                let raw = pd.program.clone();
                let replacer = CanonicalReplacer::from_program(&raw);
                // each extraction on its own: a panic of one (recorded as its text) must not hide the others
                let part = |f: &mut dyn FnMut() -> Annotations| -> String {
                    match catch(AssertUnwindSafe(|| f())) {
                        Ok(a) => serde_json::to_string_pretty(&a).unwrap(),
                        Err(p) => format!("<panic: {p}>"),
                    }
                };
                let ann = part(&mut || {
                    let mut ann = Annotations::default();
                    ann.extend(Annotations::from(pd.debug_info.statements_locations.extract_statements_functions(db)));
                    ann.extend(Annotations::from(pd.debug_info.statements_locations.extract_statements_source_code_locations(db)));
                    ann
                });
                let fdi = part(&mut || Annotations::from(pd.debug_info.functions_info.clone().replace_function_ids(&replacer).extract_serializable_debug_info(db)));
                let tn = part(&mut || Annotations::from(SerializableTypeNamesDebugInfo::extract_type_names(db, &raw).replace_type_ids(&replacer)));
                (raw, ann, fdi, tn)
            })
        }))
    };
    art.push("crate.diagnostics", diag, None);
    match res {
        Ok(Ok((raw, annotations, fdi, tn))) => {
            art.sierra_raw = strip_names(&raw).to_string();
            let debug = replace_sierra_ids_in_program(db, &raw);
            art.push("crate.sierra_debug_names", debug.to_string(), Some("crate"));
            let canon = CanonicalReplacer::from_program(&raw).apply(&raw);
            art.push("crate.sierra_canonical_ids", strip_names(&canon).to_string(), Some("crate"));
            let canon_debug = CanonicalReplacer::from_program(&debug).apply(&debug);
            art.push("crate.sierra_canonical_with_names", canon_debug.to_string(), Some("crate"));
            art.push("crate.casm", casm_text(&canon), Some("crate"));
            art.push("crate.statement_annotations_json", annotations, Some("crate"));
            art.push("crate.functions_debug_info_json", fdi, Some("crate"));
            art.push("crate.type_names_json", tn, Some("crate"));
            art.programs.entry("crate").or_default().push(debug);
        }
        Ok(Err(e)) => art.push("crate.compile_error", format!("{e}"), None),
        Err(p) => art.push("crate.compile_panic", p, None),
    }
}

/// `compile_prepared_db_program_artifact` (diagnostics warm-up + function warm-up when the pool
/// has more than one thread): what cairo-compile / scarb write, with the `executables`.
fn artifact_entry(db: &dyn CloneableDatabase, inputs: &[CrateInput], art: &mut Artifacts) {
    let crate_ids = CrateInput::into_crate_ids(db, inputs.to_vec());
    let mut diag = String::new();
    let res = {
        let reporter = DiagnosticsReporter::write_to_string(&mut diag).with_crates(inputs).allow_warnings();
        let config = CompilerConfig {
            diagnostics_reporter: reporter,
            replace_ids: true,
            add_statements_functions: true,
            add_statements_code_locations: true,
            // keyed by raw interned ids in this entry point; compared in canonical form by crate_entry
            add_functions_debug_info: false,
            add_type_names: false,
        };
        catch(AssertUnwindSafe(|| compile_prepared_db_program_artifact(db, crate_ids, config)))
    };
    art.push("artifact.diagnostics", diag, None);
    match res {
        Ok(Ok(a)) => {
            art.push("artifact.executables", executables_text(&a), None);
            art.push("artifact.sierra_text", a.program.to_string(), Some("artifact"));
            art.push("artifact.versioned_program_json", canonical_artifact_json(&a), Some("artifact"));
            art.programs.entry("artifact").or_default().push(a.program);
        }
        Ok(Err(e)) => art.push("artifact.compile_error", format!("{e}"), None),
        Err(p) => art.push("artifact.compile_panic", p, None),
    }
}

fn executable_entry(db: &dyn CloneableDatabase, inputs: &[CrateInput], art: &mut Artifacts) {
    let crate_ids = CrateInput::into_crate_ids(db, inputs.to_vec());
    let r = catch(AssertUnwindSafe(|| {
        let found = find_executable_functions(db, crate_ids, None);
        let paths: Vec<String> = found.iter().map(|f| originating_function_path(db, *f)).collect();
        let mut outs = vec![];
        for (f, path) in found.iter().zip(paths.iter()) {
            let text = match compile_executable_function_in_prepared_db(db, *f, ExecutableConfig::default()) {
                Ok(r) => {
                    let casm = r.compiled_function.to_string();
                    let json = serde_json::to_string_pretty(&Executable::new(r.compiled_function)).unwrap();
                    format!("{casm}\n// ---- Executable JSON ----\n{json}")
                }
                Err(e) => format!("<error: {e}>"),
            };
            outs.push((path.clone(), text));
        }
        (paths, outs)
    }));
    match r {
        Ok((paths, outs)) => {
            art.push("executable.found_in_order", paths.join("\n"), None);
            for (path, text) in outs {
                // gas is disabled in this database: nothing excuses a difference
                art.push(format!("executable.{path}.compiled"), text, None);
            }
        }
        Err(p) => art.push("executable.panic", p, None),
    }
}

fn tests_entry(db: &dyn CloneableDatabase, inputs: &[CrateInput], starknet: bool, art: &mut Artifacts) {
    let mut diag = String::new();
    let res = {
        let reporter = DiagnosticsReporter::write_to_string(&mut diag).with_crates(inputs).allow_warnings();
        let config = TestsCompilationConfig {
            starknet,
            contract_declarations: None,
            contract_crate_ids: None,
            executable_crate_ids: None,
            add_statements_functions: true,
            add_statements_code_locations: true,
            add_functions_debug_info: false,
            add_type_names: false,
            replace_ids: true,
        };
        catch(AssertUnwindSafe(|| {
            compile_test_prepared_db(db, config, inputs.to_vec(), reporter).map(|tc| {
                let named = serde_json::to_string_pretty(&tc.metadata.named_tests).unwrap();
                let costs: Vec<String> = tc
                    .metadata
                    .function_set_costs
                    .iter()
                    .map(|(f, c)| format!("{}: {:?}", f.debug_name.as_ref().map(|s| s.to_string()).unwrap_or_else(|| "<unnamed>".into()), c.iter().collect::<Vec<_>>()))
                    .collect();
                // ContractInfo names functions by Sierra ids {id, debug_name}: the raw number is the
                // interned id (allowed to differ), the debug name is what is compared
                let mut cv = serde_json::to_value(tc.metadata.contracts_info.iter().collect::<Vec<_>>()).unwrap();
                ids_to_names(&mut cv);
                let contracts = serde_json::to_string_pretty(&cv).unwrap();
                (named, costs.join("\n"), contracts, tc.sierra_program)
            })
        }))
    };
    art.push("tests.diagnostics", diag, None);
    match res {
        Ok(Ok((named, costs, contracts, a))) => {
            art.push("tests.named_tests_json", named, None);
            art.push("tests.function_set_costs", costs, Some("tests"));
            art.push("tests.contracts_info_json", contracts, Some("tests"));
            art.push("tests.executables", executables_text(&a), None);
            art.push("tests.sierra_text", a.program.to_string(), Some("tests"));
            art.push("tests.versioned_program_json", canonical_artifact_json(&a), Some("tests"));
            art.programs.entry("tests").or_default().push(a.program);
        }
        Ok(Err(e)) => art.push("tests.compile_error", format!("{e}"), None),
        Err(p) => art.push("tests.compile_panic", p, None),
    }
}

fn starknet_entry(db: &dyn CloneableDatabase, inputs: &[CrateInput], wanted: &[&str], art: &mut Artifacts) {
    let crate_ids = CrateInput::into_crate_ids(db, inputs.to_vec());
    let mut diag = String::new();
    let classes = {
        let reporter = DiagnosticsReporter::write_to_string(&mut diag).with_crates(inputs).allow_warnings();
        let config = CompilerConfig {
            diagnostics_reporter: reporter,
            replace_ids: true,
            add_statements_functions: true,
            add_statements_code_locations: true,
            add_functions_debug_info: true,
            add_type_names: true,
        };
        catch(AssertUnwindSafe(|| {
            let all = find_contracts(db, &crate_ids);
            let names: Vec<String> = all.iter().map(|c| c.submodule_id.full_path(db)).collect();
            let chosen: Vec<_> = wanted.iter().filter_map(|w| all.iter().find(|c| c.submodule_id.full_path(db) == *w)).collect();
            if chosen.len() != wanted.len() {
                return Err(format!("contracts not found; available: {names:?}"));
            }
            // contracts are compiled in parallel on database clones (par_iter in compile_prepared_db)
            starknet_compile_prepared_db(db, &chosen, config).map(|v| (names, v)).map_err(|e| format!("{e}"))
        }))
    };
    art.push("starknet.diagnostics", diag, None);
    match classes {
        Ok(Ok((names, classes))) => {
            art.push("starknet.contracts_found_in_order", names.join("\n"), None);
            for (class, name) in classes.iter().zip(wanted.iter()) {
                let short = name.rsplit("::").next().unwrap_or(name);
                // the parts of the class that do not depend on function bodies
                art.push(format!("starknet.{short}.abi_json"), serde_json::to_string_pretty(&class.abi).unwrap(), None);
                let eps = &class.entry_points_by_type;
                let sel = |v: &Vec<cairo_lang_starknet_classes::contract_class::ContractEntryPoint>| v.iter().map(|e| format!("{:#x}", e.selector)).collect::<Vec<_>>().join(",");
                art.push(format!("starknet.{short}.entry_point_selectors"), format!("external: {}\nl1_handler: {}\nconstructor: {}", sel(&eps.external), sel(&eps.l1_handler), sel(&eps.constructor)), None);
                art.push(format!("starknet.{short}.contract_class_json"), serde_json::to_string_pretty(class).unwrap(), Some("starknet"));
                let casm = catch(AssertUnwindSafe(|| {
                    let extracted = class.extract_sierra_program(false).map_err(|e| format!("{e}"))?;
                    CasmContractClass::from_contract_class(class.clone(), extracted, true, usize::MAX).map_err(|e| format!("{e}"))
                }));
                art.push(
                    format!("starknet.{short}.casm_contract_class_json"),
                    match casm {
                        Ok(Ok(c)) => serde_json::to_string_pretty(&c).unwrap(),
                        Ok(Err(e)) => format!("<error: {e}>"),
                        Err(p) => format!("<panic: {p}>"),
                    },
                    Some("starknet"),
                );
                if let Ok(Ok(ex)) = catch(AssertUnwindSafe(|| class.extract_sierra_program(true))) {
                    art.programs.entry("starknet").or_default().push(ex.program);
                }
            }
        }
        Ok(Err(e)) => art.push("starknet.compile_error", e, None),
        Err(p) => art.push("starknet.compile_panic", p, None),
    }
}

fn compile_once(project: &Project, cfg: &Config) -> Artifacts {
    let t0 = Instant::now();
    let mut art = Artifacts::default();
    let mut db = build_db(project.kind);
    let inputs: Vec<CrateInput> = match setup_project(&mut db, &project.path) {
        Ok(i) => i,
        Err(e) => {
            art.push("setup", format!("setup_project failed: {e:?}"), None);
            return art;
        }
    };
    let other_inputs: Option<Vec<CrateInput>> = cfg.other_first.as_ref().and_then(|p| setup_project(&mut db, p).ok());
    let db = &db;
    if let Some(oi) = &other_inputs {
        // history: a different project is compiled to the end (it has diagnostics of its own) first
        let mut other_diag = String::new();
        let ids = CrateInput::into_crate_ids(db, oi.clone());
        let reporter = DiagnosticsReporter::write_to_string(&mut other_diag).with_crates(oi).allow_warnings();
        let config = CompilerConfig { diagnostics_reporter: reporter, replace_ids: true, ..Default::default() };
        let _ = catch(AssertUnwindSafe(|| compile_prepared_db_program(db, ids, config).map(|_| ())));
        art.prefix_log.push(format!("compiled {} first ({} bytes of its diagnostics)", cfg.other_first.as_ref().unwrap().display(), other_diag.len()));
    }
    if cfg.pin {
        let n = pin_representatives(db, &inputs, &project.cycles);
        art.prefix_log.push(format!("pinned the first free member of {n} call cycle(s)"));
    }
    if let Some(seed) = cfg.cycle_perm {
        art.prefix_log.extend(run_cycle_permutation(db, &inputs, &project.cycles, seed));
    }
    if let Some((seed, n, par)) = cfg.prefix {
        art.prefix_log.extend(run_prefix(db, &inputs, seed, n, par));
    }
    match project.kind {
        Kind::Starknet(wanted) => starknet_entry(db, &inputs, wanted, &mut art),
        kind => {
            if cfg.warmup {
                artifact_entry(db, &inputs, &mut art);
                crate_entry(db, &inputs, &mut art);
            } else {
                crate_entry(db, &inputs, &mut art);
                artifact_entry(db, &inputs, &mut art);
            }
            match kind {
                Kind::Executable => executable_entry(db, &inputs, &mut art),
                Kind::Tests(starknet) => tests_entry(db, &inputs, starknet, &mut art),
                _ => {}
            }
            // the order in which the two entry points ran must not show either
            art.items.sort_by(|a, b| a.name.cmp(&b.name));
        }
    }
    art.seconds = t0.elapsed().as_secs_f64();
    art
}

fn run_config(project: &Project, cfg: &Config) -> Artifacts {
    let pool = rayon::ThreadPoolBuilder::new().num_threads(cfg.threads).build().expect("rayon pool");
    pool.install(|| compile_once(project, cfg))
}

/// The baseline with the representatives pinned: needed by pinned configurations and by the
/// confirmation of the known finding.
fn ensure_pinned_baseline(project: &Project, baseline: &Config, slot: &mut Option<(String, Artifacts)>, compilations: &mut usize) {
    if slot.is_none() {
        let c = Config { pin: true, ..baseline.clone() };
        let a = run_config(project, &c);
        *compilations += 1;
        eprintln!("[h12c] {} [{}] {:.1}s", project.name, c.label(), a.seconds);
        *slot = Some((c.label(), a));
    }
}

fn first_diff(a: &str, b: &str) -> String {
    for (i, (x, y)) in a.lines().zip(b.lines()).enumerate() {
        if x != y {
            return format!("line {}: `{}` vs `{}`", i + 1, &x[..x.len().min(200)], &y[..y.len().min(200)]);
        }
    }
    format!("one is a prefix of the other: {} vs {} lines", a.lines().count(), b.lines().count())
}

// ---------------------------------------------------------------------------------------------
// generated projects
// ---------------------------------------------------------------------------------------------
fn write_project(dir: &Path, crate_name: &str, files: &[(&str, String)]) {
    fs::create_dir_all(dir).unwrap();
    fs::write(dir.join("cairo_project.toml"), format!("[crate_roots]\n{crate_name} = \".\"\n\n[config.global]\nedition = \"2024_07\"\n")).unwrap();
    for (name, text) in files {
        fs::write(dir.join(name), text).unwrap();
    }
}

/// A small crate with diagnostics of every phase in several modules: their order is at stake.
fn write_diag_project(dir: &Path) {
    let mut files: Vec<(String, String)> = vec![];
    let mut lib = String::new();
    for i in 0..6 {
        writeln!(lib, "mod m{i};").unwrap();
        let mut m = String::new();
        writeln!(m, "fn unused_{i}() -> felt252 {{\n    let x = {i};\n    let y = 5;\n    y\n}}").unwrap();
        writeln!(m, "fn mismatch_{i}() -> u8 {{\n    let a: felt252 = {i};\n    a\n}}").unwrap();
        writeln!(m, "fn unknown_{i}() -> felt252 {{\n    undefined_name_{i} + 1\n}}").unwrap();
        writeln!(m, "fn moved_{i}() {{\n    let a: Array<felt252> = array![{i}];\n    consume_{i}(a);\n    consume_{i}(a);\n}}").unwrap();
        writeln!(m, "fn consume_{i}(_a: Array<felt252>) {{}}").unwrap();
        writeln!(m, "fn syntax_{i}() {{\n    let = ;\n}}").unwrap();
        if i % 2 == 0 {
            writeln!(m, "mod inner {{\n    fn deep() -> u16 {{\n        let q: felt252 = 1;\n        q\n    }}\n    pub fn dup() {{}}\n    pub fn dup() {{}}\n}}").unwrap();
        }
        files.push((format!("m{i}.cairo"), m));
    }
    files.push(("lib.cairo".into(), lib));
    let refs: Vec<(&str, String)> = files.iter().map(|(a, b)| (a.as_str(), b.clone())).collect();
    write_project(dir, "diagp", &refs);
}

/// Call cycles of every shape, in several modules (gas enabled: every cycle gets a gas withdrawal).
fn write_cycles_project(dir: &Path) {
    let lib = "mod two;\nmod three;\nmod via_trait;\nmod via_generic;\nmod via_loop;\nmod nested;\nmod via_closure;\nmod dense;\nmod dense_x;\nmod dense_y;\nmod plain;\n";
    let two = "\
pub fn pong(n: felt252) -> felt252 {\n    if n == 0 {\n        1\n    } else {\n        ping(n - 1) + 2\n    }\n}\n
pub fn ping(n: felt252) -> felt252 {\n    if n == 0 {\n        0\n    } else {\n        pong(n - 1) + 1\n    }\n}\n
pub fn even(n: u32) -> bool {\n    if n == 0 {\n        true\n    } else {\n        odd(n - 1)\n    }\n}\n
pub fn odd(n: u32) -> bool {\n    if n == 0 {\n        false\n    } else {\n        even(n - 1)\n    }\n}\n";
    let three = "\
pub fn a(n: felt252) -> felt252 {\n    if n == 0 {\n        10\n    } else {\n        b(n - 1) + 1\n    }\n}\n
pub fn b(n: felt252) -> felt252 {\n    if n == 0 {\n        20\n    } else {\n        c(n - 1) * 2\n    }\n}\n
pub fn c(n: felt252) -> felt252 {\n    if n == 0 {\n        30\n    } else {\n        a(n - 1) - 3\n    }\n}\n
pub fn start_at_c(n: felt252) -> felt252 {\n    c(n) + b(n)\n}\n";
    let via_trait = "\
pub trait Walk<T> {\n    fn walk(self: T, n: u32) -> u32;\n}\n
#[derive(Copy, Drop)]\npub struct Left {\n    pub w: u32,\n}\n
#[derive(Copy, Drop)]\npub struct Right {\n    pub w: u32,\n}\n
pub impl LeftWalk of Walk<Left> {\n    fn walk(self: Left, n: u32) -> u32 {\n        if n == 0 {\n            self.w\n        } else {\n            hop(self.w + 1, n - 1)\n        }\n    }\n}\n
pub impl RightWalk of Walk<Right> {\n    fn walk(self: Right, n: u32) -> u32 {\n        if n == 0 {\n            self.w\n        } else {\n            LeftWalk::walk(Left { w: self.w + 2 }, n - 1)\n        }\n    }\n}\n
pub fn hop(w: u32, n: u32) -> u32 {\n    RightWalk::walk(Right { w }, n)\n}\n
pub fn trait_entry(n: u32) -> u32 {\n    LeftWalk::walk(Left { w: 0 }, n)\n}\n";
    let via_generic = "\
pub fn gen_a<T, +Drop<T>, +Copy<T>>(x: T, n: u32) -> u32 {\n    if n == 0 {\n        0\n    } else {\n        gen_b(x, n - 1) + 1\n    }\n}\n
pub fn gen_b<T, +Drop<T>, +Copy<T>>(x: T, n: u32) -> u32 {\n    if n == 0 {\n        1\n    } else {\n        gen_a(x, n - 1) + generic_hub(n - 1)\n    }\n}\n
pub fn generic_hub(n: u32) -> u32 {\n    if n == 0 {\n        2\n    } else {\n        gen_a(5_u8, n - 1) + gen_b(7_felt252, n - 1) + gen_a(true, n - 1)\n    }\n}\n
pub fn generic_entry(n: u32) -> u32 {\n    gen_a(5_u8, n) + gen_a(7_felt252, n) + gen_b(true, n)\n}\n";
    let via_loop = "\
pub fn looper(n: u32) -> u32 {\n    let mut i = 0_u32;\n    let mut acc = 0_u32;\n    loop {\n        if i >= n {\n            break;\n        }\n        acc += helper(i);\n        i += 1;\n    }\n    acc\n}\n
pub fn helper(k: u32) -> u32 {\n    if k == 0 {\n        0\n    } else {\n        looper(k - 1) + 1\n    }\n}\n";
    let nested = "\
pub mod x {\n    pub fn fx(n: felt252) -> felt252 {\n        if n == 0 {\n            0\n        } else {\n            super::y::fy(n - 1) + 1\n        }\n    }\n}\n
pub mod y {\n    pub fn fy(n: felt252) -> felt252 {\n        if n == 0 {\n            0\n        } else {\n            super::x::fx(n - 1) + 1\n        }\n    }\n}\n";
    let via_closure = "\
pub fn with_closure(n: u32) -> u32 {\n    let f = |k: u32| -> u32 {\n        if k == 0 {\n            0\n        } else {\n            with_closure(k - 1) + 1\n        }\n    };\n    f(n)\n}\n";
    let plain = "\
use crate::{dense, dense_x, dense_y, nested, three, two, via_closure, via_generic, via_loop, via_trait};\n
pub fn square(x: felt252) -> felt252 {\n    x * x\n}\n
pub fn main() -> felt252 {\n    let mut r = two::ping(3) + three::start_at_c(4) + nested::x::fx(2) + square(3) + dense::dense_entry(3) + dense_x::x1(2) + dense_y::y2(2);\n    if two::even(4) {\n        r += 1;\n    }\n    let s: u32 = via_trait::trait_entry(3) + via_generic::generic_entry(2) + via_loop::looper(3) + via_closure::with_closure(2);\n    r + s.into()\n}\n";
    // dense call cycles: the traversal of the cycle has choices
    let call = |name: &str, callees: &[&str], base: u32| -> String {
        let sum: Vec<String> = callees.iter().map(|c| format!("{c}(n - 1)")).collect();
        format!("pub fn {name}(n: felt252) -> felt252 {{\n    if n == 0 {{\n        return {base};\n    }}\n    {}\n}}\n\n", sum.join(" + "))
    };
    let mut dense = String::new();
    // K3: each calls the other two (callees listed in different orders)
    dense += &call("k3a", &["k3b", "k3c"], 0);
    dense += &call("k3b", &["k3c", "k3a"], 1);
    dense += &call("k3c", &["k3b", "k3a"], 2);
    // K4
    dense += &call("k4a", &["k4b", "k4c", "k4d"], 0);
    dense += &call("k4b", &["k4d", "k4a", "k4c"], 1);
    dense += &call("k4c", &["k4a", "k4d", "k4b"], 2);
    dense += &call("k4d", &["k4c", "k4b", "k4a"], 3);
    // a 5-cycle with chords
    dense += &call("r1", &["r2", "r4"], 0);
    dense += &call("r2", &["r3"], 1);
    dense += &call("r3", &["r4", "r1"], 2);
    dense += &call("r4", &["r5", "r2"], 3);
    dense += &call("r5", &["r1", "r3"], 4);
    // two cycles sharing a node (s0)
    dense += &call("s0", &["s1", "t1"], 0);
    dense += &call("s1", &["s2"], 1);
    dense += &call("s2", &["s0"], 2);
    dense += &call("t1", &["t2"], 3);
    dense += &call("t2", &["s0", "t1"], 4);
    dense += "pub fn dense_entry(n: felt252) -> felt252 {\n    k3a(n) + k4a(n) + r1(n) + s0(n)\n}\n";
    // K3 and a chorded cycle across two modules
    let mut dense_x = String::from("use super::dense_y::{y1, y2, y3};\n\n");
    dense_x += &call("x1", &["y1", "x2"], 0);
    dense_x += &call("x2", &["x1", "y1"], 1);
    dense_x += &call("x3", &["y2", "y3"], 2);
    let mut dense_y = String::from("use super::dense_x::{x1, x2, x3};\n\n");
    dense_y += &call("y1", &["x2", "x1"], 3);
    dense_y += &call("y2", &["y3", "x3"], 4);
    dense_y += &call("y3", &["x3", "y2"], 5);
    write_project(
        dir,
        "cycles",
        &[
            ("lib.cairo", lib.into()),
            ("two.cairo", two.into()),
            ("three.cairo", three.into()),
            ("via_trait.cairo", via_trait.into()),
            ("via_generic.cairo", via_generic.into()),
            ("via_loop.cairo", via_loop.into()),
            ("nested.cairo", nested.into()),
            ("via_closure.cairo", via_closure.into()),
            ("dense.cairo", dense),
            ("dense_x.cairo", dense_x),
            ("dense_y.cairo", dense_y),
            ("plain.cairo", plain.into()),
        ],
    );
}

/// Several `#[executable]` functions (declaration order is not alphabetical), in several modules.
fn write_execs_project(dir: &Path) {
    let lib = "\
mod zeta;\nmod alpha;\nmod helpers;\n
#[executable]\nfn run_c() -> felt252 {\n    helpers::ping(3)\n}\n
#[executable]\nfn run_a(x: felt252) -> felt252 {\n    x + helpers::pong(2)\n}\n
#[executable]\nfn run_b() -> u32 {\n    helpers::sum(4)\n}\n";
    let zeta = "#[executable]\nfn run_z(a: u32, b: u32) -> u32 {\n    a + b + crate::helpers::sum(2)\n}\n\n#[executable]\nfn run_y() -> felt252 {\n    crate::helpers::pong(1)\n}\n";
    let alpha = "#[executable]\nfn run_d() {}\n\n#[executable]\nfn run_e(v: Array<felt252>) -> usize {\n    v.len()\n}\n";
    let helpers = "\
pub fn pong(n: felt252) -> felt252 {\n    if n == 0 {\n        1\n    } else {\n        ping(n - 1) + 2\n    }\n}\n
pub fn ping(n: felt252) -> felt252 {\n    if n == 0 {\n        0\n    } else {\n        pong(n - 1) + 1\n    }\n}\n
pub fn sum(n: u32) -> u32 {\n    if n == 0 {\n        0\n    } else {\n        n + sum(n - 1)\n    }\n}\n";
    write_project(dir, "execs", &[("lib.cairo", lib.into()), ("zeta.cairo", zeta.into()), ("alpha.cairo", alpha.into()), ("helpers.cairo", helpers.into())]);
}

/// Several tests with every kind of test configuration, in several modules.
fn write_tests_project(dir: &Path) {
    let lib = "\
mod more;\nmod shapes;\n
pub fn fact(n: u64) -> u64 {\n    if n == 0 {\n        1\n    } else {\n        n * fact(n - 1)\n    }\n}\n
#[cfg(test)]\nmod tests {\n    use super::fact;\n
    #[test]\n    fn t_zeta() {\n        assert!(fact(3) == 6);\n    }\n
    #[test]\n    #[available_gas(2000000)]\n    fn t_alpha() {\n        assert_eq!(fact(4), 24);\n    }\n
    #[test]\n    #[should_panic(expected: ('boom',))]\n    fn t_mid() {\n        core::panic_with_felt252('boom');\n    }\n
    #[test]\n    #[ignore]\n    fn t_ignored() {}\n}\n";
    let more = "\
pub fn triple(x: u32) -> u32 {\n    x * 3\n}\n
#[cfg(test)]\nmod tests {\n    use super::triple;\n
    #[test]\n    fn t_triple_b() {\n        assert_eq!(triple(2), 6);\n    }\n
    #[test]\n    fn t_triple_a() {\n        assert_ne!(triple(2), 7);\n    }\n
    #[test]\n    #[should_panic]\n    fn t_overflow() {\n        let _ = triple(0xffffffff);\n    }\n}\n";
    let shapes = "\
#[derive(Copy, Drop, PartialEq, Debug)]\npub enum Shape {\n    Dot,\n    Line: u32,\n}\n
pub trait Area<T> {\n    fn area(self: T) -> u32;\n}\n
pub impl ShapeArea of Area<Shape> {\n    fn area(self: Shape) -> u32 {\n        match self {\n            Shape::Dot => 0,\n            Shape::Line(l) => l,\n        }\n    }\n}\n
#[cfg(test)]\nmod tests {\n    use super::{Area, Shape};\n
    #[test]\n    fn t_area() {\n        assert_eq!(Shape::Line(3).area(), 3);\n        assert!(Shape::Dot.area() == 0);\n    }\n}\n";
    write_project(dir, "testsp", &[("lib.cairo", lib.into()), ("more.cairo", more.into()), ("shapes.cairo", shapes.into())]);
}

fn main() {
    let args: Vec<String> = std::env::args().collect();
    if args.len() < 3 {
        eprintln!("usage: h12c <out_dir> <tier>");
        std::process::exit(2);
    }
    let (out, tier) = (&args[1], &args[2]);
    let thorough = tier == "thorough";
    fs::create_dir_all(out).unwrap();
    quiet_panics();
    let mut rng = Rng::from_env();
    let seed0 = rng.next();
    let repo = repo();

    let gen_dir = |n: &str| fs::canonicalize(out).unwrap().join(n);
    let (diag_dir, cycles_dir, execs_dir, tests_dir) = (gen_dir("diag_project"), gen_dir("cycles_project"), gen_dir("execs_project"), gen_dir("tests_project"));
    write_diag_project(&diag_dir);
    write_cycles_project(&cycles_dir);
    write_execs_project(&execs_dir);
    write_tests_project(&tests_dir);

    let mk = |name: &'static str, path: PathBuf, kind: Kind| -> Project {
        let cycles = analyse_cycles(&path, kind);
        eprintln!("[h12c] {name}: {} call cycle(s) with a free member; sizes {:?}", cycles.len(), cycles.iter().map(|c| c.len()).collect::<Vec<_>>());
        Project { name, path, kind, cycles }
    };
    let examples = mk("examples", format!("{repo}/examples").into(), Kind::Plain);
    let diagp = Project { name: "diag_project", path: diag_dir.clone(), kind: Kind::Plain, cycles: vec![] };
    let cycles = mk("cycles_project", cycles_dir.clone(), Kind::Plain);
    let execs = mk("execs_project", execs_dir.clone(), Kind::Executable);
    let testsp = mk("tests_project", tests_dir.clone(), Kind::Tests(false));
    let bug_samples = mk("bug_samples", format!("{repo}/tests/bug_samples").into(), Kind::Tests(true));
    const CONTRACTS: [&str; 4] = [
        "cairo_level_tests::contracts::erc20::erc_20",
        "cairo_level_tests::contracts::mintable::mintable_erc20_ownable",
        "cairo_level_tests::contracts::hello_starknet::hello_starknet",
        "cairo_level_tests::contracts::account::account",
    ];
    let starknet = Project { name: "starknet_contracts", path: format!("{repo}/crates/cairo-lang-starknet/cairo_level_tests").into(), kind: Kind::Starknet(&CONTRACTS), cycles: vec![] };

    // ---- the plan: (project, configurations); the first configuration is the baseline ----
    let baseline = Config { threads: 1, warmup: false, prefix: None, other_first: None, pin: false, cycle_perm: None };
    let other_a: PathBuf = format!("{repo}/examples/hash_chain_gas.cairo").into();
    let other_b: PathBuf = diag_dir.clone();
    // the complete matrix: threads x entry order x history kind, `reps` seeds per cell with a history
    let mut kseed = 0u64;
    let mut matrix = |reps: usize, nq: usize, other: &PathBuf| -> Vec<Config> {
        let mut v = vec![baseline.clone()];
        for &threads in &[1usize, 2, 4, 16] {
            for &warmup in &[false, true] {
                for hist in 0..4 {
                    let n = if hist == 0 { 1 } else { reps };
                    for _ in 0..n {
                        kseed += 1;
                        let s = seed0.wrapping_add(kseed);
                        let (prefix, other_first) = match hist {
                            0 => (None, None),
                            1 => (Some((s, nq, false)), None),
                            2 => (Some((s, nq, true)), None),
                            _ => (Some((s, nq / 2, true)), Some(other.clone())),
                        };
                        if threads == 1 && !warmup && hist == 0 {
                            continue; // the baseline itself
                        }
                        v.push(Config { threads, warmup, prefix, other_first, pin: false, cycle_perm: None });
                    }
                }
            }
        }
        v
    };
    // a seeded selection of `n` cells of the matrix (always with the baseline first)
    let choose = |all: Vec<Config>, n: usize, rng: &mut Rng| -> Vec<Config> {
        let mut rest: Vec<Config> = all[1..].to_vec();
        for i in (1..rest.len()).rev() {
            let j = rng.below(i as u64 + 1) as usize;
            rest.swap(i, j);
        }
        // make sure the extremes are present: a sequential history on one thread (history alone),
        // 16 threads with warm-up and a parallel prefix, 16 threads cold (races alone)
        let rank = |c: &Config| -> u8 {
            if c.threads == 1 && matches!(c.prefix, Some((_, _, false))) && c.other_first.is_none() {
                0
            } else if c.threads == 16 && c.warmup && matches!(c.prefix, Some((_, _, true))) {
                1
            } else if c.threads == 16 && c.prefix.is_none() {
                2
            } else {
                3
            }
        };
        let mut picked: Vec<Config> = vec![];
        for r in 0..3 {
            if let Some(p) = rest.iter().position(|c| rank(c) == r) {
                picked.push(rest.remove(p));
            }
        }
        picked.extend(rest);
        let mut v = vec![all[0].clone()];
        v.extend(picked.into_iter().take(n));
        v
    };
    // configurations with the representatives pinned and the other members of the call cycles
    // queried in a seeded permutation (1 thread: history alone; then pools, where the warm-up races)
    let mut pseed = 1000u64;
    let mut pinned = |n: usize| -> Vec<Config> {
        let mut v = vec![];
        for k in 0..n {
            pseed += 1;
            let threads = if k < (n + 1) / 2 { 1 } else { [2usize, 4, 16][k % 3] };
            v.push(Config { threads, warmup: k % 2 == 1, prefix: None, other_first: None, pin: true, cycle_perm: Some(seed0.wrapping_add(pseed)) });
        }
        // pools without any history: only the schedule of the warm-up varies
        for &threads in &[4usize, 16] {
            v.push(Config { threads, warmup: true, prefix: None, other_first: None, pin: true, cycle_perm: None });
        }
        v
    };
    let with = |mut a: Vec<Config>, b: Vec<Config>| -> Vec<Config> {
        a.extend(b);
        a
    };
    let plan: Vec<(Project, Vec<Config>)> = if thorough {
        vec![
            (examples, matrix(3, 30, &other_b)),
            (cycles, with(matrix(2, 24, &other_a), pinned(60))),
            (execs, with(matrix(3, 16, &other_a), pinned(8))),
            (testsp, matrix(2, 16, &other_a)),
            (diagp, matrix(1, 24, &other_a)),
            (bug_samples, with(choose(matrix(1, 30, &other_a), 20, &mut rng), pinned(6))),
            (starknet, choose(matrix(1, 24, &other_b), 20, &mut rng)),
        ]
    } else {
        vec![
            (examples, choose(matrix(1, 16, &other_b), 5, &mut rng)),
            (cycles, with(choose(matrix(1, 16, &other_a), 5, &mut rng), pinned(14))),
            (execs, with(choose(matrix(1, 10, &other_a), 7, &mut rng), pinned(2))),
            (testsp, choose(matrix(1, 10, &other_a), 5, &mut rng)),
            (diagp, choose(matrix(1, 10, &other_a), 3, &mut rng)),
            (bug_samples, with(choose(matrix(1, 24, &other_a), 3, &mut rng), pinned(1))),
            (starknet, choose(matrix(1, 10, &other_b), 3, &mut rng)),
        ]
    };

    let mut differences: Vec<serde_json::Value> = vec![];
    let mut per_project: Vec<serde_json::Value> = vec![];
    let mut samples: Vec<String> = vec![];
    let (mut compilations, mut distinct_cfg, mut raw_differs, mut artifacts_compared, mut bytes_compared, mut known_hits, mut reruns) = (0usize, 0usize, 0usize, 0usize, 0usize, 0usize, 0usize);
    let mut labels = BTreeSet::new();
    // names of the items that differ between two runs (None: the sets of artifacts differ)
    let differing = |x: &Artifacts, y: &Artifacts| -> Option<Vec<usize>> {
        if x.items.len() != y.items.len() || x.items.iter().zip(y.items.iter()).any(|(a, b)| a.name != b.name) {
            return None;
        }
        Some((0..x.items.len()).filter(|i| x.items[*i].text != y.items[*i].text).collect())
    };
    for (project, configs) in &plan {
        let mut base: Option<(String, Artifacts)> = None;
        let mut base_pinned: Option<(String, Artifacts)> = None;
        let mut times = vec![];
        let mut raw_diff_here = 0;
        let mut known_here = 0;
        let mut sizes = serde_json::Map::new();
        for cfg in configs {
            let art = run_config(project, cfg);
            compilations += 1;
            if labels.insert(cfg.label()) {
                distinct_cfg += 1;
            }
            times.push(format!("{}: {:.1}s", cfg.label(), art.seconds));
            eprintln!("[h12c] {} [{}] {:.1}s", project.name, cfg.label(), art.seconds);
            if base.is_none() {
                for a in &art.items {
                    sizes.insert(a.name.clone(), serde_json::json!({"bytes": a.text.len(), "lines": a.text.lines().count()}));
                    fs::write(format!("{}/{}.{}.baseline.txt", out, project.name, a.name.replace("::", "__")), &a.text).unwrap();
                }
                if samples.len() < 6 {
                    samples.push(format!("compile {} under [{}]: artifacts {:?}", project.name, cfg.label(), art.items.iter().map(|a| format!("{}:{}B", a.name, a.text.len())).collect::<Vec<_>>()));
                }
                base = Some((cfg.label(), art));
                if !project.cycles.is_empty() {
                    ensure_pinned_baseline(project, &baseline, &mut base_pinned, &mut compilations);
                }
                continue;
            }
            if samples.len() < 12 && !art.prefix_log.is_empty() && project.name != "examples" {
                samples.push(format!("compile {} under [{}] after the history {:?}", project.name, cfg.label(), &art.prefix_log[..art.prefix_log.len().min(8)]));
            }
            // the baseline with the representatives pinned: needed by pinned configurations and by
            // the confirmation of the known finding
            if cfg.pin && base_pinned.is_none() {
                continue; // no call cycle to pin in this project
            }
            let (blabel, b) = if cfg.pin { base_pinned.as_ref().unwrap() } else { base.as_ref().unwrap() };
            let (blabel, b) = (blabel.clone(), b);
            if !cfg.pin && art.sierra_raw != b.sierra_raw {
                raw_diff_here += 1;
            }
            let Some(diff_idx) = differing(b, &art) else {
                differences.push(serde_json::json!({"project": project.name, "project_path": project.path.to_string_lossy(), "artifact": "set of artifacts", "config_a": blabel, "config_b": cfg.label(),
                    "first_difference": format!("{:?} vs {:?}", b.items.iter().map(|a| &a.name).collect::<Vec<_>>(), art.items.iter().map(|a| &a.name).collect::<Vec<_>>()), "history_b": art.prefix_log, "seed": seed0}));
                continue;
            };
            artifacts_compared += b.items.len();
            bytes_compared += b.items.iter().map(|a| a.text.len()).sum::<usize>();
            if diff_idx.is_empty() {
                continue;
            }
            // static classification per group of program-derived artifacts (never for pinned runs:
            // with the representative fixed the known finding cannot be the cause)
            let mut verdicts: BTreeMap<&'static str, Result<String, String>> = BTreeMap::new();
            if !cfg.pin {
                for &i in &diff_idx {
                    if let Some(g) = b.items[i].group {
                        verdicts.entry(g).or_insert_with(|| match (b.programs.get(g), art.programs.get(g)) {
                            (Some(pa), Some(pb)) if pa.len() == pb.len() && !pa.is_empty() => {
                                let mut descr = vec![];
                                for (x, y) in pa.iter().zip(pb.iter()) {
                                    if x.to_string() == y.to_string() {
                                        continue;
                                    }
                                    match classify_scc(x, y) {
                                        Ok(d) => descr.push(d),
                                        Err(e) => return Err(e),
                                    }
                                }
                                if descr.is_empty() { Err("the programs of the group are identical".into()) } else { Ok(descr.join(" | ")) }
                            }
                            _ => Err("no programs to classify".into()),
                        });
                    }
                }
            }
            // confirmation: the known finding is the choice of the representative, so it must vanish
            // when the representative is pinned in both runs; a difference that persists is not it
            let mut persists: Option<String> = None;
            if verdicts.values().any(|v| v.is_ok()) {
                match base_pinned.as_ref() {
                    None => persists = Some("no call cycle with a free member is known for this project: the representative cannot be pinned".into()),
                    Some((_, bp)) => {
                        let c = Config { pin: true, ..cfg.clone() };
                        let again = run_config(project, &c);
                        compilations += 1;
                        reruns += 1;
                        eprintln!("[h12c] {} [{}] {:.1}s (confirmation)", project.name, c.label(), again.seconds);
                        match differing(bp, &again) {
                            Some(d) if d.is_empty() => {}
                            Some(d) => {
                                let i = d[0];
                                persists = Some(format!(
                                    "persists with the representative of every call cycle pinned in both runs ({} artifact(s), first {}: {})",
                                    d.len(), bp.items[i].name, first_diff(&bp.items[i].text, &again.items[i].text)));
                                let tag = bp.items[i].name.replace("::", "__");
                                fs::write(format!("{}/{}.{}.pinned-diff-a.txt", out, project.name, tag), &bp.items[i].text).unwrap();
                                fs::write(format!("{}/{}.{}.pinned-diff-b.txt", out, project.name, tag), &again.items[i].text).unwrap();
                            }
                            None => persists = Some("the pinned runs return different sets of artifacts".into()),
                        }
                    }
                }
            }
            for &i in &diff_idx {
                let (xa, xb) = (&b.items[i], &art.items[i]);
                let verdict = xa.group.and_then(|g| verdicts.get(g));
                let known: Option<String> = match (verdict, &persists) {
                    (Some(Ok(d)), None) => Some(format!("{d}; confirmed: no difference when the first free member of every call cycle is interned first in both runs")),
                    _ => None,
                };
                let why_not: Option<String> = if cfg.pin {
                    Some("the representative of every call cycle was pinned in both runs".into())
                } else {
                    match (verdict, &persists) {
                        (Some(Ok(_)), Some(p)) => Some(p.clone()),
                        (Some(Err(e)), _) => Some(e.clone()),
                        _ => None,
                    }
                };
                let tag = xa.name.replace("::", "__");
                let fa = format!("{}/{}.{}.diff-a.txt", out, project.name, tag);
                let fb = format!("{}/{}.{}.diff-b.txt", out, project.name, tag);
                fs::write(&fa, &xa.text).unwrap();
                fs::write(&fb, &xb.text).unwrap();
                if known.is_some() {
                    known_here += 1;
                }
                differences.push(serde_json::json!({
                    "project": project.name, "project_path": project.path.to_string_lossy(), "artifact": xa.name,
                    "config_a": blabel, "config_b": cfg.label(), "first_difference": first_diff(&xa.text, &xb.text),
                    "file_a": fa, "file_b": fb, "history_b": art.prefix_log, "seed": seed0,
                    "known_scc_representative": known,
                    "not_known_because": why_not,
                }));
            }
        }
        raw_differs += raw_diff_here;
        known_hits += known_here;
        per_project.push(serde_json::json!({"project": project.name, "path": project.path.to_string_lossy(), "configurations": configs.len(),
            "call_cycles_with_a_free_member": project.cycles,
            "raw_interned_ids_differ_from_baseline_in": raw_diff_here, "artifact_differences_classified_as_known_finding": known_here,
            "baseline_artifacts": sizes, "times": times}));
    }
    let unexplained = differences.iter().filter(|d| d["known_scc_representative"].is_null()).count();
    let summary = serde_json::json!({
        "compilations": compilations,
        "distinct_configurations": distinct_cfg,
        "projects": per_project,
        "artifact_comparisons": artifacts_compared,
        "bytes_compared": bytes_compared,
        "configurations_whose_raw_sierra_ids_differ_from_baseline": raw_differs,
        "differences": differences.len(),
        "differences_known_finding": known_hits,
        "confirmation_reruns_with_pinned_representatives": reruns,
        "differences_unexplained": unexplained,
        "samples": samples,
    });
    fs::write(format!("{}/summary.json", out), serde_json::to_string_pretty(&summary).unwrap()).unwrap();
    fs::write(format!("{}/differences.json", out), serde_json::to_string_pretty(&differences).unwrap()).unwrap();
    println!("{}", serde_json::to_string(&summary).unwrap());
}
