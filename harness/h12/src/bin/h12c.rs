fn main() {
    let args: Vec<String> = std::env::args().collect();
    std::fs::create_dir_all(&args[1]).unwrap();
    std::fs::write(format!("{}/summary.json", args[1]), "{\"compilations\":0,\"distinct_configurations\":0,\"samples\":[]}").unwrap();
    std::fs::write(format!("{}/differences.json", args[1]), "[]").unwrap();
}
