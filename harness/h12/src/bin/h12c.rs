//! C12 whole-compiler differential exploration (label: explored, not proved).
//!
//! usage: h12c <out_dir> <tier>        (VERIF_SEED from the environment)
//!
//! Each project is compiled once per configuration, every time in a fresh database:
//!   threads  : rayon pool of 1 / 2 / 4 / 16 threads (`ThreadPoolBuilder`, `pool.install`)
//!   warm-up  : `compile_prepared_db_program_artifact` (-> `ensure_diagnostics` +
//!              `warmup_functions_blocking`, parallel when the pool has > 1 thread) versus
//!              `compile_prepared_db_program` (no warm-up at all)
//!   prefix   : none, or a seeded random sequence of unrelated queries asked first on the same
//!              database (syntax / semantic / lowering diagnostics of random modules, Sierra of random
//!              corelib and project functions), sequentially or in parallel on database clones
//! and the artifacts must be byte-identical to those of the baseline configuration:
//!   diagnostics text, Sierra with debug names (`replace_sierra_ids_in_program`), Sierra with
//!   canonical ids (`CanonicalReplacer`, debug names removed), CASM text; for the Starknet project the
//!   contract class JSON and the CASM contract class JSON.
//! The Sierra text with the *raw* interned ids is recorded too: it is allowed to differ (that is
//! the schedule-dependent state the canonical replacer erases) and the number of configurations in
//! which it does is reported.
use std::fmt::Write as _;
use std::fs;
use std::panic::AssertUnwindSafe;
use std::path::{Path, PathBuf};
use std::time::Instant;

use cairo_lang_compiler::db::RootDatabase;
use cairo_lang_compiler::diagnostics::DiagnosticsReporter;
use cairo_lang_compiler::project::setup_project;
use cairo_lang_compiler::{CompilerConfig, compile_prepared_db, compile_prepared_db_program, compile_prepared_db_program_artifact};
use cairo_lang_sierra::debug_info::Annotations;
use cairo_lang_defs::db::DefsGroup;
use cairo_lang_defs::ids::{ModuleId, TopLevelLanguageElementId};
use cairo_lang_filesystem::db::{FilesGroup, init_dev_corelib};
use cairo_lang_filesystem::ids::{CrateInput, FileId};
use cairo_lang_lowering::db::LoweringGroup;
use cairo_lang_lowering::ids::ConcreteFunctionWithBodyId;
use cairo_lang_lowering::optimizations::config::Optimizations;
use cairo_lang_lowering::utils::InliningStrategy;
use cairo_lang_semantic::db::SemanticGroup;
use cairo_lang_sierra::program::{GenStatement, GenericArg, Program};
use cairo_lang_sierra_generator::canonical_id_replacer::CanonicalReplacer;
use cairo_lang_sierra_generator::db::SierraGenGroup;
use cairo_lang_sierra_generator::replace_ids::{SierraIdReplacer, replace_sierra_ids_in_program};
use cairo_lang_sierra_to_casm::compiler::{SierraToCasmConfig, compile};
use cairo_lang_sierra_to_casm::metadata::{MetadataComputationConfig, calc_metadata, calc_metadata_ap_change_only};
use cairo_lang_sierra_type_size::ProgramRegistryInfo;
use cairo_lang_starknet::compile::compile_prepared_db as starknet_compile_prepared_db;
use cairo_lang_starknet::contract::find_contracts;
use cairo_lang_starknet::starknet_plugin_suite;
use cairo_lang_starknet_classes::casm_contract_class::CasmContractClass;
use cairo_lang_utils::CloneableDatabase;
use rayon::iter::{IntoParallelIterator, ParallelIterator};
use salsa::Database;
use vcommon::*;

const CORELIB: &str = "/repo/corelib/src";

#[derive(Clone)]
struct Project {
    name: &'static str,
    path: PathBuf,
    /// Starknet project: the contracts (full paths) compiled together by `compile_prepared_db`
    starknet_contract: Option<&'static [&'static str]>,
}

#[derive(Clone, Debug)]
struct Config {
    threads: usize,
    warmup: bool,
    /// seed of the query prefix, number of queries, run on clones in parallel?
    prefix: Option<(u64, usize, bool)>,
    /// another project set up in the same database and compiled completely before this one
    other_first: Option<PathBuf>,
}
impl Config {
    fn label(&self) -> String {
        format!(
            "threads={} warmup={} prefix={}{}",
            self.threads,
            if self.warmup { "on" } else { "off" },
            match self.prefix {
                None => "none".to_string(),
                Some((s, n, par)) => format!("{}q/seed{}/{}", n, s, if par { "parallel-clones" } else { "sequential" }),
            },
            if self.other_first.is_some() { " other-project-compiled-first" } else { "" }
        )
    }
}

#[derive(Default, Clone)]
struct Artifacts {
    /// (name, text); compared pairwise with the baseline
    compared: Vec<(&'static str, String)>,
    sierra_raw: String,
    prefix_log: Vec<String>,
    seconds: f64,
}

// ---------------------------------------------------------------------------------------------
fn strip_names(p: &Program) -> Program {
    let mut q = p.clone();
    let ga = |gs: &mut Vec<GenericArg>| {
        for g in gs {
            match g {
                GenericArg::Type(t) => t.debug_name = None,
                GenericArg::UserFunc(f) => f.debug_name = None,
                GenericArg::Libfunc(l) => l.debug_name = None,
                _ => {}
            }
        }
    };
    for d in &mut q.type_declarations {
        d.id.debug_name = None;
        ga(&mut d.long_id.generic_args);
    }
    for d in &mut q.libfunc_declarations {
        d.id.debug_name = None;
        ga(&mut d.long_id.generic_args);
    }
    for st in &mut q.statements {
        if let GenStatement::Invocation(i) = st {
            i.libfunc_id.debug_name = None;
        }
    }
    for f in &mut q.funcs {
        f.id.debug_name = None;
        for p in &mut f.params {
            p.ty.debug_name = None;
        }
        for t in &mut f.signature.param_types {
            t.debug_name = None;
        }
        for t in &mut f.signature.ret_types {
            t.debug_name = None;
        }
    }
    q
}

fn casm_text(program: &Program) -> String {
    let info = match ProgramRegistryInfo::new(program) {
        Ok(i) => i,
        Err(e) => return format!("<registry error: {e}>"),
    };
    let (metadata, gas) = match calc_metadata(program, &info, MetadataComputationConfig::default()) {
        Ok(m) => (m, true),
        Err(e1) => match calc_metadata_ap_change_only(program, &info) {
            Ok(m) => (m, false),
            Err(e2) => return format!("<metadata error: {e1} / {e2}>"),
        },
    };
    match compile(program, &info, &metadata, SierraToCasmConfig { gas_usage_check: gas, max_bytecode_size: usize::MAX }) {
        Ok(c) => c.to_string(),
        Err(e) => format!("<sierra-to-casm error: {e}>"),
    }
}

// ---------------------------------------------------------------------------------------------
// the prefix of unrelated queries
// ---------------------------------------------------------------------------------------------
#[derive(Clone, Copy)]
enum Query<'db> {
    Syntax(FileId<'db>),
    Semantic(ModuleId<'db>),
    Lowering(ModuleId<'db>),
    Sierra(ConcreteFunctionWithBodyId<'db>),
}

fn run_query(db: &dyn Database, q: Query<'_>) {
    // results are dropped: only the memoisation / interning side effects on the database matter
    let _ = catch(AssertUnwindSafe(|| match q {
        Query::Syntax(f) => {
            let _ = cairo_lang_parser::db::ParserGroup::file_syntax_diagnostics(db, f);
        }
        Query::Semantic(m) => {
            let _ = db.module_semantic_diagnostics(m);
        }
        Query::Lowering(m) => {
            let _ = db.module_lowering_diagnostics(m);
        }
        Query::Sierra(f) => {
            let _ = db.function_with_body_sierra(f);
        }
    }));
}

fn describe(db: &dyn Database, q: &Query<'_>) -> String {
    match q {
        Query::Syntax(f) => format!("syntax_diagnostics({})", f.full_path(db)),
        Query::Semantic(m) => format!("semantic_diagnostics({})", m.full_path(db)),
        Query::Lowering(m) => format!("lowering_diagnostics({})", m.full_path(db)),
        Query::Sierra(f) => format!("sierra({})", f.full_path(db)),
    }
}

fn run_prefix(db: &dyn CloneableDatabase, seed: u64, n: usize, parallel: bool) -> Vec<String> {
    let mut rng = Rng(seed);
    // candidates: modules of every crate in the database (corelib and the project)
    let mut modules: Vec<ModuleId<'_>> = vec![];
    for c in db.crates() {
        modules.extend(db.crate_modules(*c).iter().copied());
    }
    let mut queries: Vec<Query<'_>> = vec![];
    let mut guard = 0;
    while queries.len() < n && guard < n * 20 && !modules.is_empty() {
        guard += 1;
        let m = *rng.pick(&modules);
        match rng.below(10) {
            0 => {
                if let Ok(files) = db.module_files(m) {
                    if let Some(f) = files.first() {
                        queries.push(Query::Syntax(*f));
                    }
                }
            }
            1 | 2 => queries.push(Query::Semantic(m)),
            3 => queries.push(Query::Lowering(m)),
            _ => {
                let Ok(data) = m.module_data(db) else { continue };
                let fs: Vec<_> = data.free_functions(db).iter().map(|(id, _)| *id).collect();
                if fs.is_empty() {
                    continue;
                }
                let f = *rng.pick(&fs);
                if let Some(c) = ConcreteFunctionWithBodyId::from_no_generics_free(db, f) {
                    queries.push(Query::Sierra(c));
                }
            }
        }
    }
    let log: Vec<String> = queries.iter().map(|q| describe(db, q)).collect();
    if parallel {
        queries.into_par_iter().for_each_with(db.dyn_clone(), |db, q| run_query(db.as_ref(), q));
    } else {
        for q in queries {
            run_query(db, q);
        }
    }
    log
}

// ---------------------------------------------------------------------------------------------
// one compilation
// ---------------------------------------------------------------------------------------------
fn compile_once(project: &Project, cfg: &Config) -> Artifacts {
    let t0 = Instant::now();
    let mut art = Artifacts::default();
    let mut b = RootDatabase::builder();
    b.with_optimizations(Optimizations::enabled_with_default_movable_functions(InliningStrategy::Default));
    if project.starknet_contract.is_some() {
        b.with_default_plugin_suite(starknet_plugin_suite());
    }
    let mut db = b.build().expect("RootDatabase");
    init_dev_corelib(&mut db, PathBuf::from(CORELIB));
    let inputs: Vec<CrateInput> = match setup_project(&mut db, &project.path) {
        Ok(i) => i,
        Err(e) => {
            art.compared.push(("setup", format!("setup_project failed: {e:?}")));
            return art;
        }
    };
    let other_inputs: Option<Vec<CrateInput>> = cfg.other_first.as_ref().and_then(|p| setup_project(&mut db, p).ok());
    let db = &db;
    if let Some(oi) = &other_inputs {
        // history: a different project is compiled to the end (it has diagnostics of its own) first
        let mut other_diag = String::new();
        let ids = CrateInput::into_crate_ids(db, oi.clone());
        let reporter = DiagnosticsReporter::write_to_string(&mut other_diag).with_crates(oi).allow_warnings();
        let config = CompilerConfig { diagnostics_reporter: reporter, replace_ids: true, ..Default::default() };
        let _ = catch(AssertUnwindSafe(|| compile_prepared_db_program(db, ids, config).map(|_| ())));
        art.prefix_log.push(format!("compiled {} first ({} bytes of its diagnostics)", cfg.other_first.as_ref().unwrap().display(), other_diag.len()));
    }
    if let Some((seed, n, par)) = cfg.prefix {
        art.prefix_log.extend(run_prefix(db, seed, n, par));
    }
    let crate_ids = CrateInput::into_crate_ids(db, inputs.clone());
    let mut diag = String::new();
    if let Some(wanted) = project.starknet_contract {
        let classes = {
            let reporter = DiagnosticsReporter::write_to_string(&mut diag).with_crates(&inputs).allow_warnings();
            let config = CompilerConfig {
                diagnostics_reporter: reporter,
                replace_ids: true,
                add_statements_functions: true,
                add_statements_code_locations: true,
                add_functions_debug_info: true,
                add_type_names: true,
            };
            catch(AssertUnwindSafe(|| {
                let all = find_contracts(db, &crate_ids);
                let names: Vec<String> = all.iter().map(|c| c.submodule_id.full_path(db)).collect();
                let chosen: Vec<_> = wanted.iter().filter_map(|w| all.iter().find(|c| c.submodule_id.full_path(db) == *w)).collect();
                if chosen.len() != wanted.len() {
                    return Err(format!("contracts not found; available: {names:?}"));
                }
                // contracts are compiled in parallel on database clones (par_iter in compile_prepared_db)
                starknet_compile_prepared_db(db, &chosen, config).map(|v| (names, v)).map_err(|e| format!("{e}"))
            }))
        };
        art.compared.push(("diagnostics", diag));
        match classes {
            Ok(Ok((names, classes))) => {
                art.compared.push(("contracts_found", names.join("\n")));
                let mut cj = String::new();
                let mut kj = String::new();
                for class in &classes {
                    cj.push_str(&serde_json::to_string_pretty(class).unwrap());
                    cj.push('\n');
                    let casm = catch(AssertUnwindSafe(|| {
                        let extracted = class.extract_sierra_program(false).map_err(|e| format!("{e}"))?;
                        CasmContractClass::from_contract_class(class.clone(), extracted, true, usize::MAX).map_err(|e| format!("{e}"))
                    }));
                    kj.push_str(&match casm {
                        Ok(Ok(c)) => serde_json::to_string_pretty(&c).unwrap(),
                        Ok(Err(e)) => format!("<error: {e}>"),
                        Err(p) => format!("<panic: {p}>"),
                    });
                    kj.push('\n');
                }
                art.compared.push(("contract_class_json", cj));
                art.compared.push(("casm_contract_class_json", kj));
            }
            Ok(Err(e)) => art.compared.push(("compile_error", e)),
            Err(p) => art.compared.push(("compile_panic", p)),
        }
    } else {
        // the program with the raw interned ids, and the statement annotations (functions and source
        // code locations per statement: keyed by statement index, so they must not depend on ids)
        let res = {
            let reporter = DiagnosticsReporter::write_to_string(&mut diag).with_crates(&inputs).allow_warnings();
            let config = CompilerConfig {
                diagnostics_reporter: reporter,
                replace_ids: false,
                add_statements_functions: true,
                add_statements_code_locations: true,
                ..Default::default()
            };
            catch(AssertUnwindSafe(|| {
                if cfg.warmup {
                    compile_prepared_db_program_artifact(db, crate_ids, config).map(|a| {
                        let ann = a.debug_info.as_ref().map(|d| serde_json::to_string_pretty(&d.annotations).unwrap()).unwrap_or_default();
                        (a.program, ann)
                    })
                } else {
                    compile_prepared_db(db, crate_ids, config).map(|pd| {
                        let mut ann = Annotations::default();
                        ann.extend(Annotations::from(pd.debug_info.statements_locations.extract_statements_functions(db)));
                        ann.extend(Annotations::from(pd.debug_info.statements_locations.extract_statements_source_code_locations(db)));
                        (pd.program, serde_json::to_string_pretty(&ann).unwrap())
                    })
                }
            }))
        };
        art.compared.push(("diagnostics", diag));
        match res {
            Ok(Ok((raw, annotations))) => {
                art.compared.push(("statement_annotations_json", annotations));
                art.sierra_raw = strip_names(&raw).to_string();
                let debug = replace_sierra_ids_in_program(db, &raw);
                art.compared.push(("sierra_debug_names", debug.to_string()));
                let canon = CanonicalReplacer::from_program(&raw).apply(&raw);
                art.compared.push(("sierra_canonical_ids", strip_names(&canon).to_string()));
                // canonical ids + debug names, as `replace_ids` users of the canonical form see it
                let canon_debug = CanonicalReplacer::from_program(&debug).apply(&debug);
                art.compared.push(("sierra_canonical_with_names", canon_debug.to_string()));
                art.compared.push(("casm", casm_text(&canon)));
            }
            Ok(Err(e)) => art.compared.push(("compile_error", format!("{e}"))),
            Err(p) => art.compared.push(("compile_panic", p)),
        }
    }
    art.seconds = t0.elapsed().as_secs_f64();
    art
}

fn run_config(project: &Project, cfg: &Config) -> Artifacts {
    let pool = rayon::ThreadPoolBuilder::new().num_threads(cfg.threads).build().expect("rayon pool");
    pool.install(|| compile_once(project, cfg))
}

fn first_diff(a: &str, b: &str) -> String {
    for (i, (x, y)) in a.lines().zip(b.lines()).enumerate() {
        if x != y {
            return format!("line {}: `{}` vs `{}`", i + 1, &x[..x.len().min(200)], &y[..y.len().min(200)]);
        }
    }
    format!("one is a prefix of the other: {} vs {} lines", a.lines().count(), b.lines().count())
}

/// A small crate with diagnostics of every phase in several modules: their order is at stake.
fn write_diag_project(dir: &Path) {
    fs::create_dir_all(dir).unwrap();
    fs::write(dir.join("cairo_project.toml"), "[crate_roots]\ndiagp = \".\"\n\n[config.global]\nedition = \"2024_07\"\n").unwrap();
    let mut lib = String::new();
    for i in 0..6 {
        writeln!(lib, "mod m{i};").unwrap();
        let mut m = String::new();
        writeln!(m, "fn unused_{i}() -> felt252 {{\n    let x = {i};\n    let y = 5;\n    y\n}}").unwrap();
        writeln!(m, "fn mismatch_{i}() -> u8 {{\n    let a: felt252 = {i};\n    a\n}}").unwrap();
        writeln!(m, "fn unknown_{i}() -> felt252 {{\n    undefined_name_{i} + 1\n}}").unwrap();
        writeln!(m, "fn moved_{i}() {{\n    let a: Array<felt252> = array![{i}];\n    consume_{i}(a);\n    consume_{i}(a);\n}}").unwrap();
        writeln!(m, "fn consume_{i}(_a: Array<felt252>) {{}}").unwrap();
        writeln!(m, "fn syntax_{i}() {{\n    let = ;\n}}").unwrap();
        if i % 2 == 0 {
            writeln!(m, "mod inner {{\n    fn deep() -> u16 {{\n        let q: felt252 = 1;\n        q\n    }}\n    pub fn dup() {{}}\n    pub fn dup() {{}}\n}}").unwrap();
        }
        fs::write(dir.join(format!("m{i}.cairo")), m).unwrap();
    }
    fs::write(dir.join("lib.cairo"), lib).unwrap();
}

fn main() {
    let args: Vec<String> = std::env::args().collect();
    if args.len() < 3 {
        eprintln!("usage: h12c <out_dir> <tier>");
        std::process::exit(2);
    }
    let (out, tier) = (&args[1], &args[2]);
    let thorough = tier == "thorough";
    fs::create_dir_all(out).unwrap();
    quiet_panics();
    let mut rng = Rng::from_env();
    let seed0 = rng.next();

    let diag_dir = Path::new(out).join("diag_project");
    write_diag_project(&diag_dir);

    let examples = Project { name: "examples", path: "/repo/examples".into(), starknet_contract: None };
    let diagp = Project { name: "diag_project", path: diag_dir.clone(), starknet_contract: None };
    let hash_chain = Project { name: "hash_chain_gas", path: "/repo/examples/hash_chain_gas.cairo".into(), starknet_contract: None };
    let fib_array = Project { name: "fib_array", path: "/repo/examples/fib_array.cairo".into(), starknet_contract: None };
    let bug_samples = Project { name: "bug_samples", path: "/repo/tests/bug_samples".into(), starknet_contract: None };
    const CONTRACTS: [&str; 4] = [
        "cairo_level_tests::contracts::erc20::erc_20",
        "cairo_level_tests::contracts::mintable::mintable_erc20_ownable",
        "cairo_level_tests::contracts::hello_starknet::hello_starknet",
        "cairo_level_tests::contracts::account::account",
    ];
    let starknet = Project {
        name: "starknet_contracts",
        path: "/repo/crates/cairo-lang-starknet/cairo_level_tests".into(),
        starknet_contract: Some(&CONTRACTS),
    };

    // ---- the plan: (project, configurations); the first configuration is the baseline ----
    let baseline = Config { threads: 1, warmup: false, prefix: None, other_first: None };
    let other_a: PathBuf = "/repo/examples/hash_chain_gas.cairo".into();
    let other_b: PathBuf = diag_dir.clone();
    // the complete matrix: threads x warm-up x history kind, `reps` seeds per cell with a history
    let mut kseed = 0u64;
    let mut matrix = |reps: usize, nq: usize, other: &PathBuf| -> Vec<Config> {
        let mut v = vec![baseline.clone()];
        for &threads in &[1usize, 2, 4, 16] {
            for &warmup in &[false, true] {
                for hist in 0..4 {
                    let n = if hist == 0 { 1 } else { reps };
                    for _ in 0..n {
                        kseed += 1;
                        let s = seed0.wrapping_add(kseed);
                        let (prefix, other_first) = match hist {
                            0 => (None, None),
                            1 => (Some((s, nq, false)), None),
                            2 => (Some((s, nq, true)), None),
                            _ => (Some((s, nq / 2, true)), Some(other.clone())),
                        };
                        if threads == 1 && !warmup && hist == 0 {
                            continue; // the baseline itself
                        }
                        v.push(Config { threads, warmup, prefix, other_first });
                    }
                }
            }
        }
        v
    };
    // a seeded selection of `n` cells of the matrix (always with the baseline first)
    let choose = |all: Vec<Config>, n: usize, rng: &mut Rng| -> Vec<Config> {
        let mut rest: Vec<Config> = all[1..].to_vec();
        for i in (1..rest.len()).rev() {
            let j = rng.below(i as u64 + 1) as usize;
            rest.swap(i, j);
        }
        // make sure the extremes are present: 16 threads with warm-up and a parallel prefix
        rest.sort_by_key(|c| !(c.threads == 16 && c.warmup && matches!(c.prefix, Some((_, _, true)))));
        let mut v = vec![all[0].clone()];
        v.extend(rest.into_iter().take(n));
        v
    };
    let plan: Vec<(Project, Vec<Config>)> = if thorough {
        vec![
            (examples, matrix(4, 30, &other_b)),
            (diagp, matrix(2, 24, &other_a)),
            (bug_samples, matrix(1, 24, &other_a)),
            (hash_chain, choose(matrix(1, 40, &other_b), 20, &mut rng)),
            (fib_array, choose(matrix(1, 40, &other_b), 20, &mut rng)),
            (starknet, choose(matrix(1, 24, &other_b), 28, &mut rng)),
        ]
    } else {
        vec![
            (examples, choose(matrix(1, 12, &other_b), 7, &mut rng)),
            (diagp, choose(matrix(1, 10, &other_a), 4, &mut rng)),
            (starknet, choose(matrix(1, 10, &other_b), 3, &mut rng)),
        ]
    };

    let mut differences: Vec<serde_json::Value> = vec![];
    let mut per_project: Vec<serde_json::Value> = vec![];
    let mut samples: Vec<String> = vec![];
    let (mut compilations, mut distinct_cfg, mut raw_differs, mut artifacts_compared, mut bytes_compared) = (0usize, 0usize, 0usize, 0usize, 0usize);
    let mut labels = std::collections::BTreeSet::new();
    for (project, configs) in &plan {
        let mut base: Option<(String, Artifacts)> = None;
        let mut times = vec![];
        let mut raw_diff_here = 0;
        let mut sizes = serde_json::Map::new();
        for cfg in configs {
            let art = run_config(project, cfg);
            compilations += 1;
            if labels.insert(cfg.label()) {
                distinct_cfg += 1;
            }
            times.push(format!("{}: {:.1}s", cfg.label(), art.seconds));
            eprintln!("[h12c] {} [{}] {:.1}s", project.name, cfg.label(), art.seconds);
            match &base {
                None => {
                    for (name, text) in &art.compared {
                        sizes.insert(name.to_string(), serde_json::json!({"bytes": text.len(), "lines": text.lines().count()}));
                        fs::write(format!("{}/{}.{}.baseline.txt", out, project.name, name), text).unwrap();
                    }
                    if samples.len() < 4 {
                        let d = art.compared.iter().find(|(n, _)| *n == "diagnostics").map(|(_, t)| t.lines().take(2).collect::<Vec<_>>().join(" | ")).unwrap_or_default();
                        samples.push(format!(
                            "compile {} under [{}]: artifacts {:?}; diagnostics start: {}",
                            project.name,
                            cfg.label(),
                            art.compared.iter().map(|(n, t)| format!("{}:{}B", n, t.len())).collect::<Vec<_>>(),
                            &d[..d.len().min(160)]
                        ));
                    }
                    base = Some((cfg.label(), art));
                }
                Some((blabel, b)) => {
                    if samples.len() < 4 && !art.prefix_log.is_empty() {
                        samples.push(format!("compile {} under [{}] after the query prefix {:?}", project.name, cfg.label(), &art.prefix_log[..art.prefix_log.len().min(6)]));
                    }
                    if art.sierra_raw != b.sierra_raw {
                        raw_diff_here += 1;
                    }
                    let names_a: Vec<_> = b.compared.iter().map(|(n, _)| *n).collect();
                    let names_b: Vec<_> = art.compared.iter().map(|(n, _)| *n).collect();
                    if names_a != names_b {
                        differences.push(serde_json::json!({"project": project.name, "artifact": "set of artifacts", "config_a": blabel, "config_b": cfg.label(),
                            "first_difference": format!("{:?} vs {:?}", names_a, names_b), "prefix_b": art.prefix_log}));
                        continue;
                    }
                    for ((name, ta), (_, tb)) in b.compared.iter().zip(art.compared.iter()) {
                        artifacts_compared += 1;
                        bytes_compared += ta.len();
                        if ta != tb {
                            let fa = format!("{}/{}.{}.diff-a.txt", out, project.name, name);
                            let fb = format!("{}/{}.{}.diff-b.txt", out, project.name, name);
                            fs::write(&fa, ta).unwrap();
                            fs::write(&fb, tb).unwrap();
                            differences.push(serde_json::json!({"project": project.name, "project_path": project.path.to_string_lossy(), "artifact": name,
                                "config_a": blabel, "config_b": cfg.label(), "first_difference": first_diff(ta, tb),
                                "file_a": fa, "file_b": fb, "prefix_b": art.prefix_log, "seed": seed0}));
                        }
                    }
                }
            }
        }
        raw_differs += raw_diff_here;
        per_project.push(serde_json::json!({"project": project.name, "path": project.path.to_string_lossy(), "configurations": configs.len(),
            "raw_interned_ids_differ_from_baseline_in": raw_diff_here, "baseline_artifacts": sizes, "times": times}));
    }
    let summary = serde_json::json!({
        "compilations": compilations,
        "distinct_configurations": distinct_cfg,
        "projects": per_project,
        "artifact_comparisons": artifacts_compared,
        "bytes_compared": bytes_compared,
        "configurations_whose_raw_sierra_ids_differ_from_baseline": raw_differs,
        "differences": differences.len(),
        "samples": samples,
    });
    fs::write(format!("{}/summary.json", out), serde_json::to_string_pretty(&summary).unwrap()).unwrap();
    fs::write(format!("{}/differences.json", out), serde_json::to_string_pretty(&differences).unwrap()).unwrap();
    println!("{}", serde_json::to_string(&summary).unwrap());
}
