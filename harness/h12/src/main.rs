//! C12 kernel harness.
//!
//! usage: h12 <corpus_dir with *.sierra> <out_dir> <tier>      (VERIF_SEED from the environment)
//!
//! leg canon: `CanonicalReplacer::from_program(p).apply(p)` (the implementation of
//!   canonical_id_replacer.rs + replace_ids.rs::SierraIdReplacer::apply) on every corpus program, on
//!   seeded declaration-list mutants of it, and on the same programs after seeded injective
//!   renamings of all interned ids.  Programs are printed as abstract id structures together with the
//!   implementation's canonical result for `C12/Corr.v::check_canon`.
//!   Impl-level oracle (independent of the Coq model): canon(rename s p) == canon(p) byte for byte,
//!   canon idempotent, declared ids of the canonical program are 0..n-1.
//! leg omap / oset: seeded operation sequences on the real `OrderedHashMap` / `OrderedHashSet`
//!   (insert, overwrite, entry().or_insert, swap_remove, shift_remove, pop, clear; iteration after
//!   every operation) for `check_omap`; oracle: a reference vector implementation.
//! leg umap: seeded insert/remove sequences on the real `UnorderedHashMap` and every observer it
//!   exposes, for `check_umap`; oracle: a BTreeMap reference and a second map built from a permuted
//!   sequence.
use std::collections::{BTreeMap, HashMap};
use std::fmt::Write as _;
use std::fs;
use std::panic::AssertUnwindSafe;

use cairo_lang_sierra::ProgramParser;
use cairo_lang_sierra::ids::{ConcreteLibfuncId, ConcreteTypeId, FunctionId};
use cairo_lang_sierra::program::{
    GenBranchTarget, GenStatement, GenericArg, Program,
};
use cairo_lang_sierra_generator::canonical_id_replacer::CanonicalReplacer;
use cairo_lang_sierra_generator::replace_ids::SierraIdReplacer;
use cairo_lang_utils::ordered_hash_map::OrderedHashMap;
use cairo_lang_utils::ordered_hash_set::OrderedHashSet;
use cairo_lang_utils::unordered_hash_map::UnorderedHashMap;
use num_bigint::BigInt;
use vcommon::*;

// ---------------------------------------------------------------------------------------------
// printing a program as the Coq term of C12/Canon.v
// ---------------------------------------------------------------------------------------------
fn hex(v: u64) -> String {
    if v < 1000 { format!("{}", v) } else { format!("0x{:x}", v) }
}
fn hexz(v: &BigInt) -> String {
    use num_bigint::Sign;
    let (s, m) = (v.sign(), v.magnitude());
    let body = if m.bits() <= 9 { format!("{}", m) } else { format!("0x{:x}", m) };
    if s == Sign::Minus { format!("(-{})", body) } else { body }
}

struct Printer {
    generic: HashMap<String, u64>,
    /// big literals of the current case, bound once by `let a<k> := 0x.. in` (Coq parses a 64-bit
    /// literal slowly; each is written once per case)
    syms: HashMap<String, usize>,
    sym_list: Vec<String>,
    /// plain: literals are written out (used for the byte-level comparisons of the oracle)
    plain: bool,
    case_id: usize,
}
impl Printer {
    fn new(plain: bool) -> Self {
        Printer { generic: HashMap::new(), syms: HashMap::new(), sym_list: vec![], plain, case_id: 0 }
    }
    /// A u64 as a Coq N: small ones literally, big ones through the case's symbol table.
    fn num(&mut self, v: u64) -> String {
        if v < 1000 { format!("{}", v) } else { self.sym(format!("0x{:x}", v)) }
    }
    fn sym(&mut self, lit: String) -> String {
        if self.plain {
            return lit;
        }
        let n = self.sym_list.len();
        let k = *self.syms.entry(lit.clone()).or_insert_with(|| n);
        if k == n {
            self.sym_list.push(lit);
        }
        format!("a{}_{}", self.case_id, k)
    }
    /// Ends a case: returns the definitions of its big literals (to be emitted before the case)
    /// and resets the table.
    fn close_case(&mut self) -> String {
        let mut s = String::with_capacity(self.sym_list.len() * 40);
        for (k, lit) in self.sym_list.iter().enumerate() {
            s.push_str(&format!("Definition a{}_{} := {}.\n", self.case_id, k, lit));
        }
        self.syms.clear();
        self.sym_list.clear();
        self.case_id += 1;
        s
    }
    fn gen_id(&mut self, s: &str) -> u64 {
        let n = self.generic.len() as u64;
        *self.generic.entry(s.to_string()).or_insert(n)
    }
    fn garg(&mut self, g: &GenericArg) -> String {
        match g {
            GenericArg::UserType(u) => format!("GUserType {}", self.sym(format!("0x{:x}", u.id))),
            GenericArg::Type(t) => format!("GType {}", self.num(t.id)),
            GenericArg::Value(v) => format!("GValue {}", hexz(v)),
            GenericArg::UserFunc(f) => format!("GUserFunc {}", self.num(f.id)),
            GenericArg::Libfunc(l) => format!("GLibfunc {}", self.num(l.id)),
        }
    }
    fn nlist(&mut self, xs: impl Iterator<Item = u64>) -> String {
        let v: Vec<String> = xs.map(|x| self.num(x)).collect();
        format!("[{}]", v.join(";"))
    }
    fn program(&mut self, p: &Program) -> String {
        let mut s = String::with_capacity(p.statements.len() * 40 + 1024);
        s.push_str("(Build_program\n [");
        for (i, d) in p.type_declarations.iter().enumerate() {
            if i > 0 {
                s.push_str(";\n  ");
            }
            let args: Vec<String> = d.long_id.generic_args.iter().map(|g| self.garg(g)).collect();
            let info = match &d.declared_type_info {
                None => "None".to_string(),
                Some(i) => format!(
                    "(Some ({},{},{},{}))",
                    coq_bool(i.storable),
                    coq_bool(i.droppable),
                    coq_bool(i.duplicatable),
                    coq_bool(i.zero_sized)
                ),
            };
            let g = self.gen_id(&d.long_id.generic_id.0);
            let id = self.num(d.id.id);
            write!(s, "Build_type_decl {} {} [{}] {}", id, g, args.join(";"), info).unwrap();
        }
        s.push_str("]\n [");
        for (i, d) in p.libfunc_declarations.iter().enumerate() {
            if i > 0 {
                s.push_str(";\n  ");
            }
            let args: Vec<String> = d.long_id.generic_args.iter().map(|g| self.garg(g)).collect();
            let g = self.gen_id(&d.long_id.generic_id.0);
            let id = self.num(d.id.id);
            write!(s, "Build_libfunc_decl {} {} [{}]", id, g, args.join(";")).unwrap();
        }
        s.push_str("]\n [");
        for (i, st) in p.statements.iter().enumerate() {
            if i > 0 {
                s.push_str(";\n  ");
            }
            match st {
                GenStatement::Invocation(inv) => {
                    let mut br: Vec<String> = vec![];
                    for b in &inv.branches {
                        let t = match &b.target {
                            GenBranchTarget::Fallthrough => "Fallthrough".to_string(),
                            GenBranchTarget::Statement(i) => format!("Statement {}", i.0),
                        };
                        let r = self.nlist(b.results.iter().map(|v| v.id));
                        br.push(format!("({},{})", t, r));
                    }
                    let lf = self.num(inv.libfunc_id.id);
                    let args = self.nlist(inv.args.iter().map(|v| v.id));
                    write!(s, "Invocation {} {} [{}]", lf, args, br.join(";")).unwrap();
                }
                GenStatement::Return(vs) => {
                    let v = self.nlist(vs.iter().map(|v| v.id));
                    write!(s, "Return {}", v).unwrap();
                }
            }
        }
        s.push_str("]\n [");
        for (i, f) in p.funcs.iter().enumerate() {
            if i > 0 {
                s.push_str(";\n  ");
            }
            let mut params: Vec<String> = vec![];
            for p in &f.params {
                let (a, b) = (self.num(p.id.id), self.num(p.ty.id));
                params.push(format!("({},{})", a, b));
            }
            let id = self.num(f.id.id);
            let pt = self.nlist(f.signature.param_types.iter().map(|t| t.id));
            let rt = self.nlist(f.signature.ret_types.iter().map(|t| t.id));
            write!(s, "Build_func {} {} {} [{}] {}", id, pt, rt, params.join(";"), f.entry_point.0).unwrap();
        }
        s.push_str("])");
        s
    }
}

// ---------------------------------------------------------------------------------------------
// renaming of the interned ids (harness side; the model's `rename` is compared with it in Coq)
// ---------------------------------------------------------------------------------------------
#[derive(Default, Clone)]
struct Sigma {
    t: BTreeMap<u64, u64>,
    l: BTreeMap<u64, u64>,
    f: BTreeMap<u64, u64>,
}
impl Sigma {
    fn ty(&self, id: &ConcreteTypeId) -> ConcreteTypeId {
        ConcreteTypeId { id: self.t[&id.id], debug_name: id.debug_name.clone() }
    }
    fn lf(&self, id: &ConcreteLibfuncId) -> ConcreteLibfuncId {
        ConcreteLibfuncId { id: self.l[&id.id], debug_name: id.debug_name.clone() }
    }
    fn fun(&self, id: &FunctionId) -> FunctionId {
        FunctionId { id: self.f[&id.id], debug_name: id.debug_name.clone() }
    }
    fn gargs(&self, gs: &mut [GenericArg]) {
        for g in gs {
            match g {
                GenericArg::Type(t) => *t = self.ty(t),
                GenericArg::UserFunc(f) => *f = self.fun(f),
                GenericArg::Libfunc(l) => *l = self.lf(l),
                GenericArg::UserType(_) | GenericArg::Value(_) => {}
            }
        }
    }
    fn tables(&self, pr: &mut Printer) -> String {
        let mut one = |m: &BTreeMap<u64, u64>| {
            let v: Vec<String> = m.iter().map(|(a, b)| format!("({},{})", pr.num(*a), pr.num(*b))).collect();
            format!("[{}]", v.join(";"))
        };
        let (a, b, c) = (one(&self.t), one(&self.l), one(&self.f));
        format!("({}, {}, {})", a, b, c)
    }
    fn tables_plain(&self) -> String {
        let one = |m: &BTreeMap<u64, u64>| {
            format!("[{}]", m.iter().map(|(a, b)| format!("({},{})", hex(*a), hex(*b))).collect::<Vec<_>>().join(";"))
        };
        format!("({}, {}, {})", one(&self.t), one(&self.l), one(&self.f))
    }
}

/// All interned ids occurring anywhere in the program, per namespace.
fn collect_ids(p: &Program) -> (Vec<u64>, Vec<u64>, Vec<u64>) {
    let (mut t, mut l, mut f) = (vec![], vec![], vec![]);
    let ga = |gs: &[GenericArg], t: &mut Vec<u64>, l: &mut Vec<u64>, f: &mut Vec<u64>| {
        for g in gs {
            match g {
                GenericArg::Type(x) => t.push(x.id),
                GenericArg::UserFunc(x) => f.push(x.id),
                GenericArg::Libfunc(x) => l.push(x.id),
                _ => {}
            }
        }
    };
    for d in &p.type_declarations {
        t.push(d.id.id);
        ga(&d.long_id.generic_args, &mut t, &mut l, &mut f);
    }
    for d in &p.libfunc_declarations {
        l.push(d.id.id);
        ga(&d.long_id.generic_args, &mut t, &mut l, &mut f);
    }
    for s in &p.statements {
        if let GenStatement::Invocation(i) = s {
            l.push(i.libfunc_id.id);
        }
    }
    for fun in &p.funcs {
        f.push(fun.id.id);
        t.extend(fun.params.iter().map(|p| p.ty.id));
        t.extend(fun.signature.param_types.iter().map(|x| x.id));
        t.extend(fun.signature.ret_types.iter().map(|x| x.id));
    }
    for v in [&mut t, &mut l, &mut f] {
        v.sort();
        v.dedup();
    }
    (t, l, f)
}

/// kind 0: every id -> a fresh random u64 (distinct); kind 1: a random permutation of the ids in use
/// (renamed ids collide with old ones); kind 2: dense small numbers in random order (what an intern
/// table hands out under another schedule).
fn make_sigma(p: &Program, rng: &mut Rng, kind: u64) -> Sigma {
    let (t, l, f) = collect_ids(p);
    let mut mk = |ids: &Vec<u64>| -> BTreeMap<u64, u64> {
        let mut targets: Vec<u64> = match kind {
            0 => {
                let mut seen = std::collections::BTreeSet::new();
                while seen.len() < ids.len() {
                    seen.insert(rng.next());
                }
                seen.into_iter().collect()
            }
            1 => ids.clone(),
            _ => {
                let base = rng.below(1000);
                (0..ids.len() as u64).map(|i| base + i).collect()
            }
        };
        // Fisher-Yates
        for i in (1..targets.len()).rev() {
            let j = rng.below(i as u64 + 1) as usize;
            targets.swap(i, j);
        }
        ids.iter().cloned().zip(targets).collect()
    };
    Sigma { t: mk(&t), l: mk(&l), f: mk(&f) }
}

fn rename(s: &Sigma, p: &Program) -> Program {
    let mut q = p.clone();
    for d in &mut q.type_declarations {
        d.id = s.ty(&d.id);
        s.gargs(&mut d.long_id.generic_args);
    }
    for d in &mut q.libfunc_declarations {
        d.id = s.lf(&d.id);
        s.gargs(&mut d.long_id.generic_args);
    }
    for st in &mut q.statements {
        if let GenStatement::Invocation(i) = st {
            i.libfunc_id = s.lf(&i.libfunc_id);
        }
    }
    for f in &mut q.funcs {
        f.id = s.fun(&f.id);
        for p in &mut f.params {
            p.ty = s.ty(&p.ty);
        }
        for t in &mut f.signature.param_types {
            *t = s.ty(t);
        }
        for t in &mut f.signature.ret_types {
            *t = s.ty(t);
        }
    }
    q
}

// ---------------------------------------------------------------------------------------------
// the implementation under test
// ---------------------------------------------------------------------------------------------
#[derive(Clone)]
enum Canon {
    Ok(Program),
    Panic(String),
}
fn canon_impl(p: &Program) -> Canon {
    match catch(AssertUnwindSafe(|| CanonicalReplacer::from_program(p).apply(p))) {
        Ok(c) => Canon::Ok(c),
        Err(msg) => Canon::Panic(msg),
    }
}
fn panic_ns(msg: &str) -> Option<&'static str> {
    if msg.contains("Unexpected libfunc id") {
        Some("NsLibfunc")
    } else if msg.contains("Unexpected type id") {
        Some("NsType")
    } else if msg.contains("Unexpected function id") {
        Some("NsFunc")
    } else {
        None
    }
}

/// Numeric text of a program: `Display` with the debug names removed (ids print as `[n]`).
fn strip_names(p: &Program) -> Program {
    let mut q = p.clone();
    let ga = |gs: &mut Vec<GenericArg>| {
        for g in gs {
            match g {
                GenericArg::Type(t) => t.debug_name = None,
                GenericArg::UserFunc(f) => f.debug_name = None,
                GenericArg::Libfunc(l) => l.debug_name = None,
                _ => {}
            }
        }
    };
    for d in &mut q.type_declarations {
        d.id.debug_name = None;
        ga(&mut d.long_id.generic_args);
    }
    for d in &mut q.libfunc_declarations {
        d.id.debug_name = None;
        ga(&mut d.long_id.generic_args);
    }
    for st in &mut q.statements {
        if let GenStatement::Invocation(i) = st {
            i.libfunc_id.debug_name = None;
        }
    }
    for f in &mut q.funcs {
        f.id.debug_name = None;
        for p in &mut f.params {
            p.ty.debug_name = None;
        }
        for t in &mut f.signature.param_types {
            t.debug_name = None;
        }
        for t in &mut f.signature.ret_types {
            t.debug_name = None;
        }
    }
    q
}
fn text(p: &Program) -> String {
    catch(AssertUnwindSafe(|| p.to_string())).unwrap_or_else(|e| format!("<Display panicked: {e}>"))
}
fn first_diff(a: &str, b: &str) -> String {
    for (i, (x, y)) in a.lines().zip(b.lines()).enumerate() {
        if x != y {
            return format!("line {}: `{}` vs `{}`", i + 1, x, y);
        }
    }
    format!("lengths {} vs {} lines", a.lines().count(), b.lines().count())
}

fn well_formed(p: &Program) -> bool {
    let distinct = |mut v: Vec<u64>| {
        let n = v.len();
        v.sort();
        v.dedup();
        v.len() == n
    };
    let dt: Vec<u64> = p.type_declarations.iter().map(|d| d.id.id).collect();
    let dl: Vec<u64> = p.libfunc_declarations.iter().map(|d| d.id.id).collect();
    let df: Vec<u64> = p.funcs.iter().map(|d| d.id.id).collect();
    let (t, l, f) = collect_ids(p);
    distinct(dt.clone())
        && distinct(dl.clone())
        && distinct(df.clone())
        && t.iter().all(|x| dt.contains(x))
        && l.iter().all(|x| dl.contains(x))
        && f.iter().all(|x| df.contains(x))
}

// ---------------------------------------------------------------------------------------------
// declaration-list mutants (exercise overwrite / missing-id behaviour of the replacer as written)
// ---------------------------------------------------------------------------------------------
fn mutate(p: &Program, rng: &mut Rng) -> (Program, &'static str) {
    let mut q = p.clone();
    let which = rng.below(3);
    macro_rules! on_list {
        ($list:expr, $kind:expr) => {{
            let n = $list.len();
            if n >= 2 {
                match $kind {
                    0 => {
                        // duplicate a declaration at a later position
                        let i = rng.below(n as u64) as usize;
                        let j = i + 1 + rng.below((n - i) as u64) as usize;
                        let d = $list[i].clone();
                        $list.insert(j, d);
                        "dup"
                    }
                    1 => {
                        let i = rng.below(n as u64) as usize;
                        $list.remove(i);
                        "drop"
                    }
                    2 => {
                        let i = rng.below(n as u64) as usize;
                        let j = rng.below(n as u64) as usize;
                        $list.swap(i, j);
                        "swap"
                    }
                    _ => {
                        $list.reverse();
                        "reverse"
                    }
                }
            } else {
                "none"
            }
        }};
    }
    let kind = rng.below(4);
    let name = match which {
        0 => on_list!(q.type_declarations, kind),
        1 => on_list!(q.libfunc_declarations, kind),
        _ => on_list!(q.funcs, kind),
    };
    (q, name)
}

// ---------------------------------------------------------------------------------------------
// shard writer
// ---------------------------------------------------------------------------------------------
struct Shards {
    dir: String,
    leg: &'static str,
    check: &'static str,
    ty: &'static str,
    cur: Vec<String>,
    prelude: Vec<String>,
    cur_bytes: usize,
    max_bytes: usize,
    max_cases: usize,
    n_shards: usize,
    names: Vec<String>,
}
impl Shards {
    fn new(dir: &str, leg: &'static str, check: &'static str, ty: &'static str, max_bytes: usize, max_cases: usize) -> Self {
        Shards { dir: dir.into(), leg, check, ty, cur: vec![], prelude: vec![], cur_bytes: 0, max_bytes, max_cases, n_shards: 0, names: vec![] }
    }
    fn push(&mut self, case: String, name: String) {
        self.push_with_prelude(String::new(), case, name)
    }
    fn push_with_prelude(&mut self, prelude: String, case: String, name: String) {
        if !self.cur.is_empty() && (self.cur_bytes + case.len() > self.max_bytes || self.cur.len() >= self.max_cases) {
            self.flush();
        }
        self.cur_bytes += case.len() + prelude.len();
        self.cur.push(case);
        self.prelude.push(prelude);
        self.names.push(name);
    }
    fn flush(&mut self) {
        if self.cur.is_empty() {
            return;
        }
        let mut s = String::with_capacity(self.cur_bytes + 4096);
        s.push_str("From C12 Require Import Canon Maps Corr.\nLocal Open Scope N_scope.\n");
        for (i, c) in self.cur.iter().enumerate() {
            s.push_str(&self.prelude[i]);
            writeln!(s, "Definition c{} : {} :=\n {}.", i, self.ty, c).unwrap();
        }
        let names: Vec<String> = (0..self.cur.len()).map(|i| format!("c{}", i)).collect();
        writeln!(s, "Definition cases : list {} := [{}].", self.ty, names.join("; ")).unwrap();
        writeln!(s, "Definition bad := Eval vm_compute in {} cases.\nPrint bad.", self.check).unwrap();
        let base = format!("{}/{}_{:03}", self.dir, self.leg, self.n_shards);
        fs::write(format!("{}.v", base), s).unwrap();
        fs::write(format!("{}.names", base), self.names.join("\n")).unwrap();
        self.n_shards += 1;
        self.cur.clear();
        self.prelude.clear();
        self.names.clear();
        self.cur_bytes = 0;
    }
}

// ---------------------------------------------------------------------------------------------
// leg canon
// ---------------------------------------------------------------------------------------------
#[derive(Default)]
struct CanonStats {
    programs: usize,
    parse_failed: usize,
    cases: usize,
    mutants: usize,
    mutant_kinds: BTreeMap<String, usize>,
    well_formed: usize,
    ill_formed: usize,
    panics: BTreeMap<String, usize>,
    renamings: usize,
    renamed_printed: usize,
    statements: usize,
    distinct_programs: usize,
    skipped_large: usize,
}

fn coq_result(pr: &mut Printer, c: &Canon) -> Result<String, String> {
    match c {
        Canon::Ok(p) => Ok(format!("(Ok {})", pr.program(p))),
        Canon::Panic(m) => match panic_ns(m) {
            Some(ns) => Ok(format!("(Panic {})", ns)),
            None => Err(m.clone()),
        },
    }
}

fn canon_leg(corpus: &str, out: &str, thorough: bool, rng: &mut Rng, oracle: &mut Vec<serde_json::Value>, samples: &mut Vec<String>) -> CanonStats {
    let mut st = CanonStats::default();
    let mut files: Vec<_> = fs::read_dir(corpus).unwrap().filter_map(|e| e.ok()).map(|e| e.path()).filter(|p| p.extension().map(|x| x == "sierra").unwrap_or(false)).collect();
    files.sort();
    let mut shards = Shards::new(out, "canon", "check_canon", "canon_case", 350_000, 100);
    let mut pr = Printer::new(false);
    let mut dump = Printer::new(true);
    let mut seen = std::collections::BTreeSet::new();
    // quick tier: every program up to 2500 statements and a seeded choice of 4 larger ones
    let quick_limit = 2500usize;
    let mut large_budget = 4;
    for path in files {
        let name = path.file_stem().unwrap().to_string_lossy().to_string();
        let src = fs::read_to_string(&path).unwrap();
        let Ok(p0) = ProgramParser::new().parse(&src) else {
            st.parse_failed += 1;
            continue;
        };
        st.programs += 1;
        if !thorough && p0.statements.len() > quick_limit {
            if large_budget == 0 || rng.below(3) != 0 {
                st.skipped_large += 1;
                continue;
            }
            large_budget -= 1;
        }
        // the program itself and one or two seeded mutants of its declaration lists
        let mut variants: Vec<(Program, String)> = vec![(p0.clone(), "orig".into())];
        let n_mut = if thorough { 3 } else if p0.statements.len() <= 300 { 2 } else { 1 };
        for _ in 0..n_mut {
            let (m, kind) = mutate(&p0, rng);
            if kind != "none" {
                variants.push((m, kind.to_string()));
            }
        }
        for (p, kind) in variants {
            let wf = well_formed(&p);
            let e = canon_impl(&p);
            let case_name = format!("{}:{}", name, kind);
            if kind != "orig" {
                st.mutants += 1;
                *st.mutant_kinds.entry(kind.clone()).or_default() += 1;
            }
            if wf {
                st.well_formed += 1
            } else {
                st.ill_formed += 1
            }
            st.statements += p.statements.len();
            let e_dump = match &e {
                Canon::Ok(c) => dump.program(c),
                Canon::Panic(m) => format!("panic: {m}"),
            };
            if let Canon::Panic(m) = &e {
                *st.panics.entry(m.clone()).or_default() += 1;
                if wf {
                    oracle.push(serde_json::json!({"leg": "canon", "case": case_name, "why": format!("canonical replacer panicked on a well-formed program: {m}")}));
                }
            }
            if seen.insert(e_dump.clone()) {
                st.distinct_programs += 1;
            }
            // ---- impl-level oracle ----
            let mut sigmas = vec![];
            for kind_s in 0..3u64 {
                let s = make_sigma(&p, rng, kind_s);
                let q = rename(&s, &p);
                let eq = canon_impl(&q);
                st.renamings += 1;
                let ok = match (&e, &eq) {
                    (Canon::Ok(a), Canon::Ok(b)) => {
                        let (da, db) = (dump.program(a), dump.program(b));
                        let (ta, tb) = (text(&strip_names(a)), text(&strip_names(b)));
                        let (na, nb) = (text(a), text(b));
                        if da != db {
                            Some(format!("canonical programs differ (structure): {}", first_diff(&da, &db)))
                        } else if ta != tb {
                            Some(format!("canonical programs differ (numeric text): {}", first_diff(&ta, &tb)))
                        } else if na != nb {
                            Some(format!("canonical programs differ (text with debug names): {}", first_diff(&na, &nb)))
                        } else {
                            None
                        }
                    }
                    (Canon::Panic(a), Canon::Panic(b)) => {
                        if a == b { None } else { Some(format!("different panics: `{a}` vs `{b}`")) }
                    }
                    (Canon::Ok(_), Canon::Panic(m)) => Some(format!("renamed program panics ({m}), original does not")),
                    (Canon::Panic(m), Canon::Ok(_)) => Some(format!("original panics ({m}), renamed program does not")),
                };
                if let Some(why) = ok {
                    oracle.push(serde_json::json!({
                        "leg": "canon", "case": case_name, "renaming_kind": kind_s, "why": format!("canon(rename s p) != canon(p): {why}"),
                        "renaming": s.tables_plain(), "program_file": path.to_string_lossy()}));
                }
                sigmas.push((s, q));
            }
            if let Canon::Ok(c) = &e {
                match canon_impl(c) {
                    Canon::Ok(cc) => {
                        let (a, b) = (dump.program(c), dump.program(&cc));
                        if wf && a != b {
                            oracle.push(serde_json::json!({"leg": "canon", "case": case_name, "why": format!("canon not idempotent: {}", first_diff(&a, &b)), "program_file": path.to_string_lossy()}));
                        }
                    }
                    Canon::Panic(m) => {
                        if wf {
                            oracle.push(serde_json::json!({"leg": "canon", "case": case_name, "why": format!("canon(canon p) panics: {m}")}));
                        }
                    }
                }
                if wf {
                    let seq_ok = c.type_declarations.iter().enumerate().all(|(i, d)| d.id.id == i as u64)
                        && c.libfunc_declarations.iter().enumerate().all(|(i, d)| d.id.id == i as u64)
                        && c.funcs.iter().enumerate().all(|(i, d)| d.id.id == i as u64);
                    if !seq_ok {
                        oracle.push(serde_json::json!({"leg": "canon", "case": case_name, "why": "declared ids of the canonical program are not 0..n-1 in declaration order"}));
                    }
                }
            }
            // ---- Coq case ----
            let er = match coq_result(&mut pr, &e) {
                Ok(s) => s,
                Err(m) => {
                    oracle.push(serde_json::json!({"leg": "canon", "case": case_name, "why": format!("unexpected panic of the canonical replacer: {m}")}));
                    let _ = pr.close_case();
                    continue;
                }
            };
            let pick = rng.below(3) as usize;
            let (s, q) = &sigmas[pick];
            let small = p.statements.len() <= if thorough { 200 } else { 80 };
            let qs = if small {
                st.renamed_printed += 1;
                format!("(Some {})", pr.program(q))
            } else {
                "None".to_string()
            };
            let (ps, ts) = (pr.program(&p), s.tables(&mut pr));
            let case = format!("({},\n {},\n {},\n {})", ps, ts, er, qs);
            let prelude = pr.close_case();
            if samples.len() < 3 && p.statements.len() <= 6 {
                samples.push(format!(
                    "canon case {}: program {} renaming (types, libfuncs, functions) {} implementation's canonical result {}",
                    case_name,
                    dump.program(&p).replace('\n', " "),
                    s.tables_plain(),
                    e_dump.replace('\n', " ")
                ));
            }
            shards.push_with_prelude(prelude, case, case_name);
            st.cases += 1;
        }
    }
    shards.flush();
    st
}

// ---------------------------------------------------------------------------------------------
// leg omap / oset
// ---------------------------------------------------------------------------------------------
#[derive(Clone, Debug)]
enum OOp {
    Insert(u64, u64),
    OrInsert(u64, u64),
    SwapRemove(u64),
    ShiftRemove(u64),
    Pop,
    Clear,
}
fn coq_oop(o: &OOp) -> String {
    match o {
        OOp::Insert(k, v) => format!("OInsert {k} {v}"),
        OOp::OrInsert(k, v) => format!("OEntryOrInsert {k} {v}"),
        OOp::SwapRemove(k) => format!("OSwapRemove {k}"),
        OOp::ShiftRemove(k) => format!("OShiftRemove {k}"),
        OOp::Pop => "OPop".into(),
        OOp::Clear => "OClear".into(),
    }
}
fn coq_entries(es: &[(u64, u64)]) -> String {
    format!("[{}]", es.iter().map(|(k, v)| format!("({k},{v})")).collect::<Vec<_>>().join(";"))
}

/// Reference semantics written from the IndexMap documentation (a plain vector).
fn ref_step(m: &mut Vec<(u64, u64)>, o: &OOp) {
    match o {
        OOp::Insert(k, v) => match m.iter().position(|e| e.0 == *k) {
            Some(i) => m[i].1 = *v,
            None => m.push((*k, *v)),
        },
        OOp::OrInsert(k, v) => {
            if !m.iter().any(|e| e.0 == *k) {
                m.push((*k, *v))
            }
        }
        OOp::SwapRemove(k) => {
            if let Some(i) = m.iter().position(|e| e.0 == *k) {
                m.swap_remove(i);
            }
        }
        OOp::ShiftRemove(k) => {
            if let Some(i) = m.iter().position(|e| e.0 == *k) {
                m.remove(i);
            }
        }
        OOp::Pop => {
            m.pop();
        }
        OOp::Clear => m.clear(),
    }
}

fn gen_oops(rng: &mut Rng, len: usize, key_space: u64, set_like: bool) -> Vec<OOp> {
    let mut ops = vec![];
    for _ in 0..len {
        let k = rng.below(key_space);
        let v = if set_like { 0 } else { rng.below(1000) };
        let r = rng.below(100);
        ops.push(if set_like {
            match r {
                0..=54 => OOp::OrInsert(k, 0),
                55..=72 => OOp::SwapRemove(k),
                73..=90 => OOp::ShiftRemove(k),
                91..=97 => OOp::Pop,
                _ => OOp::Clear,
            }
        } else {
            match r {
                0..=44 => OOp::Insert(k, v),
                45..=54 => OOp::OrInsert(k, v),
                55..=72 => OOp::SwapRemove(k),
                73..=88 => OOp::ShiftRemove(k),
                89..=97 => OOp::Pop,
                _ => OOp::Clear,
            }
        });
    }
    ops
}

#[derive(Default)]
struct MapStats {
    cases: usize,
    ops: usize,
    overwrites: usize,
    swap_removes_hit: usize,
    shift_removes_hit: usize,
    max_len: usize,
    distinct_traces: usize,
}

fn omap_leg(out: &str, thorough: bool, rng: &mut Rng, oracle: &mut Vec<serde_json::Value>, samples: &mut Vec<String>) -> (MapStats, MapStats) {
    let mut shards = Shards::new(out, "omap", "check_omap", "omap_case", 400_000, 400);
    let mut stats = MapStats::default();
    let mut sstats = MapStats::default();
    let n_cases = if thorough { 3000 } else { 300 };
    let mut seen = std::collections::BTreeSet::new();
    for c in 0..n_cases {
        let set_like = c % 4 == 3;
        let len = 1 + rng.below(if c % 10 == 0 { 120 } else { 40 }) as usize;
        let key_space = *rng.pick(&[3u64, 6, 12, 40]);
        let ops = gen_oops(rng, len, key_space, set_like);
        let mut reference: Vec<(u64, u64)> = vec![];
        let mut trace: Vec<Vec<(u64, u64)>> = vec![];
        let st = if set_like { &mut sstats } else { &mut stats };
        st.cases += 1;
        st.ops += ops.len();
        // the implementation
        let mut m: OrderedHashMap<u64, u64> = OrderedHashMap::default();
        let mut set: OrderedHashSet<u64> = OrderedHashSet::default();
        for (i, o) in ops.iter().enumerate() {
            let before = reference.clone();
            ref_step(&mut reference, o);
            match o {
                OOp::Insert(k, _) if before.iter().any(|e| e.0 == *k) => st.overwrites += 1,
                OOp::SwapRemove(k) if before.iter().any(|e| e.0 == *k) => st.swap_removes_hit += 1,
                OOp::ShiftRemove(k) if before.iter().any(|e| e.0 == *k) => st.shift_removes_hit += 1,
                _ => {}
            }
            st.max_len = st.max_len.max(reference.len());
            let got: Vec<(u64, u64)> = if set_like {
                match o {
                    OOp::OrInsert(k, _) => {
                        set.insert(*k);
                    }
                    OOp::Insert(..) => unreachable!(),
                    OOp::SwapRemove(k) => {
                        set.swap_remove(k);
                    }
                    OOp::ShiftRemove(k) => {
                        set.shift_remove(k);
                    }
                    OOp::Pop => {
                        set.pop();
                    }
                    OOp::Clear => set.clear(),
                }
                set.iter().map(|k| (*k, 0)).collect()
            } else {
                match o {
                    OOp::Insert(k, v) => {
                        m.insert(*k, *v);
                    }
                    OOp::OrInsert(k, v) => {
                        m.entry(*k).or_insert(*v);
                    }
                    OOp::SwapRemove(k) => {
                        m.swap_remove(k);
                    }
                    OOp::ShiftRemove(k) => {
                        m.shift_remove(k);
                    }
                    OOp::Pop => {
                        m.pop();
                    }
                    OOp::Clear => m.clear(),
                }
                // every iteration face must agree: iter, keys+values, clone().into_iter()
                let a: Vec<(u64, u64)> = m.iter().map(|(k, v)| (*k, *v)).collect();
                let b: Vec<(u64, u64)> = m.keys().cloned().zip(m.values().cloned()).collect();
                let c2: Vec<(u64, u64)> = m.clone().into_iter().collect();
                if a != b || a != c2 {
                    oracle.push(serde_json::json!({"leg": "omap", "case": c, "why": "iter / keys+values / into_iter disagree", "ops": format!("{:?}", &ops[..=i])}));
                }
                a
            };
            if got != reference {
                oracle.push(serde_json::json!({
                    "leg": if set_like {"oset"} else {"omap"}, "case": c,
                    "why": format!("iteration after op {} differs from the reference vector: impl {:?} reference {:?}", i, got, reference),
                    "ops": format!("{:?}", &ops[..=i])}));
            }
            trace.push(got);
        }
        // order-sensitive and order-insensitive comparison faces, set difference (impl-level only)
        {
            let mut perm = reference.clone();
            for i in (1..perm.len()).rev() {
                let j = rng.below(i as u64 + 1) as usize;
                perm.swap(i, j);
            }
            if set_like {
                let other: OrderedHashSet<u64> = perm.iter().map(|e| e.0).filter(|k| k % 2 == 0).collect();
                let diff: Vec<u64> = (&set - &other).iter().cloned().collect();
                let expect: Vec<u64> = reference.iter().map(|e| e.0).filter(|k| k % 2 != 0).collect();
                if diff != expect {
                    oracle.push(serde_json::json!({"leg": "oset", "case": c, "why": format!("set difference does not keep the order of the left operand: {:?} vs {:?}", diff, expect), "ops": format!("{:?}", ops)}));
                }
            } else {
                let m2: OrderedHashMap<u64, u64> = perm.iter().cloned().collect();
                let same_order = perm == reference;
                if !m.eq_unordered(&m2) || (m == m2) != same_order {
                    oracle.push(serde_json::json!({"leg": "omap", "case": c, "why": format!("eq_unordered={} / == is {} but the orders are {}", m.eq_unordered(&m2), m == m2, if same_order {"equal"} else {"different"}), "ops": format!("{:?}", ops)}));
                }
            }
        }
        let case = format!(
            "([{}],\n  [{}])",
            ops.iter().map(coq_oop).collect::<Vec<_>>().join(";"),
            trace.iter().map(|t| coq_entries(t)).collect::<Vec<_>>().join(";")
        );
        if seen.insert(case.clone()) {
            st.distinct_traces += 1;
        }
        if samples.iter().filter(|s| s.starts_with("omap")).count() < 2 && ops.len() <= 8 && ops.len() >= 4 {
            samples.push(format!("omap case {}: ops {:?} -> final iteration {:?}", c, ops, trace.last().unwrap()));
        }
        shards.push(case, format!("{}{}", if set_like { "set" } else { "map" }, c));
    }
    shards.flush();
    (stats, sstats)
}

// ---------------------------------------------------------------------------------------------
// leg umap
// ---------------------------------------------------------------------------------------------
#[derive(Clone, Debug)]
enum UOp {
    Insert(u64, u64),
    Remove(u64),
}
type Obs = (u64, Vec<(u64, Option<u64>)>, Vec<(u64, u64)>, Vec<(u64, u64)>, Vec<(u64, u64)>, Vec<(u64, u64)>);

fn build_umap(ops: &[UOp]) -> UnorderedHashMap<u64, u64> {
    let mut m: UnorderedHashMap<u64, u64> = UnorderedHashMap::default();
    for o in ops {
        match o {
            UOp::Insert(k, v) => {
                m.insert(*k, *v);
            }
            UOp::Remove(k) => {
                m.remove(k);
            }
        }
    }
    m
}
fn observe(m: &UnorderedHashMap<u64, u64>, probes: &[u64]) -> Obs {
    let sorted: Vec<(u64, u64)> = m.iter_sorted().map(|(k, v)| (*k, *v)).collect();
    let by_key: Vec<(u64, u64)> = m.iter_sorted_by_key(|(k, v)| (**v, **k)).map(|(k, v)| (*k, *v)).collect();
    let agg: Vec<(u64, u64)> = m.aggregate_by(|k| *k % 4, |a: &u64, v| *a + *v, &0).into_iter_sorted().collect();
    let fil: Vec<(u64, u64)> = m.filter_cloned(|_, v| *v % 2 == 0).into_iter_sorted().collect();
    (m.len() as u64, probes.iter().map(|k| (*k, m.get(k).cloned())).collect(), sorted, by_key, agg, fil)
}

fn umap_leg(out: &str, thorough: bool, rng: &mut Rng, oracle: &mut Vec<serde_json::Value>, samples: &mut Vec<String>) -> MapStats {
    let mut shards = Shards::new(out, "umap", "check_umap", "umap_case", 400_000, 400);
    let mut st = MapStats::default();
    let n_cases = if thorough { 2400 } else { 250 };
    let mut seen = std::collections::BTreeSet::new();
    for c in 0..n_cases {
        let len = 1 + rng.below(if c % 10 == 0 { 100 } else { 30 }) as usize;
        let key_space = *rng.pick(&[4u64, 10, 30, 200]);
        let mut ops = vec![];
        for _ in 0..len {
            let k = rng.below(key_space);
            ops.push(if rng.below(100) < 75 { UOp::Insert(k, rng.below(1000)) } else { UOp::Remove(k) });
        }
        st.cases += 1;
        st.ops += ops.len();
        let probes: Vec<u64> = (0..6).map(|_| rng.below(key_space + 2)).collect();
        let m = build_umap(&ops);
        let o = observe(&m, &probes);
        st.max_len = st.max_len.max(m.len());
        // reference: BTreeMap
        let mut r: BTreeMap<u64, u64> = BTreeMap::new();
        for op in &ops {
            match op {
                UOp::Insert(k, v) => {
                    if r.insert(*k, *v).is_some() {
                        st.overwrites += 1;
                    }
                }
                UOp::Remove(k) => {
                    if r.remove(k).is_some() {
                        st.shift_removes_hit += 1;
                    }
                }
            }
        }
        let r_sorted: Vec<(u64, u64)> = r.iter().map(|(k, v)| (*k, *v)).collect();
        let mut r_by: Vec<(u64, u64)> = r_sorted.clone();
        r_by.sort_by_key(|(k, v)| (*v, *k));
        let mut r_agg: BTreeMap<u64, u64> = BTreeMap::new();
        for (k, v) in &r_sorted {
            *r_agg.entry(k % 4).or_insert(0) += v;
        }
        let r_obs: Obs = (
            r.len() as u64,
            probes.iter().map(|k| (*k, r.get(k).cloned())).collect(),
            r_sorted.clone(),
            r_by,
            r_agg.into_iter().collect(),
            r_sorted.iter().filter(|(_, v)| v % 2 == 0).cloned().collect(),
        );
        if o != r_obs {
            oracle.push(serde_json::json!({"leg": "umap", "case": c, "why": format!("observers differ from the BTreeMap reference: impl {:?} reference {:?}", o, r_obs), "ops": format!("{:?}", ops)}));
        }
        // a second map holding the same final contents, inserted in a permuted order (fresh hasher
        // state, other probing history): every observer and `==` must agree
        let mut finals: Vec<(u64, u64)> = r_sorted.clone();
        for i in (1..finals.len()).rev() {
            let j = rng.below(i as u64 + 1) as usize;
            finals.swap(i, j);
        }
        let ops2: Vec<UOp> = finals.iter().map(|(k, v)| UOp::Insert(*k, *v)).collect();
        let m2 = build_umap(&ops2);
        let o2 = observe(&m2, &probes);
        if o2 != o || m2 != m {
            oracle.push(serde_json::json!({"leg": "umap", "case": c, "why": format!("observers depend on the insertion order: {:?} vs {:?} (== says {})", o, o2, m2 == m), "ops": format!("{:?}", ops), "ops2": format!("{:?}", ops2)}));
        }
        let ce = coq_entries;
        let case = format!(
            "([{}],\n  ({}, [{}], {}, {}, {}, {}))",
            ops.iter().map(|o| match o { UOp::Insert(k, v) => format!("UInsert {k} {v}"), UOp::Remove(k) => format!("URemove {k}") }).collect::<Vec<_>>().join(";"),
            o.0,
            o.1.iter().map(|(k, v)| format!("({k},{})", coq_opt(v.map(|x| x.to_string())))).collect::<Vec<_>>().join(";"),
            ce(&o.2), ce(&o.3), ce(&o.4), ce(&o.5)
        );
        if seen.insert(case.clone()) {
            st.distinct_traces += 1;
        }
        if samples.iter().filter(|s| s.starts_with("umap")).count() < 2 && ops.len() <= 7 && ops.len() >= 4 {
            samples.push(format!("umap case {}: ops {:?} -> iter_sorted {:?}, aggregate_by(k%4,+) {:?}", c, ops, o.2, o.4));
        }
        shards.push(case, format!("umap{}", c));
    }
    shards.flush();
    st
}

fn map_stats_json(s: &MapStats) -> serde_json::Value {
    serde_json::json!({"cases": s.cases, "ops": s.ops, "overwrites": s.overwrites, "swap_removes_hit": s.swap_removes_hit,
        "shift_removes_hit": s.shift_removes_hit, "max_len": s.max_len, "distinct_cases": s.distinct_traces})
}

fn main() {
    let args: Vec<String> = std::env::args().collect();
    if args.len() < 4 {
        eprintln!("usage: h12 <corpus_dir> <out_dir> <tier>");
        std::process::exit(2);
    }
    let (corpus, out, tier) = (&args[1], &args[2], &args[3]);
    let thorough = tier == "thorough";
    fs::create_dir_all(out).unwrap();
    quiet_panics();
    let mut rng = Rng::from_env();
    let mut oracle: Vec<serde_json::Value> = vec![];
    let mut samples: Vec<String> = vec![];

    let cs = canon_leg(corpus, out, thorough, &mut rng, &mut oracle, &mut samples);
    let (ms, ss) = omap_leg(out, thorough, &mut rng, &mut oracle, &mut samples);
    let us = umap_leg(out, thorough, &mut rng, &mut oracle, &mut samples);

    let summary = serde_json::json!({
        "canon": {
            "corpus_programs": cs.programs, "parse_failed": cs.parse_failed, "skipped_large_in_quick_tier": cs.skipped_large,
            "cases": cs.cases, "mutants": cs.mutants, "mutant_kinds": cs.mutant_kinds,
            "well_formed": cs.well_formed, "ill_formed": cs.ill_formed, "impl_panics": cs.panics,
            "renamings_checked_by_oracle": cs.renamings, "renamed_programs_printed": cs.renamed_printed,
            "statements": cs.statements, "distinct_canonical_results": cs.distinct_programs,
        },
        "omap": map_stats_json(&ms),
        "oset": map_stats_json(&ss),
        "umap": map_stats_json(&us),
        "oracle_failures": oracle.len(),
    });
    fs::write(format!("{}/summary.json", out), serde_json::to_string_pretty(&summary).unwrap()).unwrap();
    fs::write(format!("{}/oracle_failures.json", out), serde_json::to_string_pretty(&oracle).unwrap()).unwrap();
    fs::write(format!("{}/samples.txt", out), samples.join("\n")).unwrap();
    println!("{}", serde_json::to_string(&summary).unwrap());
}
