//! C05 kernel tie: real lowerings before / after the real `branch_inversion` pass, printed as terms
//! of coq/C05/IR.v.  For every function of a crate (and its generated loop functions) the
//! lowering is taken at `PreOptimizations` (the input of the baseline strategy), the phases that precede BranchInversion in the baseline
//! strategy are applied (as in optimizations/strategy.rs), then the real pass.
use std::collections::BTreeMap;

use cairo_lang_defs::db::DefsGroup;
use cairo_lang_defs::ids::{ModuleItemId, NamedLanguageElementId};
use cairo_lang_filesystem::ids::{CrateId, SmolStrId};
use cairo_lang_lowering::db::LoweringGroup;
use cairo_lang_lowering::ids::{ConcreteFunctionWithBodyId, FunctionLongId, GeneratedFunction};
use cairo_lang_lowering::optimizations::strategy::{ApplyOptimization, OptimizationPhase};
use cairo_lang_lowering::{BlockEnd, Lowered, LoweringStage, MatchArm, MatchInfo, Statement};
use cairo_lang_semantic::items::enm::MatchArmSelector;
use cairo_lang_semantic::corelib;
use cairo_lang_utils::Intern;
use salsa::Database;

pub struct PassCase {
    pub name: String,
    pub before: String,
    pub after: String,
    pub fired: bool,
    pub blocks: usize,
    pub bool_not_calls: usize,
}

struct Names {
    consts: BTreeMap<String, usize>,
    funcs: BTreeMap<String, usize>,
}
impl Names {
    fn cst(&mut self, s: String) -> usize {
        let n = self.consts.len();
        *self.consts.entry(s).or_insert(n)
    }
    /// callee numbers start at 1: 0 is bool_not_impl
    fn func(&mut self, s: String) -> usize {
        let n = self.funcs.len() + 1;
        *self.funcs.entry(s).or_insert(n)
    }
}

fn vars<I: IntoIterator<Item = usize>>(it: I) -> String {
    format!("[{}]", it.into_iter().map(|v| format!("{v}%nat")).collect::<Vec<_>>().join("; "))
}

fn arms_coq(arms: &[MatchArm<'_>]) -> String {
    let xs: Vec<String> = arms
        .iter()
        .map(|a| {
            let sel = match &a.arm_selector {
                MatchArmSelector::VariantId(v) => v.idx,
                MatchArmSelector::Value(v) => v.value,
            };
            format!(
                "{{| a_sel := {}; a_block := {}; a_vars := {} |}}",
                sel,
                a.block_id.0,
                vars(a.var_ids.iter().map(|v| v.index()))
            )
        })
        .collect();
    format!("[{}]", xs.join("; "))
}

fn lowered_coq<'db>(
    db: &'db dyn Database,
    l: &Lowered<'db>,
    names: &mut Names,
    bool_not: cairo_lang_lowering::ids::FunctionId<'db>,
    n_bool_not: &mut usize,
) -> String {
    let fnum = |f: cairo_lang_lowering::ids::FunctionId<'db>, names: &mut Names| -> usize {
        if f == bool_not { 0 } else { names.func(f.full_path(db)) }
    };
    let mut blocks = vec![];
    for (_, b) in l.blocks.iter() {
        let mut ss = vec![];
        for st in &b.statements {
            ss.push(match st {
                Statement::Const(c) => {
                    format!("SConst {} {}", names.cst(format!("{:?}/{}", c.value, c.boxed)), c.output.index())
                }
                Statement::Call(c) => {
                    let f = fnum(c.function, names);
                    if f == 0 {
                        *n_bool_not += 1;
                    }
                    format!(
                        "SCall {} {} {} {}",
                        f,
                        vars(c.inputs.iter().map(|v| v.var_id.index())),
                        vars(c.outputs.iter().map(|v| v.index())),
                        c.with_coupon
                    )
                }
                Statement::StructConstruct(s) => format!(
                    "SStructConstruct {} {}",
                    vars(s.inputs.iter().map(|v| v.var_id.index())),
                    s.output.index()
                ),
                Statement::StructDestructure(s) => format!(
                    "SStructDestructure {} {}",
                    s.input.var_id.index(),
                    vars(s.outputs.iter().map(|v| v.index()))
                ),
                Statement::EnumConstruct(s) => {
                    format!("SEnumConstruct {} {} {}", s.variant.idx, s.input.var_id.index(), s.output.index())
                }
                Statement::Snapshot(s) => format!(
                    "SSnapshot {} {} {}",
                    s.input.var_id.index(),
                    s.outputs[0].index(),
                    s.outputs[1].index()
                ),
                Statement::Desnap(s) => format!("SDesnap {} {}", s.input.var_id.index(), s.output.index()),
                Statement::IntoBox(s) => format!("SIntoBox {} {}", s.input.var_id.index(), s.output.index()),
                Statement::Unbox(s) => format!("SUnbox {} {}", s.input.var_id.index(), s.output.index()),
            });
        }
        let end = match &b.end {
            BlockEnd::NotSet => "ENotSet".to_string(),
            BlockEnd::Return(vs, _) => format!("EReturn {}", vars(vs.iter().map(|v| v.var_id.index()))),
            BlockEnd::Panic(v) => format!("EPanic {}", v.var_id.index()),
            BlockEnd::Goto(t, remap) => format!(
                "EGoto {} [{}]",
                t.0,
                remap
                    .iter()
                    .map(|(d, s)| format!("({}%nat, {}%nat)", d.index(), s.var_id.index()))
                    .collect::<Vec<_>>()
                    .join("; ")
            ),
            BlockEnd::Match { info } => match info {
                MatchInfo::Enum(m) => format!("EMatch (MEnum {} {})", m.input.var_id.index(), arms_coq(&m.arms)),
                MatchInfo::Extern(m) => format!(
                    "EMatch (MExtern {} {} {})",
                    fnum(m.function, names),
                    vars(m.inputs.iter().map(|v| v.var_id.index())),
                    arms_coq(&m.arms)
                ),
                MatchInfo::Value(m) => {
                    format!("EMatch (MValue {} {} {})", m.num_of_arms, m.input.var_id.index(), arms_coq(&m.arms))
                }
            },
        };
        blocks.push(format!("{{| b_stmts := [{}]; b_end := {} |}}", ss.join("; "), end));
    }
    format!("[{}]", blocks.join(";\n    "))
}

/// The phases of the baseline strategy that run before BranchInversion (strategy.rs).
fn prefix_phases<'db>() -> Vec<OptimizationPhase<'db>> {
    vec![
        OptimizationPhase::ReorganizeBlocks,
        OptimizationPhase::ApplyInlining { enable_const_folding: true },
        OptimizationPhase::ReturnOptimization,
        OptimizationPhase::ReorganizeBlocks,
        OptimizationPhase::ReorderStatements,
    ]
}

pub fn pass_cases<'db>(db: &'db dyn Database, crates: &[CrateId<'db>], limit: usize) -> Result<Vec<PassCase>, String> {
    let bool_not = FunctionLongId::Semantic(corelib::get_core_function_id(
        db,
        SmolStrId::from(db, "bool_not_impl"),
        vec![],
    ))
    .intern(db);
    let mut out = vec![];
    let mut names = Names { consts: BTreeMap::new(), funcs: BTreeMap::new() };
    for c in crates {
        for m in db.crate_modules(*c).iter() {
            let Ok(items) = m.module_data(db).map(|d| d.items(db)) else { continue };
            for item in items.iter() {
                let ModuleItemId::FreeFunction(ff) = item else { continue };
                let Some(f) = ConcreteFunctionWithBodyId::from_no_generics_free(db, *ff) else { continue };
                let mut fs = vec![(ff.name(db).long(db).to_string(), f)];
                let sem = f.base_semantic_function(db);
                if let Ok(multi) = db.priv_function_with_body_multi_lowering(sem.function_with_body_id(db)) {
                    for (k, key) in multi.generated_lowerings.keys().enumerate() {
                        let g = GeneratedFunction { parent: sem, key: *key }.body(db);
                        fs.push((format!("{}[loop{}]", ff.name(db).long(db), k), g));
                    }
                }
                for (name, f) in fs {
                    if out.len() >= limit {
                        return Ok(out);
                    }
                    let r = vcommon::catch(std::panic::AssertUnwindSafe(|| -> Result<PassCase, String> {
                        let mut l: Lowered<'db> = db
                            .lowered_body(f, LoweringStage::PreOptimizations)
                            .map_err(|_| "no lowering".to_string())?
                            .clone();
                        for ph in prefix_phases() {
                            ph.apply(db, f, &mut l).map_err(|_| format!("{ph:?} failed"))?;
                        }
                        let before = l.clone();
                        OptimizationPhase::BranchInversion.apply(db, f, &mut l).map_err(|_| "pass failed".to_string())?;
                        let mut nb = 0;
                        let b = lowered_coq(db, &before, &mut names, bool_not, &mut nb);
                        let mut na = 0;
                        let a = lowered_coq(db, &l, &mut names, bool_not, &mut na);
                        Ok(PassCase {
                            name: name.clone(),
                            fired: before != l,
                            blocks: before.blocks.len(),
                            bool_not_calls: nb,
                            before: b,
                            after: a,
                        })
                    }));
                    match r {
                        Ok(Ok(c)) => out.push(c),
                        Ok(Err(e)) => return Err(format!("{name}: {e}")),
                        Err(e) => return Err(format!("{name}: panicked {e} at {}", vcommon::last_panic_location())),
                    }
                }
            }
        }
    }
    Ok(out)
}
