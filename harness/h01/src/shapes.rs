//! Pass-shape program family: small programs enumerated (not sampled) so that each optimisation
//! pass of crates/cairo-lang-lowering/src/optimizations/ (and inlining / specialisation) meets its
//! trigger pattern AND the near misses on which the rewrite would be wrong, with run-time operands
//! (entry parameters) and literal operands (type MIN / MAX / +-1 / 0, felt literals near P).
//!
//! family            passes it is aimed at
//! ----------------  -------------------------------------------------------------------------
//! arith             const_folding: int add/sub with 0 / 1 (inc, dec) / constants, wide_mul,
//!                   div_rem, eq with 0 (is_zero), both-constant folding; reorder_statements
//! felt              const_folding felt252 add / sub / mul rules (0, 1, constants near P)
//! cast              const_folding upcast / downcast (incl. felt252 -> signed, positive-form
//!                   literals near P), inlining of the conversion
//! destruct          return_optimization, split_structs, variable_forwarding: destructure +
//!                   reconstruct in every permutation / duplication, early returns, nesting
//! rewrap            return_optimization / match_optimizer: enum re-wrap (`A(v) => A(v)`) and
//!                   every near miss
//! box               reboxing: unbox + into_box, merges where one arm lacks the unbox, members
//! branch            branch_inversion, match_optimizer, dedup_blocks, reorganize_blocks,
//!                   numeric match lowering around the jump-table thresholds
//! cse               cse, reorder_statements, variable_forwarding, remappings: repeated
//!                   expressions, calls with effects, snapshots of mutated variables, unused
//!                   panicking values, order of panics
//! params            trim_unused_params, specialization, inline (always / never / default)
//! array             const_folding array rules (new / append / len / get / pop_front)
//! loops             loop-carried variables (remappings, variable_forwarding across blocks)
use crate::ast::*;
use num_bigint::BigInt;
use num_traits::{One, Zero};

pub struct Shape {
    pub family: &'static str,
    pub prog: Program,
    pub vectors: Vec<Vec<Val>>,
}

// ------------------------------------------------------------------------------------------
// a small construction DSL
fn ti(i: Ity) -> Ty {
    Ty::Int(i)
}
fn lit(t: &Ty, z: impl Into<BigInt>) -> Expr {
    Expr::Lit(t.clone(), z.into())
}
fn v(x: usize) -> Expr {
    Expr::Var(x)
}
fn b(e: Expr) -> Box<Expr> {
    Box::new(e)
}
fn bin(o: Binop, t: &Ty, x: Expr, y: Expr) -> Expr {
    Expr::Bin(o, t.clone(), b(x), b(y))
}
fn arith(k: ArithK, o: Binop, t: &Ty, x: Expr, y: Expr) -> Expr {
    Expr::Arith(k, o, t.clone(), b(x), b(y))
}
fn tup(t: &Ty, es: Vec<Expr>) -> Expr {
    Expr::Tup(t.clone(), es)
}
fn block(stmts: Vec<Stmt>, tail: Expr) -> Expr {
    if stmts.is_empty() { tail } else { Expr::Block(stmts, b(tail)) }
}
fn let_(x: usize, t: &Ty, e: Expr) -> Stmt {
    Stmt::Let(x, t.clone(), e)
}
fn if_(c: Expr, x: Expr, y: Expr) -> Expr {
    Expr::If(b(c), b(x), b(y))
}
fn call(f: usize, args: Vec<Expr>) -> Expr {
    Expr::Call(f, args.into_iter().map(Arg::Val).collect())
}
fn ret_(e: Expr) -> Expr {
    Expr::Return(Ty::unit(), b(e))
}
fn func(inline: Option<bool>, params: &[(usize, Ty)], ret: &Ty, body: Expr) -> FnDecl {
    FnDecl {
        inline,
        params: params.iter().map(|(x, t)| Param { name: *x, ty: t.clone(), by_ref: false }).collect(),
        ret: ret.clone(),
        body,
    }
}
fn p0() -> BigInt {
    vcommon::stark_prime()
}
fn some(t: &Ty, e: Expr) -> Expr {
    Expr::Enum(Ty::Opt(Box::new(t.clone())), 0, b(e))
}
fn none(t: &Ty) -> Expr {
    Expr::Enum(Ty::Opt(Box::new(t.clone())), 1, b(unit_expr()))
}
fn opt(t: &Ty) -> Ty {
    Ty::Opt(Box::new(t.clone()))
}
fn boxed(t: &Ty) -> Ty {
    Ty::Boxed(Box::new(t.clone()))
}
fn tt(ts: Vec<Ty>) -> Ty {
    Ty::Tup(ts)
}
fn u32t() -> Ty {
    ti(Ity::U32)
}

/// boundary values of a scalar type (arguments of entry functions)
fn bv(t: &Ty, k: usize) -> Val {
    let b = bvals(t);
    b[k % b.len()].clone()
}

fn bvals(t: &Ty) -> Vec<Val> {
    match t {
        Ty::Int(i) => {
            let mut v = vec![i.lo(), i.lo() + 1, BigInt::from(-1), BigInt::zero(), BigInt::one(), BigInt::from(2), i.hi() - 1, i.hi()];
            v.retain(|z| *z >= i.lo() && *z <= i.hi());
            v.dedup();
            let mut out: Vec<BigInt> = vec![];
            for z in v {
                if !out.contains(&z) {
                    out.push(z);
                }
            }
            out.into_iter().map(Val::Int).collect()
        }
        Ty::Felt => vec![
            BigInt::zero(),
            BigInt::one(),
            BigInt::from(2),
            p0() - 1,
            p0() - 2,
            (p0() - 1) / 2,
            BigInt::one() << 128,
            (BigInt::one() << 127) - 1,
        ]
        .into_iter()
        .map(Val::Int)
        .collect(),
        Ty::Bool => vec![Val::Bool(false), Val::Bool(true)],
        Ty::Tup(ts) => {
            let per: Vec<Vec<Val>> = ts.iter().map(bvals).collect();
            let n = per.iter().map(|p| p.len()).max().unwrap_or(1);
            (0..n).map(|k| Val::Tup(per.iter().enumerate().map(|(j, p)| p[(k + j) % p.len()].clone()).collect())).collect()
        }
        _ => panic!("bvals of {:?}", t),
    }
}

/// argument vectors: every boundary value of every parameter occurs, parameters are rotated
/// against each other
fn vectors(params: &[Ty]) -> Vec<Vec<Val>> {
    if params.is_empty() {
        return vec![vec![]];
    }
    let per: Vec<Vec<Val>> = params.iter().map(bvals).collect();
    let n = per.iter().map(|p| p.len()).max().unwrap();
    let mut out: Vec<Vec<Val>> = vec![];
    for k in 0..n {
        let vcase: Vec<Val> = per.iter().enumerate().map(|(j, p)| p[(k + j * 3) % p.len()].clone()).collect();
        if !out.contains(&vcase) {
            out.push(vcase);
        }
    }
    // all parameters equal-index (e.g. all MIN, all MAX)
    for k in [0usize, n - 1] {
        let vcase: Vec<Val> = per.iter().map(|p| p[k.min(p.len() - 1)].clone()).collect();
        if !out.contains(&vcase) {
            out.push(vcase);
        }
    }
    out
}

struct Acc {
    out: Vec<Shape>,
}
impl Acc {
    fn add(&mut self, family: &'static str, structs: Vec<Vec<Ty>>, enums: Vec<Vec<Ty>>, fns: Vec<FnDecl>) {
        let ptys: Vec<Ty> = fns.last().unwrap().params.iter().map(|p| p.ty.clone()).collect();
        let vs = vectors(&ptys);
        self.add_v(family, structs, enums, fns, vs);
    }
    fn add_v(
        &mut self,
        family: &'static str,
        structs: Vec<Vec<Ty>>,
        enums: Vec<Vec<Ty>>,
        fns: Vec<FnDecl>,
        vectors: Vec<Vec<Val>>,
    ) {
        let tag = format!("sh{}", self.out.len());
        self.out.push(Shape { family, prog: Program { tag, structs, enums, fns }, vectors });
    }
}

fn int_types(tier: &str) -> Vec<Ity> {
    if tier == "thorough" { ITYS.to_vec() } else { vec![Ity::U8, Ity::I8, Ity::I32, Ity::U128, Ity::I128] }
}

/// the constants an operator is tried with
fn consts(i: Ity) -> Vec<BigInt> {
    let mut c = vec![BigInt::zero(), BigInt::one(), BigInt::from(2), i.hi()];
    if i.signed() {
        c.push(i.lo());
        c.push(BigInt::from(-1));
    }
    c
}

// ------------------------------------------------------------------------------------------
fn family_arith(a: &mut Acc, tier: &str) {
    for i in int_types(tier) {
        let t = ti(i);
        let cs = consts(i);
        // --- panicking operators: one program per (operator, form, constant)
        let mut ops = vec![Binop::Add, Binop::Sub, Binop::Mul, Binop::Div, Binop::Rem];
        if !i.signed() {
            ops.extend([Binop::And, Binop::Or, Binop::Xor]);
        }
        for o in &ops {
            for c in &cs {
                // x op c, c op x: directly, and through a helper the compiler inlines
                a.add("arith", vec![], vec![], vec![func(None, &[(0, t.clone())], &t, bin(*o, &t, v(0), lit(&t, c.clone())))]);
                a.add("arith", vec![], vec![], vec![func(None, &[(0, t.clone())], &t, bin(*o, &t, lit(&t, c.clone()), v(0)))]);
                if c.is_zero() || c.is_one() || *c == i.hi() || *c == i.lo() {
                    let h = func(None, &[(0, t.clone()), (1, t.clone())], &t, bin(*o, &t, v(0), v(1)));
                    a.add("arith", vec![], vec![], vec![h.clone(), func(None, &[(0, t.clone())], &t, call(0, vec![v(0), lit(&t, c.clone())]))]);
                    a.add("arith", vec![], vec![], vec![h, func(None, &[(0, t.clone())], &t, call(0, vec![lit(&t, c.clone()), v(0)]))]);
                }
            }
            // both operands constant
            let mut pairs = vec![
                (i.hi(), BigInt::one()),
                (i.lo(), BigInt::one()),
                (BigInt::one(), BigInt::zero()),
                (BigInt::zero(), BigInt::one()),
                (i.hi(), i.hi()),
                (BigInt::from(2), BigInt::from(2)),
                (i.hi() - 1, BigInt::one()),
            ];
            if i.signed() {
                pairs.push((i.lo(), BigInt::from(-1)));
                pairs.push((i.lo(), i.lo()));
                pairs.push((BigInt::from(-1), i.hi()));
            }
            for (x, y) in pairs {
                a.add("arith", vec![], vec![], vec![func(None, &[], &t, bin(*o, &t, lit(&t, x), lit(&t, y)))]);
            }
        }
        // negation
        if i.signed() {
            a.add("arith", vec![], vec![], vec![func(None, &[(0, t.clone())], &t, Expr::Un(Unop::Neg, t.clone(), b(v(0))))]);
            for c in [i.lo(), i.lo() + 1, i.hi(), BigInt::zero()] {
                a.add("arith", vec![], vec![], vec![func(None, &[], &t, Expr::Un(Unop::Neg, t.clone(), b(lit(&t, c))))]);
            }
        }
        // --- comparisons with constants, packed (no panic)
        for c in &cs {
            let cmp: Vec<Expr> = [Binop::Eq, Binop::Ne, Binop::Lt, Binop::Le, Binop::Gt, Binop::Ge]
                .iter()
                .flat_map(|o| [bin(*o, &t, v(0), lit(&t, c.clone())), bin(*o, &t, lit(&t, c.clone()), v(0))])
                .collect();
            let rt = tt(vec![Ty::Bool; cmp.len()]);
            a.add("arith", vec![], vec![], vec![func(None, &[(0, t.clone())], &rt, tup(&rt, cmp))]);
        }
        // --- the non-panicking families, packed over the constants
        for k in [ArithK::Wrapping, ArithK::Overflowing, ArithK::Checked, ArithK::Saturating] {
            let mut aops = vec![Binop::Add, Binop::Sub];
            if !i.signed() {
                aops.push(Binop::Mul);
            }
            let rt1 = match k {
                ArithK::Wrapping | ArithK::Saturating => t.clone(),
                ArithK::Overflowing => tt(vec![t.clone(), Ty::Bool]),
                ArithK::Checked => opt(&t),
            };
            for o in aops {
                let rt = tt(vec![rt1.clone(); cs.len()]);
                // x . c
                let es: Vec<Expr> = cs.iter().map(|c| arith(k, o, &t, v(0), lit(&t, c.clone()))).collect();
                a.add("arith", vec![], vec![], vec![func(None, &[(0, t.clone())], &rt, tup(&rt, es))]);
                // c . x
                let es: Vec<Expr> = cs.iter().map(|c| arith(k, o, &t, lit(&t, c.clone()), v(0))).collect();
                a.add("arith", vec![], vec![], vec![func(None, &[(0, t.clone())], &rt, tup(&rt, es))]);
                // through an inlined helper
                let h = func(None, &[(0, t.clone()), (1, t.clone())], &rt1, arith(k, o, &t, v(0), v(1)));
                let es: Vec<Expr> = cs.iter().map(|c| call(0, vec![v(0), lit(&t, c.clone())])).collect();
                a.add("arith", vec![], vec![], vec![h.clone(), func(None, &[(0, t.clone())], &rt, tup(&rt, es))]);
                let es: Vec<Expr> = cs.iter().map(|c| call(0, vec![lit(&t, c.clone()), v(0)])).collect();
                a.add("arith", vec![], vec![], vec![h, func(None, &[(0, t.clone())], &rt, tup(&rt, es))]);
                // c1 . c2
                let es: Vec<Expr> = cs.iter().map(|c| arith(k, o, &t, lit(&t, c.clone()), lit(&t, cs[(cs.len() - 1).min(3)].clone()))).collect();
                a.add("arith", vec![], vec![], vec![func(None, &[], &rt, tup(&rt, es))]);
                let es: Vec<Expr> = cs.iter().map(|c| arith(k, o, &t, lit(&t, i.lo()), lit(&t, c.clone()))).collect();
                a.add("arith", vec![], vec![], vec![func(None, &[], &rt, tup(&rt, es))]);
                // two run-time operands
                a.add("arith", vec![], vec![], vec![func(None, &[(0, t.clone()), (1, t.clone())], &rt1, arith(k, o, &t, v(0), v(1)))]);
            }
        }
    }
}

fn felt_consts() -> Vec<BigInt> {
    vec![BigInt::zero(), BigInt::one(), BigInt::from(2), p0() - 1, p0() - 2, (p0() - 1) / 2, BigInt::one() << 128, BigInt::one() << 251]
}

fn family_felt(a: &mut Acc) {
    let t = Ty::Felt;
    let cs = felt_consts();
    for o in [Binop::Add, Binop::Sub, Binop::Mul] {
        let rt = tt(vec![Ty::Felt; cs.len()]);
        let es: Vec<Expr> = cs.iter().map(|c| bin(o, &t, v(0), lit(&t, c.clone()))).collect();
        a.add("felt", vec![], vec![], vec![func(None, &[(0, t.clone())], &rt, tup(&rt, es))]);
        let es: Vec<Expr> = cs.iter().map(|c| bin(o, &t, lit(&t, c.clone()), v(0))).collect();
        a.add("felt", vec![], vec![], vec![func(None, &[(0, t.clone())], &rt, tup(&rt, es))]);
        let h = func(None, &[(0, t.clone()), (1, t.clone())], &t, bin(o, &t, v(0), v(1)));
        let es: Vec<Expr> = cs.iter().map(|c| call(0, vec![v(0), lit(&t, c.clone())])).collect();
        a.add("felt", vec![], vec![], vec![h.clone(), func(None, &[(0, t.clone())], &rt, tup(&rt, es))]);
        let es: Vec<Expr> = cs.iter().map(|c| call(0, vec![lit(&t, c.clone()), v(0)])).collect();
        a.add("felt", vec![], vec![], vec![h, func(None, &[(0, t.clone())], &rt, tup(&rt, es))]);
        for c2 in [p0() - 1, BigInt::one(), BigInt::one() << 251] {
            let es: Vec<Expr> = cs.iter().map(|c| bin(o, &t, lit(&t, c.clone()), lit(&t, c2.clone()))).collect();
            a.add("felt", vec![], vec![], vec![func(None, &[], &rt, tup(&rt, es))]);
        }
    }
    // negation and equality with constants
    let rt = tt(vec![Ty::Felt; cs.len()]);
    let es: Vec<Expr> = cs.iter().map(|c| Expr::Un(Unop::Neg, t.clone(), b(lit(&t, c.clone())))).collect();
    a.add("felt", vec![], vec![], vec![func(None, &[], &rt, tup(&rt, es))]);
    a.add("felt", vec![], vec![], vec![func(None, &[(0, t.clone())], &t, Expr::Un(Unop::Neg, t.clone(), b(v(0))))]);
    let rtb = tt(vec![Ty::Bool; 2 * cs.len()]);
    let es: Vec<Expr> = cs.iter().flat_map(|c| [bin(Binop::Eq, &t, v(0), lit(&t, c.clone())), bin(Binop::Ne, &t, lit(&t, c.clone()), v(0))]).collect();
    a.add("felt", vec![], vec![], vec![func(None, &[(0, t.clone())], &rtb, tup(&rtb, es))]);
}

fn cast_consts(from: &Ty, to: &Ty) -> Vec<BigInt> {
    let mut c: Vec<BigInt> = vec![BigInt::zero(), BigInt::one()];
    match (from, to) {
        (Ty::Int(f), Ty::Int(t)) => {
            c.extend([f.lo(), f.hi(), t.lo() - 1, t.lo(), t.lo() + 1, t.hi() - 1, t.hi(), t.hi() + 1, BigInt::from(-1)]);
            c.retain(|z| *z >= f.lo() && *z <= f.hi());
        }
        (Ty::Felt, Ty::Int(t)) => {
            c.extend([t.hi(), t.hi() + 1, p0() - 1, p0() - 2, (p0() - 1) / 2, (p0() + 1) / 2, BigInt::one() << 128, (BigInt::one() << 128) - 1]);
            if t.signed() {
                // the negative numbers of the target, written as positive felt literals
                c.extend([p0() + t.lo(), p0() + t.lo() - 1, p0() + t.lo() + 1]);
            } else {
                c.push(p0() - t.hi());
            }
        }
        (Ty::Int(f), Ty::Felt) => c.extend([f.lo(), f.hi(), BigInt::from(-1)].into_iter().filter(|z| *z >= f.lo() && *z <= f.hi())),
        _ => {}
    }
    let mut out: Vec<BigInt> = vec![];
    for z in c {
        if !out.contains(&z) {
            out.push(z);
        }
    }
    out
}

fn family_cast(a: &mut Acc, tier: &str) {
    let mut tys: Vec<Ty> = int_types(tier).into_iter().map(ti).collect();
    tys.push(Ty::Felt);
    for from in &tys {
        for to in &tys {
            if from == to {
                continue;
            }
            let into_ok = match (from, to) {
                (Ty::Int(f), Ty::Int(t)) => f.upcastable(*t),
                (Ty::Int(_), Ty::Felt) => true,
                _ => false,
            };
            let try_ok = match (from, to) {
                (Ty::Int(f), Ty::Int(t)) => !f.upcastable(*t),
                (Ty::Felt, Ty::Int(_)) => true,
                _ => false,
            };
            let cs = cast_consts(from, to);
            let (k, rt1) = if into_ok {
                (CastK::Into, to.clone())
            } else if try_ok {
                (CastK::Try, opt(to))
            } else {
                continue;
            };
            let cast = |e: Expr| Expr::Cast(k, from.clone(), to.clone(), b(e));
            // run-time operand
            a.add("cast", vec![], vec![], vec![func(None, &[(0, from.clone())], &rt1, cast(v(0)))]);
            if k == CastK::Try {
                a.add("cast", vec![], vec![], vec![func(None, &[(0, from.clone())], to, Expr::Unwrap(None, false, b(cast(v(0)))))]);
            }
            // literal operands, directly and through an inlined helper, in groups of 6
            let h = func(None, &[(0, from.clone())], &rt1, cast(v(0)));
            for chunk in cs.chunks(6) {
                let rt = tt(vec![rt1.clone(); chunk.len()]);
                let es: Vec<Expr> = chunk.iter().map(|c| cast(lit(from, c.clone()))).collect();
                a.add("cast", vec![], vec![], vec![func(None, &[], &rt, tup(&rt, es))]);
                let es: Vec<Expr> = chunk.iter().map(|c| call(0, vec![lit(from, c.clone())])).collect();
                a.add("cast", vec![], vec![], vec![h.clone(), func(None, &[], &rt, tup(&rt, es))]);
            }
            // a literal held in a variable, then converted (variable forwarding of a constant)
            if k == CastK::Try {
                for c in cs.iter().take(12) {
                    let body = block(vec![let_(1, from, lit(from, c.clone()))], Expr::Unwrap(Some("cst".into()), false, b(cast(v(1)))));
                    a.add("cast", vec![], vec![], vec![func(None, &[], to, body)]);
                }
            }
        }
    }
    // bool -> felt252
    a.add("cast", vec![], vec![], vec![func(None, &[(0, Ty::Bool)], &Ty::Felt, Expr::Cast(CastK::Into, Ty::Bool, Ty::Felt, b(v(0))))]);
}

/// every map {0..n-1} -> {0..n-1}
fn all_maps(n: usize) -> Vec<Vec<usize>> {
    let mut out = vec![vec![]];
    for _ in 0..n {
        let mut next = vec![];
        for m in &out {
            for k in 0..n {
                let mut m2 = m.clone();
                m2.push(k);
                next.push(m2);
            }
        }
        out = next;
    }
    out
}

fn family_destruct(a: &mut Acc, tier: &str) {
    let elems: Vec<Ty> = if tier == "thorough" { vec![Ty::Felt, ti(Ity::U8), ti(Ity::I64)] } else { vec![Ty::Felt, ti(Ity::U8)] };
    for el in &elems {
        for n in [2usize, 3] {
            for use_struct in [false, true] {
                let (structs, ct) = if use_struct { (vec![vec![el.clone(); n]], Ty::Struct(0)) } else { (vec![], tt(vec![el.clone(); n])) };
                let xs: Vec<usize> = (10..10 + n).collect();
                let entry_params: Vec<(usize, Ty)> = (0..n).map(|k| (k, el.clone())).collect();
                let mk = |f: usize| call(f, vec![tup(&ct, (0..n).map(v).collect())]);
                for m in all_maps(n) {
                    let recon = tup(&ct, m.iter().map(|k| v(xs[*k])).collect());
                    // tail position
                    for inl in [Some(false), None] {
                        let f = func(inl, &[(0, ct.clone())], &ct, block(vec![Stmt::LetTup(xs.clone(), ct.clone(), v(0))], recon.clone()));
                        a.add("destruct", structs.clone(), vec![], vec![f, func(None, &entry_params, &ct, mk(0))]);
                    }
                    if n == 2 || m.iter().all(|k| *k != 1) {
                        // early return of the reconstruction, identity on the other path
                        let body = block(
                            vec![
                                Stmt::LetTup(xs.clone(), ct.clone(), v(0)),
                                Stmt::Expr(if_(v(1), block(vec![], ret_(recon.clone())), unit_expr())),
                            ],
                            tup(&ct, xs.iter().map(|x| v(*x)).collect()),
                        );
                        let f = func(Some(false), &[(0, ct.clone()), (1, Ty::Bool)], &ct, body);
                        let mut ep = entry_params.clone();
                        ep.push((n, Ty::Bool));
                        let e = func(None, &ep, &ct, call(0, vec![tup(&ct, (0..n).map(v).collect()), v(n)]));
                        a.add("destruct", structs.clone(), vec![], vec![f, e]);
                        // the reconstruction in both arms of a branch, differently
                        let body = block(
                            vec![Stmt::LetTup(xs.clone(), ct.clone(), v(0))],
                            if_(v(1), recon.clone(), tup(&ct, xs.iter().rev().map(|x| v(*x)).collect())),
                        );
                        let f = func(Some(false), &[(0, ct.clone()), (1, Ty::Bool)], &ct, body);
                        let e = func(None, &ep, &ct, call(0, vec![tup(&ct, (0..n).map(v).collect()), v(n)]));
                        a.add("destruct", structs.clone(), vec![], vec![f, e]);
                    }
                }
                // a member changed in between / used again afterwards
                let mut members: Vec<Expr> = xs.iter().map(|x| v(*x)).collect();
                members[0] = bin(Binop::Add, el, v(xs[0]), lit(el, 1));
                let f = func(Some(false), &[(0, ct.clone())], &ct, block(vec![Stmt::LetTup(xs.clone(), ct.clone(), v(0))], tup(&ct, members)));
                a.add("destruct", structs.clone(), vec![], vec![f, func(None, &entry_params, &ct, mk(0))]);
                let rt = tt(vec![ct.clone(), el.clone()]);
                let f = func(
                    Some(false),
                    &[(0, ct.clone())],
                    &rt,
                    block(
                        vec![Stmt::LetTup(xs.clone(), ct.clone(), v(0))],
                        tup(&rt, vec![tup(&ct, xs.iter().rev().map(|x| v(*x)).collect()), v(xs[n - 1])]),
                    ),
                );
                a.add("destruct", structs.clone(), vec![], vec![f, func(None, &entry_params, &rt, mk(0))]);
            }
        }
        // two different sources: members taken from two destructured values
        let ct = tt(vec![el.clone(), el.clone()]);
        for (i0, i1) in [(10, 13), (12, 11), (12, 13), (10, 11), (11, 12)] {
            let body = block(
                vec![Stmt::LetTup(vec![10, 11], ct.clone(), v(0)), Stmt::LetTup(vec![12, 13], ct.clone(), v(1))],
                tup(&ct, vec![v(i0), v(i1)]),
            );
            let f = func(Some(false), &[(0, ct.clone()), (1, ct.clone())], &ct, body);
            let e = func(
                None,
                &[(0, el.clone()), (1, el.clone()), (2, el.clone()), (3, el.clone())],
                &ct,
                call(0, vec![tup(&ct, vec![v(0), v(1)]), tup(&ct, vec![v(2), v(3)])]),
            );
            a.add("destruct", vec![], vec![], vec![f, e]);
        }
        // nested: ((a, b), c)
        let inner = tt(vec![el.clone(), el.clone()]);
        let outer = tt(vec![inner.clone(), el.clone()]);
        for (m0, m1, m2) in [(12, 13, 11), (13, 12, 11), (12, 12, 11), (11, 13, 12), (13, 11, 12)] {
            let body = block(
                vec![Stmt::LetTup(vec![10, 11], outer.clone(), v(0)), Stmt::LetTup(vec![12, 13], inner.clone(), v(10))],
                tup(&outer, vec![tup(&inner, vec![v(m0), v(m1)]), v(m2)]),
            );
            let f = func(Some(false), &[(0, outer.clone())], &outer, body);
            let e = func(
                None,
                &[(0, el.clone()), (1, el.clone()), (2, el.clone())],
                &outer,
                call(0, vec![tup(&outer, vec![tup(&inner, vec![v(0), v(1)]), v(2)])]),
            );
            a.add("destruct", vec![], vec![], vec![f, e]);
        }
    }
    // mixed member types: only the same-typed positions can be exchanged
    let ct = tt(vec![ti(Ity::U8), Ty::Felt, ti(Ity::U8)]);
    for (m0, m2) in [(10, 12), (12, 10), (10, 10), (12, 12)] {
        let body = block(vec![Stmt::LetTup(vec![10, 11, 12], ct.clone(), v(0))], tup(&ct, vec![v(m0), v(11), v(m2)]));
        let f = func(Some(false), &[(0, ct.clone())], &ct, body);
        let e = func(None, &[(0, ti(Ity::U8)), (1, Ty::Felt), (2, ti(Ity::U8))], &ct, call(0, vec![tup(&ct, vec![v(0), v(1), v(2)])]));
        a.add("destruct", vec![], vec![], vec![f, e]);
    }
}

fn family_rewrap(a: &mut Acc) {
    for el in [Ty::Felt, ti(Ity::U16)] {
        // user enum with two same-typed variants and a unit variant
        let enums = vec![vec![el.clone(), el.clone(), Ty::unit()]];
        let et = Ty::Enum(0);
        let mk_entry = |f: usize| {
            // entry(sel: u8, x) builds the value from run-time data
            let e = Expr::MatchInt(
                ti(Ity::U8),
                b(v(0)),
                vec![Expr::Enum(et.clone(), 0, b(v(1))), Expr::Enum(et.clone(), 1, b(v(1)))],
                b(Expr::Enum(et.clone(), 2, b(unit_expr()))),
            );
            func(None, &[(0, ti(Ity::U8)), (1, el.clone())], &et, call(f, vec![e]))
        };
        for s0 in 0..3usize {
            for s1 in 0..3usize {
                let arm = |var: usize, target: usize| -> Expr {
                    if target == 2 { Expr::Enum(et.clone(), 2, b(unit_expr())) } else { Expr::Enum(et.clone(), target, b(v(var))) }
                };
                let body = Expr::Match(et.clone(), b(v(0)), vec![(10, arm(10, s0)), (11, arm(11, s1)), (12, Expr::Enum(et.clone(), 2, b(v(12))))]);
                for inl in [Some(false), None] {
                    a.add("rewrap", vec![], enums.clone(), vec![func(inl, &[(0, et.clone())], &et, body.clone()), mk_entry(0)]);
                }
            }
        }
        // payload changed while re-wrapping
        let body = Expr::Match(
            et.clone(),
            b(v(0)),
            vec![
                (10, Expr::Enum(et.clone(), 0, b(bin(Binop::Add, &el, v(10), lit(&el, 1))))),
                (11, Expr::Enum(et.clone(), 1, b(v(11)))),
                (12, Expr::Enum(et.clone(), 2, b(v(12)))),
            ],
        );
        a.add("rewrap", vec![], enums.clone(), vec![func(Some(false), &[(0, et.clone())], &et, body), mk_entry(0)]);
        // Option / Result
        let ot = opt(&el);
        let oentry = |f: usize| func(None, &[(0, Ty::Bool), (1, el.clone())], &ot, call(f, vec![if_(v(0), some(&el, v(1)), none(&el))]));
        for some_to in 0..3usize {
            for none_to in 0..2usize {
                let s_arm = match some_to {
                    0 => some(&el, v(10)),
                    1 => none(&el),
                    _ => some(&el, lit(&el, 7)),
                };
                let n_arm = if none_to == 0 { none(&el) } else { some(&el, lit(&el, 9)) };
                let body = Expr::Match(ot.clone(), b(v(0)), vec![(10, s_arm), (11, n_arm)]);
                a.add("rewrap", vec![], vec![], vec![func(Some(false), &[(0, ot.clone())], &ot, body.clone()), oentry(0)]);
                a.add("rewrap", vec![], vec![], vec![func(None, &[(0, ot.clone())], &ot, body), oentry(0)]);
            }
        }
        let rt = Ty::Res(Box::new(el.clone()), Box::new(el.clone()));
        let rentry = |f: usize| {
            func(None, &[(0, Ty::Bool), (1, el.clone())], &rt, call(f, vec![if_(v(0), Expr::Enum(rt.clone(), 0, b(v(1))), Expr::Enum(rt.clone(), 1, b(v(1))))]))
        };
        for ok_to in 0..2usize {
            for err_to in 0..2usize {
                let body = Expr::Match(rt.clone(), b(v(0)), vec![(10, Expr::Enum(rt.clone(), ok_to, b(v(10)))), (11, Expr::Enum(rt.clone(), err_to, b(v(11))))]);
                a.add("rewrap", vec![], vec![], vec![func(Some(false), &[(0, rt.clone())], &rt, body), rentry(0)]);
            }
        }
        // `?` re-wrapping: Ok(v?) and map-like shapes
        let body = Expr::Enum(rt.clone(), 0, b(Expr::Try(b(v(0)))));
        a.add("rewrap", vec![], vec![], vec![func(Some(false), &[(0, rt.clone())], &rt, body), rentry(0)]);
        let body = some(&el, Expr::Try(b(v(0))));
        a.add("rewrap", vec![], vec![], vec![func(Some(false), &[(0, ot.clone())], &ot, body), oentry(0)]);
    }
}

fn family_box(a: &mut Acc) {
    let s2 = vec![vec![Ty::Felt, Ty::Felt]];
    for el in [Ty::Felt, u32t()] {
        let bt = boxed(&el);
        let new = |e: Expr| Expr::BoxNew(b(e));
        let unbox = |e: Expr| Expr::Unbox(b(e));
        for inl in [Some(false), None] {
            // identity re-boxing
            let f = func(inl, &[(0, bt.clone())], &bt, new(unbox(v(0))));
            a.add("box", vec![], vec![], vec![f, func(None, &[(0, el.clone())], &el, unbox(call(0, vec![new(v(0))])))]);
            // merge where only one arm unboxes, both orders
            for unbox_first in [true, false] {
                let (x, y) = if unbox_first { (unbox(v(0)), v(2)) } else { (v(2), unbox(v(0))) };
                let body = block(vec![let_(10, &el, if_(v(1), x, y))], new(v(10)));
                let f = func(inl, &[(0, bt.clone()), (1, Ty::Bool), (2, el.clone())], &bt, body);
                let e = func(None, &[(0, el.clone()), (1, Ty::Bool), (2, el.clone())], &el, unbox(call(0, vec![new(v(0)), v(1), v(2)])));
                a.add("box", vec![], vec![], vec![f, e]);
            }
            // both arms unbox (different boxes)
            let body = block(vec![let_(10, &el, if_(v(2), unbox(v(0)), unbox(v(1))))], new(v(10)));
            let f = func(inl, &[(0, bt.clone()), (1, bt.clone()), (2, Ty::Bool)], &bt, body);
            let e = func(None, &[(0, el.clone()), (1, el.clone()), (2, Ty::Bool)], &el, unbox(call(0, vec![new(v(0)), new(v(1)), v(2)])));
            a.add("box", vec![], vec![], vec![f, e]);
            // three-way merge on a run-time selector
            for perm in 0..3usize {
                let mut arms = vec![unbox(v(0)), v(2), unbox(v(1))];
                arms.rotate_left(perm);
                let d = arms.pop().unwrap();
                let body = block(vec![let_(10, &el, Expr::MatchInt(ti(Ity::U8), b(v(3)), arms, b(d)))], new(v(10)));
                let f = func(inl, &[(0, bt.clone()), (1, bt.clone()), (2, el.clone()), (3, ti(Ity::U8))], &bt, body);
                let e = func(
                    None,
                    &[(0, el.clone()), (1, el.clone()), (2, el.clone()), (3, ti(Ity::U8))],
                    &el,
                    unbox(call(0, vec![new(v(0)), new(v(1)), v(2), v(3)])),
                );
                a.add("box", vec![], vec![], vec![f, e]);
            }
            // the unboxed value is changed / used again before re-boxing
            let body = block(vec![let_(10, &el, unbox(v(0))), Stmt::Expr(Expr::Assign(10, b(bin(Binop::Add, &el, v(10), lit(&el, 1)))))], new(v(10)));
            let f = func(inl, &[(0, bt.clone())], &bt, body);
            a.add("box", vec![], vec![], vec![f, func(None, &[(0, el.clone())], &el, unbox(call(0, vec![new(v(0))])))]);
            let rt = tt(vec![el.clone(), el.clone()]);
            let body = block(
                vec![let_(10, &el, unbox(v(0))), let_(11, &bt, new(v(10)))],
                tup(&rt, vec![unbox(v(11)), bin(Binop::Add, &el, v(10), lit(&el, 1))]),
            );
            a.add("box", vec![], vec![], vec![func(inl, &[(0, bt.clone())], &rt, body), func(None, &[(0, el.clone())], &rt, call(0, vec![new(v(0))]))]);
        }
        // loop-carried box
        let body = block(
            vec![
                let_(10, &bt, new(v(0))),
                let_(11, &u32t(), lit(&u32t(), 0)),
                Stmt::Expr(Expr::While(
                    4,
                    b(bin(Binop::Lt, &u32t(), v(11), v(1))),
                    b(block(
                        vec![
                            Stmt::Expr(Expr::Assign(11, b(bin(Binop::Add, &u32t(), v(11), lit(&u32t(), 1))))),
                            Stmt::Expr(Expr::Assign(10, b(new(if el == Ty::Felt { bin(Binop::Add, &el, unbox(v(10)), lit(&el, 3)) } else { arith(ArithK::Wrapping, Binop::Add, &el, unbox(v(10)), lit(&el, 3)) })))),
                        ],
                        unit_expr(),
                    )),
                )),
            ],
            unbox(v(10)),
        );
        a.add_v(
            "box",
            vec![],
            vec![],
            vec![func(None, &[(0, el.clone()), (1, u32t())], &el, body)],
            (0..4u32).map(|k| vec![bv(&el, k as usize * 3), Val::Int(BigInt::from(k))]).collect(),
        );
    }
    // members of an unboxed struct, re-boxed
    let st = Ty::Struct(0);
    let bs = boxed(&st);
    let bf = boxed(&Ty::Felt);
    for member in 0..2usize {
        for inl in [Some(false), None] {
            let body = Expr::BoxNew(b(Expr::Proj(st.clone(), member, b(Expr::Unbox(b(v(0)))))));
            let f = func(inl, &[(0, bs.clone())], &bf, body);
            let e = func(
                None,
                &[(0, Ty::Felt), (1, Ty::Felt)],
                &Ty::Felt,
                Expr::Unbox(b(call(0, vec![Expr::BoxNew(b(tup(&st, vec![v(0), v(1)])))]))),
            );
            a.add("box", s2.clone(), vec![], vec![f, e]);
            // through a destructuring
            let body = block(vec![Stmt::LetTup(vec![10, 11], st.clone(), Expr::Unbox(b(v(0))))], Expr::BoxNew(b(v(10 + member))));
            let f = func(inl, &[(0, bs.clone())], &bf, body);
            let e = func(
                None,
                &[(0, Ty::Felt), (1, Ty::Felt)],
                &Ty::Felt,
                Expr::Unbox(b(call(0, vec![Expr::BoxNew(b(tup(&st, vec![v(0), v(1)])))]))),
            );
            a.add("box", s2.clone(), vec![], vec![f, e]);
            // member of one of two boxes depending on a condition
            let body = block(
                vec![let_(10, &Ty::Felt, if_(v(2), Expr::Proj(st.clone(), member, b(Expr::Unbox(b(v(0))))), Expr::Proj(st.clone(), 1 - member, b(Expr::Unbox(b(v(1)))))))],
                Expr::BoxNew(b(v(10))),
            );
            let f = func(inl, &[(0, bs.clone()), (1, bs.clone()), (2, Ty::Bool)], &bf, body);
            let e = func(
                None,
                &[(0, Ty::Felt), (1, Ty::Felt), (2, Ty::Bool)],
                &Ty::Felt,
                Expr::Unbox(b(call(
                    0,
                    vec![Expr::BoxNew(b(tup(&st, vec![v(0), v(1)]))), Expr::BoxNew(b(tup(&st, vec![v(1), v(0)]))), v(2)],
                ))),
            );
            a.add("box", s2.clone(), vec![], vec![f, e]);
        }
    }
}

fn family_branch(a: &mut Acc) {
    let t = ti(Ity::U8);
    let f = Ty::Felt;
    // negated conditions
    let conds: Vec<Expr> = vec![
        Expr::Un(Unop::Not, Ty::Bool, b(v(0))),
        Expr::Un(Unop::Not, Ty::Bool, b(Expr::Un(Unop::Not, Ty::Bool, b(v(0))))),
        Expr::Un(Unop::Not, Ty::Bool, b(bin(Binop::Lt, &t, v(1), v(2)))),
        Expr::Un(Unop::Not, Ty::Bool, b(bin(Binop::Eq, &t, v(1), v(2)))),
        Expr::AndAlso(b(Expr::Un(Unop::Not, Ty::Bool, b(v(0)))), b(bin(Binop::Ge, &t, v(1), v(2)))),
        Expr::OrElse(b(Expr::Un(Unop::Not, Ty::Bool, b(v(0)))), b(Expr::Un(Unop::Not, Ty::Bool, b(bin(Binop::Ne, &t, v(1), v(2)))))),
    ];
    for c in conds {
        let params = [(0, Ty::Bool), (1, t.clone()), (2, t.clone())];
        a.add("branch", vec![], vec![], vec![func(None, &params, &t, if_(c.clone(), v(1), v(2)))]);
        // the negated value is used again after the branch
        let rt = tt(vec![t.clone(), Ty::Bool]);
        let body = block(vec![let_(10, &Ty::Bool, c.clone()), let_(11, &t, if_(v(10), v(1), v(2)))], tup(&rt, vec![v(11), v(10)]));
        a.add("branch", vec![], vec![], vec![func(None, &params, &rt, body)]);
        // as a while condition
        let body = block(
            vec![
                let_(10, &u32t(), lit(&u32t(), 0)),
                Stmt::Expr(Expr::While(
                    3,
                    b(Expr::AndAlso(b(bin(Binop::Lt, &u32t(), v(10), lit(&u32t(), 3))), b(c.clone()))),
                    b(block(vec![Stmt::Expr(Expr::Assign(10, b(bin(Binop::Add, &u32t(), v(10), lit(&u32t(), 1)))))], unit_expr())),
                )),
            ],
            v(10),
        );
        a.add("branch", vec![], vec![], vec![func(None, &params, &u32t(), body)]);
    }
    // match on a value constructed just before (match_optimizer), payload used / unused
    let enums = vec![vec![t.clone(), t.clone(), Ty::unit()]];
    let et = Ty::Enum(0);
    let ctor = |k: usize, e: Expr| Expr::Enum(et.clone(), k, b(e));
    for (k0, k1) in [(0usize, 1usize), (1, 0), (0, 0), (0, 2), (2, 1)] {
        let mk = |k: usize, x: usize| if k == 2 { ctor(2, unit_expr()) } else { ctor(k, v(x)) };
        let scrut = if_(v(0), mk(k0, 1), mk(k1, 2));
        let arms = vec![(10, bin(Binop::Add, &f, Expr::Cast(CastK::Into, t.clone(), f.clone(), b(v(10))), lit(&f, 100))), (11, Expr::Cast(CastK::Into, t.clone(), f.clone(), b(v(11)))), (12, lit(&f, 7))];
        let params = [(0, Ty::Bool), (1, t.clone()), (2, t.clone())];
        a.add("branch", vec![], enums.clone(), vec![func(None, &params, &f, Expr::Match(et.clone(), b(scrut.clone()), arms.clone()))]);
        // through a variable that is matched twice
        let rt = tt(vec![f.clone(), f.clone()]);
        let body = block(
            vec![let_(20, &et, scrut.clone())],
            tup(&rt, vec![Expr::Match(et.clone(), b(v(20)), arms.clone()), Expr::Match(et.clone(), b(v(20)), vec![(13, lit(&f, 1)), (14, lit(&f, 2)), (15, lit(&f, 3))])]),
        );
        a.add("branch", vec![], enums.clone(), vec![func(None, &params, &rt, body)]);
        // constructed by a helper (inlined or not)
        for inl in [Some(false), Some(true), None] {
            let h = func(inl, &params, &et, scrut.clone());
            let e = func(None, &params, &f, Expr::Match(et.clone(), b(call(0, vec![v(0), v(1), v(2)])), arms.clone()));
            a.add("branch", vec![], enums.clone(), vec![h, e]);
        }
        // nested match on the same scrutinee
        let inner = |base: i32| {
            Expr::Match(et.clone(), b(v(20)), vec![(16, lit(&f, base)), (17, lit(&f, base + 1)), (18, lit(&f, base + 2))])
        };
        let body = block(vec![let_(20, &et, scrut.clone())], Expr::Match(et.clone(), b(v(20)), vec![(10, inner(10)), (11, inner(20)), (12, inner(30))]));
        a.add("branch", vec![], enums.clone(), vec![func(None, &params, &f, body)]);
    }
    // arms with identical / nearly identical bodies (dedup_blocks)
    for (x0, x1, x2) in [(1, 1, 1), (1, 1, 2), (1, 2, 1), (2, 1, 1)] {
        let arm = |var: usize, k: i32| bin(Binop::Add, &t, v(var), lit(&t, k));
        let body = Expr::Match(et.clone(), b(if_(v(0), ctor(0, v(1)), ctor(1, v(1)))), vec![(10, arm(10, x0)), (11, arm(11, x1)), (12, lit(&t, x2))]);
        a.add("branch", vec![], enums.clone(), vec![func(None, &[(0, Ty::Bool), (1, t.clone())], &t, body)]);
        let body = if_(v(0), arm(1, x0), arm(1, x1));
        a.add("branch", vec![], vec![], vec![func(None, &[(0, Ty::Bool), (1, t.clone())], &t, body)]);
        // identical blocks that differ only in the panic message
        let body = block(
            vec![Stmt::Expr(if_(
                v(0),
                Expr::Assert(b(bin(Binop::Gt, &t, v(1), lit(&t, x0))), PanicMsg::Short("left".into())),
                Expr::Assert(b(bin(Binop::Gt, &t, v(1), lit(&t, x1))), PanicMsg::Short(if x2 == 1 { "left".into() } else { "right".into() })),
            ))],
            v(1),
        );
        a.add("branch", vec![], vec![], vec![func(None, &[(0, Ty::Bool), (1, t.clone())], &t, body)]);
    }
    // early returns inside arms
    let ot = opt(&t);
    let body = block(
        vec![let_(10, &t, Expr::Match(ot.clone(), b(v(0)), vec![(11, block(vec![Stmt::Expr(if_(bin(Binop::Eq, &t, v(11), lit(&t, 0)), block(vec![], ret_(lit(&t, 99))), unit_expr()))], v(11))), (12, Expr::Return(t.clone(), b(v(1))))]))],
        bin(Binop::Add, &t, v(10), lit(&t, 1)),
    );
    let h = func(Some(false), &[(0, ot.clone()), (1, t.clone())], &t, body);
    let e = func(None, &[(0, Ty::Bool), (1, t.clone()), (2, t.clone())], &t, call(0, vec![if_(v(0), some(&t, v(1)), none(&t)), v(2)]));
    a.add("branch", vec![], vec![], vec![h, e]);
    // numeric match around the jump-table thresholds (8 arms for small types, 10 for felt252)
    for st in [ti(Ity::U8), ti(Ity::U128), Ty::Felt] {
        for n in [1usize, 2, 6, 7, 8, 9, 10, 11] {
            let arms: Vec<Expr> = (0..n).map(|k| lit(&f, 100 + 3 * k as i32)).collect();
            let body = Expr::MatchInt(st.clone(), b(v(0)), arms, b(lit(&f, 55)));
            let vs: Vec<Vec<Val>> = (0..=(n as u32 + 1)).map(|k| vec![Val::Int(BigInt::from(k))]).chain(bvals(&st).into_iter().rev().take(2).map(|x| vec![x])).collect();
            a.add_v("branch", vec![], vec![], vec![func(None, &[(0, st.clone())], &f, body)], vs);
        }
    }
}

fn family_cse(a: &mut Acc) {
    for t in [ti(Ity::U8), ti(Ity::I16), Ty::Felt] {
        let p2 = [(0, t.clone()), (1, t.clone())];
        let rt2 = tt(vec![t.clone(), t.clone()]);
        for o in [Binop::Add, Binop::Sub, Binop::Mul] {
            // the same expression twice
            a.add("cse", vec![], vec![], vec![func(None, &p2, &rt2, tup(&rt2, vec![bin(o, &t, v(0), v(1)), bin(o, &t, v(0), v(1))]))]);
            // operands exchanged (not the same expression for - )
            a.add("cse", vec![], vec![], vec![func(None, &p2, &rt2, tup(&rt2, vec![bin(o, &t, v(0), v(1)), bin(o, &t, v(1), v(0))]))]);
            // same expression, an operand reassigned in between
            let body = block(
                vec![let_(10, &t, bin(o, &t, v(0), v(1))), Stmt::Expr(Expr::Assign(0, b(v(1)))), let_(11, &t, bin(o, &t, v(0), v(1)))],
                tup(&rt2, vec![v(10), v(11)]),
            );
            a.add("cse", vec![], vec![], vec![func(None, &p2, &rt2, body)]);
            // unused value of a panicking operation: the panic stays
            let body = block(vec![let_(10, &t, bin(o, &t, v(0), v(1)))], v(0));
            a.add("cse", vec![], vec![], vec![func(None, &p2, &t, body)]);
            // order of two possible panics
            if t != Ty::Felt {
                let body = block(
                    vec![let_(10, &t, bin(o, &t, v(0), lit(&t, 1))), let_(11, &t, bin(Binop::Div, &t, v(0), v(1))), Stmt::Expr(Expr::Assert(b(bin(Binop::Ne, &t, v(1), lit(&t, 1))), PanicMsg::Short("third".into())))],
                    tup(&rt2, vec![v(11), v(10)]),
                );
                a.add("cse", vec![], vec![], vec![func(None, &p2, &rt2, body)]);
            }
        }
        // snapshot of a variable that is changed afterwards
        let st = Ty::Snap(Box::new(t.clone()));
        let body = block(
            vec![let_(10, &t, v(0)), let_(11, &st, Expr::Snap(b(v(10)))), Stmt::Expr(Expr::Assign(10, b(v(1)))), let_(12, &st, Expr::Snap(b(v(10))))],
            tup(&tt(vec![t.clone(), t.clone(), t.clone()]), vec![Expr::Desnap(b(v(11))), v(10), Expr::Desnap(b(v(12)))]),
        );
        a.add("cse", vec![], vec![], vec![func(None, &p2, &tt(vec![t.clone(), t.clone(), t.clone()]), body)]);
        // construct, destructure, reconstruct
        let body = block(
            vec![let_(10, &rt2, tup(&rt2, vec![v(0), v(1)])), Stmt::LetTup(vec![11, 12], rt2.clone(), v(10)), let_(13, &rt2, tup(&rt2, vec![v(12), v(11)])), Stmt::LetTup(vec![14, 15], rt2.clone(), v(13))],
            tup(&tt(vec![rt2.clone(), t.clone(), t.clone()]), vec![v(10), v(14), v(15)]),
        );
        a.add("cse", vec![], vec![], vec![func(None, &p2, &tt(vec![rt2.clone(), t.clone(), t.clone()]), body)]);
    }
    // the same call twice, the callee has an effect through `ref`
    let t = u32t();
    let bump = FnDecl {
        inline: Some(false),
        params: vec![Param { name: 0, ty: t.clone(), by_ref: true }, Param { name: 1, ty: t.clone(), by_ref: false }],
        ret: t.clone(),
        body: block(vec![Stmt::Expr(Expr::Assign(0, b(arith(ArithK::Wrapping, Binop::Add, &t, v(0), v(1)))))], v(0)),
    };
    for inl in [Some(false), Some(true), None] {
        let mut bump = bump.clone();
        bump.inline = inl;
        let rt = tt(vec![t.clone(), t.clone(), t.clone()]);
        let c = |x: usize| Expr::Call(0, vec![Arg::Ref(x), Arg::Val(v(1))]);
        let body = block(vec![let_(10, &t, v(0)), let_(11, &t, c(10)), let_(12, &t, c(10))], tup(&rt, vec![v(11), v(12), v(10)]));
        a.add("cse", vec![], vec![], vec![bump.clone(), func(None, &[(0, t.clone()), (1, t.clone())], &rt, body)]);
        // the `ref` variable also passed by value, and read in an argument with an assignment
        let body = block(
            vec![let_(10, &t, v(0)), let_(11, &t, Expr::Call(0, vec![Arg::Ref(10), Arg::Val(block(vec![Stmt::Expr(Expr::Assign(10, b(v(1))))], v(10)))]))],
            tup(&tt(vec![t.clone(), t.clone()]), vec![v(11), v(10)]),
        );
        a.add("cse", vec![], vec![], vec![bump, func(None, &[(0, t.clone()), (1, t.clone())], &tt(vec![t.clone(), t.clone()]), body)]);
    }
    // unused results of failing library calls
    let t8 = ti(Ity::U8);
    let o8 = opt(&t8);
    let body = block(vec![let_(10, &t8, Expr::Unwrap(None, false, b(if_(v(0), some(&t8, v(1)), none(&t8)))))], v(1));
    a.add("cse", vec![], vec![], vec![func(None, &[(0, Ty::Bool), (1, t8.clone())], &t8, body)]);
    let body = block(vec![let_(10, &o8, Expr::Cast(CastK::Try, ti(Ity::U16), t8.clone(), b(v(0)))), let_(11, &t8, Expr::Unwrap(Some("un".into()), false, b(v(10))))], lit(&t8, 3));
    a.add("cse", vec![], vec![], vec![func(None, &[(0, ti(Ity::U16))], &t8, body)]);
}

fn family_params(a: &mut Acc) {
    let t = ti(Ity::U8);
    let f = Ty::Felt;
    for inl in [Some(false), Some(true), None] {
        // unused parameters in the middle / at the ends
        for unused in 0..3usize {
            let used: Vec<usize> = (0..3).filter(|k| *k != unused).collect();
            let h = func(inl, &[(0, t.clone()), (1, t.clone()), (2, t.clone())], &t, arith(ArithK::Wrapping, Binop::Sub, &t, v(used[0]), v(used[1])));
            let e = func(None, &[(0, t.clone()), (1, t.clone()), (2, t.clone())], &t, call(0, vec![v(0), v(1), v(2)]));
            a.add("params", vec![], vec![], vec![h, e]);
        }
        // recursion with an unused parameter and one that is only passed along
        let body = if_(
            bin(Binop::Eq, &u32t(), v(0), lit(&u32t(), 0)),
            v(2),
            call(0, vec![bin(Binop::Sub, &u32t(), v(0), lit(&u32t(), 1)), v(1), arith(ArithK::Wrapping, Binop::Add, &t, v(2), v(3)), v(3)]),
        );
        let rec_inl = if inl == Some(true) { None } else { inl }; // a recursive function cannot be inline(always)
        let h = func(rec_inl, &[(0, u32t()), (1, f.clone()), (2, t.clone()), (3, t.clone())], &t, body);
        let e = func(None, &[(0, t.clone()), (1, t.clone())], &t, call(0, vec![lit(&u32t(), 3), lit(&f, 5), v(0), v(1)]));
        a.add("params", vec![], vec![], vec![h, e]);
        // calls with constant arguments (specialisation): every subset of constant positions
        let pow = func(
            rec_inl,
            &[(0, f.clone()), (1, u32t())],
            &f,
            if_(bin(Binop::Eq, &u32t(), v(1), lit(&u32t(), 0)), lit(&f, 1), bin(Binop::Mul, &f, v(0), call(0, vec![v(0), bin(Binop::Sub, &u32t(), v(1), lit(&u32t(), 1))]))),
        );
        for (cb, cn) in [(false, true), (true, false), (true, true), (false, false)] {
            let base = if cb { lit(&f, p0() - 1) } else { v(0) };
            let n = if cn { lit(&u32t(), 3) } else { v(1) };
            let e = func(None, &[(0, f.clone()), (1, u32t())], &f, call(0, vec![base, n]));
            let vs: Vec<Vec<Val>> = (0..5u32).map(|k| vec![bv(&f, k as usize * 2), Val::Int(BigInt::from(k))]).collect();
            a.add_v("params", vec![], vec![], vec![pow.clone(), e], vs);
        }
        // inlining a function with an early return, a panic and a `ref` parameter
        let h = FnDecl {
            inline: inl,
            params: vec![Param { name: 0, ty: t.clone(), by_ref: true }, Param { name: 1, ty: t.clone(), by_ref: false }],
            ret: t.clone(),
            body: block(
                vec![
                    Stmt::Expr(if_(bin(Binop::Eq, &t, v(1), lit(&t, 0)), block(vec![], ret_(v(0))), unit_expr())),
                    Stmt::Expr(Expr::Assign(0, b(bin(Binop::Add, &t, v(0), v(1))))),
                    Stmt::Expr(Expr::Assert(b(bin(Binop::Ne, &t, v(0), lit(&t, 7))), PanicMsg::Short("seven".into()))),
                ],
                bin(Binop::Mul, &t, v(0), lit(&t, 2)),
            ),
        };
        let rt = tt(vec![t.clone(), t.clone()]);
        let body = block(vec![let_(10, &t, v(0)), let_(11, &t, Expr::Call(0, vec![Arg::Ref(10), Arg::Val(v(1))]))], tup(&rt, vec![v(11), v(10)]));
        a.add("params", vec![], vec![], vec![h, func(None, &[(0, t.clone()), (1, t.clone())], &rt, body)]);
    }
}

fn family_array(a: &mut Acc) {
    for el in [ti(Ity::U16), Ty::Felt] {
        let at = Ty::Arr(Box::new(el.clone()));
        let sat = Ty::Snap(Box::new(at.clone()));
        let app = |e: Expr| Stmt::Expr(Expr::ArrAppend(10, b(e)));
        let idx = |k: u32| lit(&u32t(), k);
        let prefix = |contents: Vec<Expr>| -> Vec<Stmt> {
            let mut s = vec![let_(10, &at, Expr::ArrNew(el.clone()))];
            s.extend(contents.into_iter().map(&app));
            s
        };
        let params = [(0, el.clone()), (1, Ty::Bool)];
        for contents in [vec![], vec![lit(&el, 5)], vec![lit(&el, 5), v(0), lit(&el, 9)], vec![v(0), v(0)]] {
            let n = contents.len() as u32;
            // length, directly and through a snapshot
            a.add("array", vec![], vec![], vec![func(None, &params, &u32t(), block(prefix(contents.clone()), Expr::ArrLen(10)))]);
            let mut s = prefix(contents.clone());
            s.push(let_(11, &sat, Expr::Snap(b(v(10)))));
            a.add("array", vec![], vec![], vec![func(None, &params, &u32t(), block(s, Expr::ArrLen(11)))]);
            // element at every literal index up to one past the end
            for k in 0..=n {
                a.add("array", vec![], vec![], vec![func(None, &params, &el, block(prefix(contents.clone()), Expr::ArrAt(10, b(idx(k)))))]);
            }
            // pop_front then look again
            let ot = opt(&el);
            let rt = tt(vec![ot.clone(), u32t(), ot.clone()]);
            let mut s = prefix(contents.clone());
            s.push(let_(11, &ot, Expr::ArrPop(10)));
            s.push(let_(12, &u32t(), Expr::ArrLen(10)));
            s.push(let_(13, &ot, Expr::ArrPop(10)));
            a.add("array", vec![], vec![], vec![func(None, &params, &rt, block(s, tup(&rt, vec![v(11), v(12), v(13)])))]);
            // an append on one path only, then length and element
            let mut s = prefix(contents.clone());
            s.push(Stmt::Expr(if_(v(1), block(vec![app(lit(&el, 77))], unit_expr()), unit_expr())));
            let rt = tt(vec![u32t(), el.clone()]);
            s.push(let_(11, &u32t(), Expr::ArrLen(10)));
            a.add("array", vec![], vec![], vec![func(None, &params, &rt, block(s, tup(&rt, vec![v(11), Expr::ArrAt(10, b(idx(n)))])))]);
            // snapshot taken before an append
            let mut s = prefix(contents.clone());
            s.push(let_(11, &sat, Expr::Snap(b(v(10)))));
            s.push(app(v(0)));
            let rt = tt(vec![u32t(), u32t()]);
            a.add("array", vec![], vec![], vec![func(None, &params, &rt, block(s, tup(&rt, vec![Expr::ArrLen(11), Expr::ArrLen(10)])))]);
            // passed to a helper by snapshot / by ref
            let h = func(Some(false), &[(0, sat.clone()), (1, u32t())], &el, Expr::ArrAt(0, b(v(1))));
            let mut s = prefix(contents.clone());
            s.push(let_(11, &sat, Expr::Snap(b(v(10)))));
            a.add("array", vec![], vec![], vec![h, func(None, &params, &el, block(s, call(0, vec![v(11), idx(1)])))]);
        }
        // appended in a loop, popped until empty
        let body = block(
            vec![
                let_(10, &at, Expr::ArrNew(el.clone())),
                let_(11, &u32t(), lit(&u32t(), 0)),
                Stmt::Expr(Expr::While(
                    4,
                    b(bin(Binop::Lt, &u32t(), v(11), v(1))),
                    b(block(vec![Stmt::Expr(Expr::Assign(11, b(bin(Binop::Add, &u32t(), v(11), lit(&u32t(), 1))))), app(v(0))], unit_expr())),
                )),
                let_(12, &u32t(), lit(&u32t(), 0)),
                Stmt::Expr(Expr::Loop(
                    6,
                    Ty::unit(),
                    b(block(
                        vec![Stmt::Expr(Expr::Match(
                            opt(&el),
                            b(Expr::ArrPop(10)),
                            vec![(13, Expr::Assign(12, b(bin(Binop::Add, &u32t(), v(12), lit(&u32t(), 1))))), (14, block(vec![], Expr::Break(Ty::unit(), b(unit_expr()))))],
                        ))],
                        unit_expr(),
                    )),
                )),
            ],
            tup(&tt(vec![u32t(), u32t()]), vec![v(12), Expr::ArrLen(10)]),
        );
        let vs: Vec<Vec<Val>> = (0..5u32).map(|k| vec![bv(&el, k as usize), Val::Int(BigInt::from(k))]).collect();
        a.add_v("array", vec![], vec![], vec![func(None, &[(0, el.clone()), (1, u32t())], &tt(vec![u32t(), u32t()]), body)], vs);
    }
}

fn family_loops(a: &mut Acc) {
    for t in [Ty::Felt, ti(Ity::U64)] {
        let pt = tt(vec![t.clone(), t.clone()]);
        let addw = |x: Expr, y: Expr| if t == Ty::Felt { bin(Binop::Add, &t, x, y) } else { arith(ArithK::Wrapping, Binop::Add, &t, x, y) };
        let counter = |body: Vec<Stmt>| -> Stmt {
            let mut s = vec![Stmt::Expr(Expr::Assign(20, b(bin(Binop::Add, &u32t(), v(20), lit(&u32t(), 1)))))];
            s.extend(body);
            Stmt::Expr(Expr::While(5, b(bin(Binop::Lt, &u32t(), v(20), v(2))), b(block(s, unit_expr()))))
        };
        let params = [(0, t.clone()), (1, t.clone()), (2, u32t())];
        let vs: Vec<Vec<Val>> = (0..5u32).map(|k| vec![bv(&t, k as usize + 1), bv(&t, 2 * k as usize + 4), Val::Int(BigInt::from(k))]).collect();
        // swap two variables each iteration, through a tuple
        let body = block(
            vec![
                let_(10, &t, v(0)),
                let_(11, &t, v(1)),
                let_(20, &u32t(), lit(&u32t(), 0)),
                counter(vec![Stmt::LetTup(vec![12, 13], pt.clone(), tup(&pt, vec![v(11), v(10)])), Stmt::Expr(Expr::Assign(10, b(v(12)))), Stmt::Expr(Expr::Assign(11, b(v(13))))]),
            ],
            tup(&pt, vec![v(10), v(11)]),
        );
        a.add_v("loops", vec![], vec![], vec![func(None, &params, &pt, body)], vs.clone());
        // a pair carried as one variable, rebuilt permuted
        let body = block(
            vec![
                let_(10, &pt, tup(&pt, vec![v(0), v(1)])),
                let_(20, &u32t(), lit(&u32t(), 0)),
                counter(vec![Stmt::LetTup(vec![12, 13], pt.clone(), v(10)), Stmt::Expr(Expr::Assign(10, b(tup(&pt, vec![v(13), addw(v(12), v(13))]))))]),
            ],
            v(10),
        );
        a.add_v("loops", vec![], vec![], vec![func(None, &params, &pt, body)], vs.clone());
        // one variable unchanged by the loop, one changed, one only read
        let body = block(
            vec![let_(10, &t, v(0)), let_(11, &t, v(1)), let_(20, &u32t(), lit(&u32t(), 0)), counter(vec![Stmt::Expr(Expr::Assign(10, b(addw(v(10), v(11)))))])],
            tup(&pt, vec![v(10), v(11)]),
        );
        a.add_v("loops", vec![], vec![], vec![func(None, &params, &pt, body)], vs.clone());
        // break with a value built from loop-carried variables, in either order
        for (x, y) in [(10, 11), (11, 10), (10, 10)] {
            let lp = Expr::Loop(
                6,
                pt.clone(),
                b(block(
                    vec![
                        Stmt::Expr(if_(bin(Binop::Ge, &u32t(), v(20), v(2)), block(vec![], Expr::Break(Ty::unit(), b(tup(&pt, vec![v(x), v(y)])))), unit_expr())),
                        Stmt::Expr(Expr::Assign(20, b(bin(Binop::Add, &u32t(), v(20), lit(&u32t(), 1))))),
                        Stmt::Expr(Expr::Assign(10, b(addw(v(10), lit(&t, 1))))),
                        Stmt::Expr(Expr::Assign(11, b(addw(v(11), v(10))))),
                    ],
                    unit_expr(),
                )),
            );
            let body = block(vec![let_(10, &t, v(0)), let_(11, &t, v(1)), let_(20, &u32t(), lit(&u32t(), 0))], lp);
            a.add_v("loops", vec![], vec![], vec![func(None, &params, &pt, body)], vs.clone());
        }
    }
}

pub fn all_shapes(tier: &str) -> Vec<Shape> {
    let mut a = Acc { out: vec![] };
    family_arith(&mut a, tier);
    family_felt(&mut a);
    family_cast(&mut a, tier);
    family_destruct(&mut a, tier);
    family_rewrap(&mut a);
    family_box(&mut a);
    family_branch(&mut a);
    family_cse(&mut a);
    family_params(&mut a);
    family_array(&mut a);
    family_loops(&mut a);
    let _ = (BigInt::zero(), BigInt::one());
    a.out
}
