//! Typed random program generator (grammar- and type-directed, budgets on size / depth / cost).
//! Every program terminates by construction: loops carry a counter the body cannot assign,
//! recursion carries a depth parameter that strictly decreases, calls go to earlier functions.
use crate::ast::*;
use num_bigint::BigInt;
use num_traits::{One, Zero};
use std::collections::BTreeMap;
use vcommon::Rng;

#[derive(Clone, Copy, Debug)]
pub struct Features {
    pub tuples: bool,
    pub enums: bool,
    pub loops: bool,
    pub refs: bool,
    pub recursion: bool,
    pub arrays: bool,
    pub snaps: bool,
    pub matchint: bool,
    pub trys: bool,
}
impl Features {
    pub fn all() -> Self {
        Features {
            tuples: true,
            enums: true,
            loops: true,
            refs: true,
            recursion: true,
            arrays: true,
            snaps: true,
            matchint: true,
            trys: true,
        }
    }
    pub fn from_env() -> Self {
        let mut f = Self::all();
        if let Ok(s) = std::env::var("H01_FEATURES") {
            let on = |k: &str| s.split(',').any(|x| x == k || x == "all");
            f = Features {
                tuples: on("tuples"),
                enums: on("enums"),
                loops: on("loops"),
                refs: on("refs"),
                recursion: on("recursion"),
                arrays: on("arrays"),
                snaps: on("snaps"),
                matchint: on("matchint"),
                trys: on("trys"),
            };
        }
        f
    }
}

#[derive(Clone, Debug)]
struct Var {
    id: usize,
    ty: Ty,
    assignable: bool,
}

#[derive(Clone, Debug)]
struct Sig {
    params: Vec<Param>,
    ret: Ty,
    /// first parameter is the recursion depth
    recursive: bool,
}

#[derive(Default, Clone, Debug)]
pub struct Stats {
    pub constructs: BTreeMap<&'static str, u64>,
    pub max_depth: u32,
    pub nodes: u64,
    pub regenerated_for_cost: u64,
}
impl Stats {
    fn hit(&mut self, k: &'static str) {
        *self.constructs.entry(k).or_default() += 1;
    }
}

pub struct Gen<'a> {
    pub rng: &'a mut Rng,
    pub feat: Features,
    pub stats: &'a mut Stats,
    prog: Program,
    sigs: Vec<Sig>,
    scope: Vec<Var>,
    next_var: usize,
    ret: Ty,
    /// break type of the enclosing loops (innermost last); None = `while` (bare break only)
    loops: Vec<Option<Ty>>,
    cur_fn: usize,
    cur_recursive: bool,
    self_calls_left: u32,
    budget: i32,
    allow_return: bool,
    /// inside an inline-macro argument (assert!): no loops there, see corpus/C01/loop_in_macro.cairo
    in_macro: bool,
}

const SMALL_ITYS: [Ity; 10] = ITYS;

pub fn rand_in_range(rng: &mut Rng, i: Ity) -> BigInt {
    let span: BigInt = i.hi() - i.lo() + 1;
    let r = rng.bits(i.bits() + 8) % &span;
    i.lo() + r
}

/// a literal of integer type: small / boundary / uniform
pub fn pick_int(rng: &mut Rng, i: Ity, benign: bool) -> BigInt {
    let k = rng.below(100);
    let small_cut = if benign { 80 } else { 72 };
    if k < small_cut {
        let v = BigInt::from(rng.below(if benign { 6 } else { 12 }));
        if i.signed() && rng.below(4) == 0 { -v } else { v }
    } else if k < small_cut + 13 && !benign {
        let c = rng.below(6);
        match c {
            0 => i.hi(),
            1 => i.lo(),
            2 => i.hi() - 1,
            3 => i.lo() + 1,
            4 => {
                if i.signed() {
                    -BigInt::one()
                } else {
                    BigInt::one() << (i.bits() / 2)
                }
            }
            _ => (BigInt::one() << (i.bits() / 2)) - 1,
        }
    } else if benign {
        BigInt::from(rng.below(100))
    } else {
        rand_in_range(rng, i)
    }
}
pub fn pick_felt(rng: &mut Rng, benign: bool) -> BigInt {
    let p = vcommon::stark_prime();
    let k = rng.below(100);
    if k < 60 || benign {
        BigInt::from(rng.below(16))
    } else if k < 80 {
        match rng.below(5) {
            0 => &p - 1,
            1 => &p - 2,
            2 => BigInt::one() << 128,
            3 => (BigInt::one() << 251) - 1,
            _ => (&p - 1) / 2,
        }
    } else {
        rng.bits(256) % p
    }
}

impl<'a> Gen<'a> {
    pub fn new(rng: &'a mut Rng, feat: Features, stats: &'a mut Stats, tag: String) -> Self {
        Gen {
            rng,
            feat,
            stats,
            prog: Program { tag, structs: vec![], enums: vec![], fns: vec![] },
            sigs: vec![],
            scope: vec![],
            next_var: 0,
            ret: Ty::unit(),
            loops: vec![],
            cur_fn: 0,
            cur_recursive: false,
            self_calls_left: 0,
            budget: 0,
            allow_return: true,
            in_macro: false,
        }
    }

    fn chance(&mut self, pct: u64) -> bool {
        self.rng.below(100) < pct
    }
    fn fresh(&mut self) -> usize {
        self.next_var += 1;
        self.next_var - 1
    }

    // ---------------- types ----------------
    fn scalar_ty(&mut self) -> Ty {
        let k = self.rng.below(100);
        if k < 70 {
            Ty::Int(*self.rng.pick(&SMALL_ITYS))
        } else if k < 85 {
            Ty::Felt
        } else {
            Ty::Bool
        }
    }
    /// a copyable, returnable type
    fn data_ty(&mut self, depth: u32) -> Ty {
        let k = self.rng.below(100);
        if depth == 0 || k < 55 {
            return self.scalar_ty();
        }
        if k < 65 && self.feat.tuples {
            let n = 1 + self.rng.below(3) as usize;
            return Ty::Tup((0..n).map(|_| self.data_ty(depth - 1)).collect());
        }
        if k < 72 && self.feat.tuples && !self.prog.structs.is_empty() {
            return Ty::Struct(self.rng.below(self.prog.structs.len() as u64) as usize);
        }
        if k < 80 && self.feat.enums && !self.prog.enums.is_empty() {
            return Ty::Enum(self.rng.below(self.prog.enums.len() as u64) as usize);
        }
        if k < 90 && self.feat.enums {
            return Ty::Opt(Box::new(self.data_ty(depth - 1)));
        }
        if k < 96 && self.feat.enums {
            return Ty::Res(Box::new(self.data_ty(depth - 1)), Box::new(self.scalar_ty()));
        }
        if self.feat.snaps {
            return Ty::Snap(Box::new(self.data_ty(depth - 1)));
        }
        self.scalar_ty()
    }

    fn plain_ty(&mut self, depth: u32) -> Ty {
        let t = self.data_ty(depth);
        if contains_snap(&t) { self.scalar_ty() } else { t }
    }

    fn declare_types(&mut self) {
        if self.feat.tuples {
            let n = self.rng.below(3) as usize;
            for _ in 0..n {
                let m = 1 + self.rng.below(3) as usize;
                let ms = (0..m).map(|_| self.plain_ty(1)).collect();
                self.prog.structs.push(ms);
            }
        }
        if self.feat.enums {
            let n = self.rng.below(3) as usize;
            for _ in 0..n {
                let m = 1 + self.rng.below(4) as usize;
                let vs = (0..m).map(|_| if self.chance(30) { Ty::unit() } else { self.plain_ty(1) }).collect();
                self.prog.enums.push(vs);
            }
        }
    }

    // ---------------- leaves ----------------
    fn vars_of(&self, ty: &Ty) -> Vec<usize> {
        // visible = last binding of each id wins; ids are unique except for same-typed shadowing
        self.scope.iter().filter(|v| &v.ty == ty).map(|v| v.id).collect()
    }
    fn default_expr(&mut self, ty: &Ty, benign: bool) -> Expr {
        match ty {
            Ty::Int(i) => Expr::Lit(ty.clone(), pick_int(self.rng, *i, benign)),
            Ty::Felt => Expr::Lit(Ty::Felt, pick_felt(self.rng, benign)),
            Ty::Bool => Expr::Bool(self.rng.bool()),
            Ty::Tup(_) | Ty::Struct(_) => {
                let ms = self.prog.members(ty);
                Expr::Tup(ty.clone(), ms.iter().map(|m| self.leaf(m)).collect())
            }
            Ty::Enum(_) | Ty::Opt(_) | Ty::Res(..) => {
                let vs = self.prog.variants(ty);
                let i = self.rng.below(vs.len() as u64) as usize;
                let p = if matches!(ty, Ty::Opt(_)) && i == 1 { unit_expr() } else { self.leaf(&vs[i]) };
                Expr::Enum(ty.clone(), i, Box::new(p))
            }
            Ty::Snap(t) => Expr::Snap(Box::new(self.leaf(t))),
            Ty::Boxed(t) => Expr::BoxNew(Box::new(self.leaf(t))),
            Ty::Arr(_) => panic!("no array leaves"),
        }
    }
    fn leaf(&mut self, ty: &Ty) -> Expr {
        self.stats.nodes += 1;
        let vs = self.vars_of(ty);
        if !vs.is_empty() && self.chance(85) {
            self.stats.hit("var");
            return Expr::Var(*self.rng.pick(&vs));
        }
        // no variable of the type: derive a value from a variable of another type when that is
        // cheap, so that inputs reach conditions and arithmetic
        if self.chance(70) {
            match ty {
                Ty::Bool => {
                    let ints: Vec<(usize, Ity)> = self
                        .scope
                        .iter()
                        .filter_map(|v| if let Ty::Int(i) = v.ty { Some((v.id, i)) } else { None })
                        .collect();
                    if !ints.is_empty() {
                        self.stats.hit("derived_leaf");
                        let (x, i) = *self.rng.pick(&ints);
                        let o = *self.rng.pick(&[Binop::Lt, Binop::Le, Binop::Gt, Binop::Ge, Binop::Eq, Binop::Ne]);
                        let l = Expr::Lit(Ty::Int(i), pick_int(self.rng, i, true));
                        return Expr::Bin(o, Ty::Int(i), Box::new(Expr::Var(x)), Box::new(l));
                    }
                }
                Ty::Int(i) => {
                    let srcs: Vec<(usize, Ity)> = self
                        .scope
                        .iter()
                        .filter_map(|v| match v.ty {
                            Ty::Int(j) if j.upcastable(*i) => Some((v.id, j)),
                            _ => None,
                        })
                        .collect();
                    if !srcs.is_empty() {
                        self.stats.hit("derived_leaf");
                        let (x, j) = *self.rng.pick(&srcs);
                        return Expr::Cast(CastK::Into, Ty::Int(j), ty.clone(), Box::new(Expr::Var(x)));
                    }
                }
                Ty::Felt => {
                    let srcs: Vec<(usize, Ity)> = self
                        .scope
                        .iter()
                        .filter_map(|v| if let Ty::Int(j) = v.ty { Some((v.id, j)) } else { None })
                        .collect();
                    if !srcs.is_empty() {
                        self.stats.hit("derived_leaf");
                        let (x, j) = *self.rng.pick(&srcs);
                        return Expr::Cast(CastK::Into, Ty::Int(j), Ty::Felt, Box::new(Expr::Var(x)));
                    }
                }
                _ => {}
            }
        }
        self.stats.hit("literal");
        self.default_expr(ty, false)
    }

    // ---------------- expressions ----------------
    pub fn expr(&mut self, ty: &Ty, depth: u32) -> Expr {
        self.budget -= 1;
        if depth == 0 || self.budget <= 0 {
            return self.leaf(ty);
        }
        self.stats.nodes += 1;
        let d = depth - 1;
        // generic productions first (by weight), then type-specific ones
        let k = self.rng.below(100);
        if k < 8 {
            self.stats.hit("if");
            let c = self.expr(&Ty::Bool, d);
            let a = self.block(ty, d);
            let b = self.block(ty, d);
            return Expr::If(Box::new(c), Box::new(a), Box::new(b));
        }
        if k < 12 {
            self.stats.hit("block");
            return self.block(ty, d);
        }
        if k < 22 {
            if let Some(e) = self.call(ty, d) {
                return e;
            }
        }
        if k < 27 && self.feat.tuples {
            if let Some(e) = self.proj(ty) {
                return e;
            }
        }
        if k < 33 && self.feat.enums {
            if let Some(e) = self.match_enum(ty, d) {
                return e;
            }
        }
        if k < 37 && self.feat.matchint {
            self.stats.hit("match_int");
            let st = if self.chance(30) { Ty::Felt } else { Ty::Int(*self.rng.pick(&[Ity::U8, Ity::U16, Ity::U32, Ity::U64, Ity::U128])) };
            // keep the scrutinee small so that the arms are reached
            let sc = self.small_scrutinee(&st, d);
            let many = self.chance(25);
            let n = 1 + self.rng.below(if many { 11 } else { 5 }) as usize;
            let arms = (0..n).map(|_| self.block(ty, d)).collect();
            let dflt = self.block(ty, d);
            return Expr::MatchInt(st, Box::new(sc), arms, Box::new(dflt));
        }
        if k < 40 && self.feat.loops && self.loops.len() < 2 && !ty.is_unit() && !self.in_macro {
            return self.loop_value(ty, d);
        }
        if k < 43 && self.feat.enums {
            // unwrap of an Option<ty> / Result<ty, felt>
            self.stats.hit("unwrap");
            let is_res = self.chance(30);
            let ot = if is_res { Ty::Res(Box::new(ty.clone()), Box::new(Ty::Felt)) } else { Ty::Opt(Box::new(ty.clone())) };
            let a = self.expr(&ot, d);
            let msg = if self.chance(40) { Some(format!("exp{}", self.rng.below(100))) } else { None };
            return Expr::Unwrap(msg, is_res, Box::new(a));
        }
        if k < 46 && self.feat.trys {
            match self.ret.clone() {
                Ty::Opt(_) => {
                    self.stats.hit("try");
                    let a = self.expr(&Ty::Opt(Box::new(ty.clone())), d);
                    return Expr::Try(Box::new(a));
                }
                Ty::Res(_, e) => {
                    self.stats.hit("try");
                    let a = self.expr(&Ty::Res(Box::new(ty.clone()), e), d);
                    return Expr::Try(Box::new(a));
                }
                _ => {}
            }
        }
        if k < 48 && self.feat.snaps {
            self.stats.hit("desnap");
            let a = self.expr(&Ty::Snap(Box::new(ty.clone())), d);
            return Expr::Desnap(Box::new(a));
        }
        if k < 52 && self.feat.arrays {
            if let Some(e) = self.array_read(ty, d) {
                return e;
            }
        }
        match ty {
            Ty::Int(i) => self.int_expr(*i, d),
            Ty::Felt => self.felt_expr(d),
            Ty::Bool => self.bool_expr(d),
            Ty::Tup(_) | Ty::Struct(_) => {
                self.stats.hit("tuple_ctor");
                let ms = self.prog.members(ty);
                Expr::Tup(ty.clone(), ms.iter().map(|m| self.expr(m, d)).collect())
            }
            Ty::Enum(_) | Ty::Opt(_) | Ty::Res(..) => {
                if let Ty::Opt(inner) = ty {
                    if let Ty::Int(j) = &**inner {
                        if self.chance(40) {
                            // try_into
                            self.stats.hit("try_into");
                            let from = self.cast_try_source(*j);
                            let a = self.expr(&from, d);
                            return Expr::Cast(CastK::Try, from, (**inner).clone(), Box::new(a));
                        }
                    }
                    if self.feat.arrays && self.chance(30) {
                        let arrs: Vec<usize> = self
                            .scope
                            .iter()
                            .filter(|v| v.assignable && v.ty == Ty::Arr(inner.clone()))
                            .map(|v| v.id)
                            .collect();
                        if !arrs.is_empty() {
                            self.stats.hit("arr_pop_front");
                            return Expr::ArrPop(*self.rng.pick(&arrs));
                        }
                    }
                }
                self.stats.hit("enum_ctor");
                let vs = self.prog.variants(ty);
                let mut i = self.rng.below(vs.len() as u64) as usize;
                if matches!(ty, Ty::Opt(_) | Ty::Res(..)) && self.chance(60) {
                    i = 0;
                }
                let p = if matches!(ty, Ty::Opt(_)) && i == 1 { unit_expr() } else { self.expr(&vs[i], d) };
                Expr::Enum(ty.clone(), i, Box::new(p))
            }
            Ty::Snap(t) => {
                self.stats.hit("snap");
                let a = self.expr(t, d);
                Expr::Snap(Box::new(a))
            }
            Ty::Boxed(t) => {
                self.stats.hit("box_new");
                let a = self.expr(t, d);
                Expr::BoxNew(Box::new(a))
            }
            Ty::Arr(_) => panic!("array expression requested"),
        }
    }

    fn small_scrutinee(&mut self, st: &Ty, d: u32) -> Expr {
        let a = self.expr(st, d.min(1));
        match st {
            Ty::Int(_) => {
                let m = Expr::Lit(st.clone(), BigInt::from(2 + self.rng.below(7)));
                Expr::Bin(Binop::Rem, st.clone(), Box::new(a), Box::new(m))
            }
            _ => {
                if self.chance(50) {
                    Expr::Lit(Ty::Felt, BigInt::from(self.rng.below(7)))
                } else {
                    a
                }
            }
        }
    }

    fn cast_try_source(&mut self, to: Ity) -> Ty {
        // any integer type that is not upcastable into `to` (those have Into, not TryInto), or felt
        let cands: Vec<Ity> = ITYS.iter().copied().filter(|f| *f != to && !f.upcastable(to)).collect();
        if cands.is_empty() || self.chance(20) { Ty::Felt } else { Ty::Int(*self.rng.pick(&cands)) }
    }

    fn int_expr(&mut self, i: Ity, d: u32) -> Expr {
        let t = Ty::Int(i);
        if self.chance(8) {
            // wrapping / saturating arithmetic (same type as the operands)
            self.stats.hit("wrapping_saturating");
            let k = if self.rng.bool() { ArithK::Wrapping } else { ArithK::Saturating };
            let ops: &[Binop] = if i.signed() { &[Binop::Add, Binop::Sub] } else { &[Binop::Add, Binop::Sub, Binop::Mul] };
            let o = *self.rng.pick(ops);
            let a = self.expr(&t, d);
            let b = self.expr(&t, d);
            return Expr::Arith(k, o, t, Box::new(a), Box::new(b));
        }
        if self.chance(3) {
            self.stats.hit("box_roundtrip");
            let a = self.expr(&t, d);
            return Expr::Unbox(Box::new(Expr::BoxNew(Box::new(a))));
        }
        let k = self.rng.below(100);
        if k < 60 {
            let ops: &[Binop] = if i.signed() {
                &[Binop::Add, Binop::Add, Binop::Sub, Binop::Sub, Binop::Mul, Binop::Div, Binop::Rem]
            } else {
                &[
                    Binop::Add,
                    Binop::Add,
                    Binop::Sub,
                    Binop::Mul,
                    Binop::Div,
                    Binop::Rem,
                    Binop::And,
                    Binop::Or,
                    Binop::Xor,
                ]
            };
            let o = *self.rng.pick(ops);
            self.stats.hit(match o {
                Binop::Add => "int_add",
                Binop::Sub => "int_sub",
                Binop::Mul => "int_mul",
                Binop::Div => "int_div",
                Binop::Rem => "int_rem",
                _ => "int_bitwise",
            });
            let a = self.expr(&t, d);
            let b = self.expr(&t, d);
            return Expr::Bin(o, t, Box::new(a), Box::new(b));
        }
        if k < 68 {
            if i.signed() {
                self.stats.hit("int_neg");
                let a = self.expr(&t, d);
                return Expr::Un(Unop::Neg, t, Box::new(a));
            } else {
                self.stats.hit("int_bitnot");
                let a = self.expr(&t, d);
                return Expr::Un(Unop::BitNot, t, Box::new(a));
            }
        }
        if k < 80 {
            let froms: Vec<Ity> = ITYS.iter().copied().filter(|f| f.upcastable(i)).collect();
            if !froms.is_empty() {
                self.stats.hit("into");
                let f = Ty::Int(*self.rng.pick(&froms));
                let a = self.expr(&f, d);
                return Expr::Cast(CastK::Into, f, t, Box::new(a));
            }
        }
        if k < 92 {
            self.stats.hit("try_into_unwrap");
            let from = self.cast_try_source(i);
            let a = self.expr(&from, d);
            let c = Expr::Cast(CastK::Try, from, t, Box::new(a));
            return Expr::Unwrap(None, false, Box::new(c));
        }
        self.leaf(&t)
    }

    fn felt_expr(&mut self, d: u32) -> Expr {
        let k = self.rng.below(100);
        if k < 60 {
            let o = *self.rng.pick(&[Binop::Add, Binop::Sub, Binop::Mul]);
            self.stats.hit("felt_arith");
            let a = self.expr(&Ty::Felt, d);
            let b = self.expr(&Ty::Felt, d);
            return Expr::Bin(o, Ty::Felt, Box::new(a), Box::new(b));
        }
        if k < 70 {
            self.stats.hit("felt_neg");
            let a = self.expr(&Ty::Felt, d);
            return Expr::Un(Unop::Neg, Ty::Felt, Box::new(a));
        }
        if k < 92 {
            self.stats.hit("into_felt");
            let f = if self.chance(15) { Ty::Bool } else { Ty::Int(*self.rng.pick(&ITYS)) };
            let a = self.expr(&f, d);
            return Expr::Cast(CastK::Into, f, Ty::Felt, Box::new(a));
        }
        self.leaf(&Ty::Felt)
    }

    fn bool_expr(&mut self, d: u32) -> Expr {
        let k = self.rng.below(100);
        if k < 45 {
            self.stats.hit("int_cmp");
            let t = Ty::Int(*self.rng.pick(&ITYS));
            let o = *self.rng.pick(&[Binop::Eq, Binop::Ne, Binop::Lt, Binop::Le, Binop::Gt, Binop::Ge]);
            let a = self.expr(&t, d);
            let b = self.expr(&t, d);
            return Expr::Bin(o, t, Box::new(a), Box::new(b));
        }
        if k < 58 {
            self.stats.hit("eq_other");
            let t = if self.chance(50) { Ty::Felt } else { self.data_ty(1) };
            let t = if contains_snap(&t) { Ty::Felt } else { t };
            let o = *self.rng.pick(&[Binop::Eq, Binop::Ne]);
            let a = self.expr(&t, d);
            let b = self.expr(&t, d);
            return Expr::Bin(o, t, Box::new(a), Box::new(b));
        }
        if k < 70 {
            self.stats.hit("and_also");
            let a = self.expr(&Ty::Bool, d);
            let b = self.expr(&Ty::Bool, d);
            return Expr::AndAlso(Box::new(a), Box::new(b));
        }
        if k < 80 {
            self.stats.hit("or_else");
            let a = self.expr(&Ty::Bool, d);
            let b = self.expr(&Ty::Bool, d);
            return Expr::OrElse(Box::new(a), Box::new(b));
        }
        if k < 88 {
            self.stats.hit("bool_not");
            let a = self.expr(&Ty::Bool, d);
            return Expr::Un(Unop::Not, Ty::Bool, Box::new(a));
        }
        if k < 94 {
            self.stats.hit("bool_strict");
            let o = *self.rng.pick(&[Binop::And, Binop::Or, Binop::Xor]);
            let a = self.expr(&Ty::Bool, d);
            let b = self.expr(&Ty::Bool, d);
            return Expr::Bin(o, Ty::Bool, Box::new(a), Box::new(b));
        }
        self.leaf(&Ty::Bool)
    }

    fn proj(&mut self, ty: &Ty) -> Option<Expr> {
        let mut cands = vec![];
        for v in &self.scope {
            let inner = match &v.ty {
                Ty::Tup(_) | Ty::Struct(_) => v.ty.clone(),
                _ => continue,
            };
            for (i, m) in self.prog.members(&inner).iter().enumerate() {
                if m == ty {
                    cands.push((v.id, inner.clone(), i));
                }
            }
        }
        if cands.is_empty() {
            return None;
        }
        self.stats.hit("proj");
        let (x, t, i) = self.rng.pick(&cands).clone();
        Some(Expr::Proj(t, i, Box::new(Expr::Var(x))))
    }

    fn match_enum(&mut self, ty: &Ty, d: u32) -> Option<Expr> {
        // scrutinee: an enum-typed variable in scope, else a generated value of a random enum type
        let cands: Vec<(usize, Ty)> = self
            .scope
            .iter()
            .filter(|v| matches!(v.ty, Ty::Enum(_) | Ty::Opt(_) | Ty::Res(..)))
            .map(|v| (v.id, v.ty.clone()))
            .collect();
        let (sc, st) = if !cands.is_empty() && self.chance(70) {
            let (x, t) = self.rng.pick(&cands).clone();
            (Expr::Var(x), t)
        } else {
            let t = match self.rng.below(3) {
                0 if !self.prog.enums.is_empty() => Ty::Enum(self.rng.below(self.prog.enums.len() as u64) as usize),
                1 => Ty::Res(Box::new(self.scalar_ty()), Box::new(self.scalar_ty())),
                _ => Ty::Opt(Box::new(self.scalar_ty())),
            };
            (self.expr(&t, d), t)
        };
        self.stats.hit("match_enum");
        let vs = self.prog.variants(&st);
        let mut arms = vec![];
        for v in vs {
            let x = self.fresh();
            let mark = self.scope.len();
            self.scope.push(Var { id: x, ty: v.clone(), assignable: true });
            let b = self.block(ty, d);
            self.scope.truncate(mark);
            arms.push((x, b));
        }
        Some(Expr::Match(st, Box::new(sc), arms))
    }

    fn call(&mut self, ty: &Ty, d: u32) -> Option<Expr> {
        let mut cands: Vec<usize> = (0..self.cur_fn).filter(|f| &self.sigs[*f].ret == ty).collect();
        // calls to recursive helpers from inside loops multiply the cost: keep them outside
        if !self.loops.is_empty() {
            cands.retain(|f| !self.sigs[*f].recursive);
        }
        let self_ok = self.cur_recursive && self.self_calls_left > 0 && self.loops.is_empty() && &self.ret == ty;
        if self_ok && (cands.is_empty() || self.chance(60)) {
            let sig = self.sigs[self.cur_fn].clone();
            self.self_calls_left -= 1;
            if let Some(args) = self.call_args(&sig, d, true) {
                self.stats.hit("self_call");
                return Some(Expr::Call(self.cur_fn, args));
            }
            self.self_calls_left += 1;
        }
        if cands.is_empty() {
            return None;
        }
        let f = *self.rng.pick(&cands);
        let sig = self.sigs[f].clone();
        let args = self.call_args(&sig, d, false)?;
        self.stats.hit("call");
        Some(Expr::Call(f, args))
    }

    fn call_args(&mut self, sig: &Sig, d: u32, is_self: bool) -> Option<Vec<Arg>> {
        let mut args = vec![];
        let mut used_refs: Vec<usize> = vec![];
        for (k, p) in sig.params.iter().enumerate() {
            if p.by_ref {
                let cands: Vec<usize> = self
                    .scope
                    .iter()
                    .filter(|v| v.assignable && v.ty == p.ty && !used_refs.contains(&v.id))
                    .map(|v| v.id)
                    .collect();
                if cands.is_empty() {
                    return None;
                }
                let x = *self.rng.pick(&cands);
                used_refs.push(x);
                self.stats.hit("ref_arg");
                args.push(Arg::Ref(x));
            } else if k == 0 && sig.recursive {
                if is_self {
                    // own depth parameter minus one (it is >= 1 after the base-case test)
                    let dv = self.sigs[self.cur_fn].params[0].name;
                    args.push(Arg::Val(Expr::Bin(
                        Binop::Sub,
                        Ty::Int(Ity::U32),
                        Box::new(Expr::Var(dv)),
                        Box::new(Expr::Lit(Ty::Int(Ity::U32), BigInt::one())),
                    )));
                } else {
                    args.push(Arg::Val(Expr::Lit(Ty::Int(Ity::U32), BigInt::from(self.rng.below(4)))));
                }
            } else if let Ty::Snap(inner) = &p.ty {
                if let Ty::Arr(_) = &**inner {
                    // snapshot of an array variable in scope
                    let cands: Vec<usize> =
                        self.scope.iter().filter(|v| v.ty == **inner || v.ty == p.ty).map(|v| v.id).collect();
                    if cands.is_empty() {
                        return None;
                    }
                    let x = *self.rng.pick(&cands);
                    let is_snap = self.scope.iter().rev().find(|v| v.id == x).map(|v| v.ty == p.ty).unwrap_or(false);
                    args.push(Arg::Val(if is_snap { Expr::Var(x) } else { Expr::Snap(Box::new(Expr::Var(x))) }));
                    continue;
                }
                let e = self.arg_expr(&p.ty, d, &used_refs);
                args.push(Arg::Val(e));
            } else {
                let e = self.arg_expr(&p.ty, d, &used_refs);
                args.push(Arg::Val(e));
            }
        }
        // a variable passed by `ref` must not also be assigned by a later by-value argument's
        // side effects in a way the source language leaves open: the reference semantics reads
        // `ref` arguments at the call, which is what the language does, so nothing to exclude.
        Some(args)
    }
    fn arg_expr(&mut self, ty: &Ty, d: u32, _used: &[usize]) -> Expr {
        self.expr(ty, d)
    }

    fn array_read(&mut self, ty: &Ty, d: u32) -> Option<Expr> {
        // arrays and snapshots of arrays in scope
        let arrs: Vec<(usize, Ty)> = self
            .scope
            .iter()
            .filter_map(|v| match &v.ty {
                Ty::Arr(t) => Some((v.id, (**t).clone())),
                Ty::Snap(s) => match &**s {
                    Ty::Arr(t) => Some((v.id, (**t).clone())),
                    _ => None,
                },
                _ => None,
            })
            .collect();
        if arrs.is_empty() {
            return None;
        }
        if ty == &Ty::Int(Ity::U32) && self.chance(50) {
            self.stats.hit("arr_len");
            return Some(Expr::ArrLen(self.rng.pick(&arrs).0));
        }
        let same: Vec<usize> = arrs.iter().filter(|(_, t)| t == ty).map(|(x, _)| *x).collect();
        if same.is_empty() {
            return None;
        }
        self.stats.hit("arr_at");
        let x = *self.rng.pick(&same);
        // index: mostly small so that both in-bounds and out-of-bounds occur
        let i = if self.chance(70) {
            Expr::Lit(Ty::Int(Ity::U32), BigInt::from(self.rng.below(3)))
        } else {
            self.expr(&Ty::Int(Ity::U32), d.min(1))
        };
        Some(Expr::ArrAt(x, Box::new(i)))
    }

    // ---------------- loops ----------------
    /// `{ let k = 0; loop { if k >= limit { break v }; k = k + 1; body } }` of type `ty`
    fn loop_value(&mut self, ty: &Ty, d: u32) -> Expr {
        self.stats.hit("loop");
        let limit = 1 + self.rng.below(4) as u32;
        let k = self.fresh();
        let u32t = Ty::Int(Ity::U32);
        let mark = self.scope.len();
        self.scope.push(Var { id: k, ty: u32t.clone(), assignable: false });
        self.loops.push(Some(ty.clone()));
        let exit_v = self.expr(ty, d.min(1));
        let test = Expr::If(
            Box::new(Expr::Bin(
                Binop::Ge,
                u32t.clone(),
                Box::new(Expr::Var(k)),
                Box::new(Expr::Lit(u32t.clone(), BigInt::from(limit))),
            )),
            Box::new(Expr::Break(Ty::unit(), Box::new(exit_v))),
            Box::new(unit_expr()),
        );
        let inc = Expr::Assign(
            k,
            Box::new(Expr::Bin(
                Binop::Add,
                u32t.clone(),
                Box::new(Expr::Var(k)),
                Box::new(Expr::Lit(u32t.clone(), BigInt::one())),
            )),
        );
        let mut stmts = vec![Stmt::Expr(test), Stmt::Expr(inc)];
        let inner_mark = self.scope.len();
        let n = 1 + self.rng.below(3);
        for _ in 0..n {
            if let Some(s) = self.stmt(d) {
                stmts.push(s);
            }
        }
        self.scope.truncate(inner_mark);
        self.loops.pop();
        self.scope.truncate(mark);
        let body = Expr::Block(stmts, Box::new(unit_expr()));
        Expr::Block(
            vec![Stmt::Let(k, u32t.clone(), Expr::Lit(u32t, BigInt::zero()))],
            Box::new(Expr::Loop(limit, ty.clone(), Box::new(body))),
        )
    }

    fn while_stmt(&mut self, d: u32) -> Vec<Stmt> {
        self.stats.hit("while");
        let limit = 1 + self.rng.below(4) as u32;
        let k = self.fresh();
        let u32t = Ty::Int(Ity::U32);
        self.scope.push(Var { id: k, ty: u32t.clone(), assignable: false });
        let mut cond = Expr::Bin(
            Binop::Lt,
            u32t.clone(),
            Box::new(Expr::Var(k)),
            Box::new(Expr::Lit(u32t.clone(), BigInt::from(limit))),
        );
        if self.chance(40) {
            let c2 = self.expr(&Ty::Bool, d.min(2));
            cond = Expr::AndAlso(Box::new(cond), Box::new(c2));
        }
        self.loops.push(None);
        let inc = Expr::Assign(
            k,
            Box::new(Expr::Bin(
                Binop::Add,
                u32t.clone(),
                Box::new(Expr::Var(k)),
                Box::new(Expr::Lit(u32t.clone(), BigInt::one())),
            )),
        );
        let mut stmts = vec![Stmt::Expr(inc)];
        let inner_mark = self.scope.len();
        let n = 1 + self.rng.below(3);
        for _ in 0..n {
            if let Some(s) = self.stmt(d) {
                stmts.push(s);
            }
        }
        self.scope.truncate(inner_mark);
        self.loops.pop();
        let body = Expr::Block(stmts, Box::new(unit_expr()));
        // the counter stays in scope (read-only) for the rest of the enclosing block
        vec![
            Stmt::Let(k, u32t.clone(), Expr::Lit(u32t, BigInt::zero())),
            Stmt::Expr(Expr::While(limit, Box::new(cond), Box::new(body))),
        ]
    }

    // ---------------- statements / blocks ----------------
    fn stmt(&mut self, d: u32) -> Option<Stmt> {
        self.budget -= 1;
        self.stats.nodes += 1;
        let k = self.rng.below(100);
        if k < 30 {
            self.stats.hit("let");
            let t = self.data_ty(2);
            let e = self.expr(&t, d);
            // shadowing: sometimes reuse the name of a visible variable of the same type
            let shadow: Vec<usize> = self.scope.iter().filter(|v| v.assignable && v.ty == t).map(|v| v.id).collect();
            let x = if !shadow.is_empty() && self.chance(15) {
                self.stats.hit("shadow");
                *self.rng.pick(&shadow)
            } else {
                self.fresh()
            };
            self.scope.push(Var { id: x, ty: t.clone(), assignable: true });
            return Some(Stmt::Let(x, t, e));
        }
        if k < 55 {
            let cands: Vec<(usize, Ty)> = self
                .scope
                .iter()
                .filter(|v| v.assignable && !matches!(v.ty, Ty::Arr(_)) && !is_arr_snap(&v.ty))
                .map(|v| (v.id, v.ty.clone()))
                .collect();
            if !cands.is_empty() {
                self.stats.hit("assign");
                let (x, t) = self.rng.pick(&cands).clone();
                let e = self.expr(&t, d);
                return Some(Stmt::Expr(Expr::Assign(x, Box::new(e))));
            }
        }
        if k < 67 {
            self.stats.hit("if_stmt");
            let c = self.expr(&Ty::Bool, d);
            let a = self.unit_block(d, true);
            let b = if self.chance(50) { self.unit_block(d, true) } else { unit_expr() };
            return Some(Stmt::Expr(Expr::If(Box::new(c), Box::new(a), Box::new(b))));
        }
        if k < 73 && self.feat.loops && self.loops.len() < 2 && d > 0 && !self.in_macro {
            let e = self.loop_value(&Ty::unit(), d - 1);
            return Some(Stmt::Expr(e));
        }
        if k < 76 {
            self.stats.hit("assert");
            let short = self.chance(60);
            let saved = self.in_macro;
            // loops inside `assert!` arguments are generated again: the defect they exposed in the
            // debug naming of loop functions is repaired in /repo (probe: corpus/C01/loop_in_macro.cairo)
            self.in_macro = saved;
            let c = self.expr(&Ty::Bool, d.min(2));
            self.in_macro = saved;
            let m = if short {
                PanicMsg::Short(format!("a{}", self.rng.below(1000)))
            } else {
                PanicMsg::Bytes(format!("assert failed {}", self.rng.below(1000)))
            };
            return Some(Stmt::Expr(Expr::Assert(Box::new(c), m)));
        }
        if k < 88 && self.feat.arrays {
            let arrs: Vec<(usize, Ty)> = self
                .scope
                .iter()
                .filter_map(|v| match &v.ty {
                    Ty::Arr(t) if v.assignable => Some((v.id, (**t).clone())),
                    _ => None,
                })
                .collect();
            if !arrs.is_empty() {
                self.stats.hit("arr_append");
                let (x, t) = self.rng.pick(&arrs).clone();
                let e = self.expr(&t, d);
                return Some(Stmt::Expr(Expr::ArrAppend(x, Box::new(e))));
            }
        }
        if self.feat.tuples && self.chance(10) {
            let tups: Vec<(usize, Ty)> = self
                .scope
                .iter()
                .filter(|v| matches!(v.ty, Ty::Tup(ref ts) if !ts.is_empty()) || matches!(v.ty, Ty::Struct(_)))
                .map(|v| (v.id, v.ty.clone()))
                .collect();
            if !tups.is_empty() {
                self.stats.hit("let_destructure");
                let (x, t) = self.rng.pick(&tups).clone();
                let ms = self.prog.members(&t);
                let xs: Vec<usize> = ms.iter().map(|_| self.fresh()).collect();
                for (y, mt) in xs.iter().zip(ms) {
                    self.scope.push(Var { id: *y, ty: mt, assignable: true });
                }
                return Some(Stmt::LetTup(xs, t, Expr::Var(x)));
            }
        }
        if self.chance(5) {
            self.stats.hit("checked_overflowing");
            let i = *self.rng.pick(&ITYS);
            let t = Ty::Int(i);
            let o = *self.rng.pick(&[Binop::Add, Binop::Sub]);
            let a = self.expr(&t, d);
            let b = self.expr(&t, d);
            let (k, rt) = if self.rng.bool() {
                (ArithK::Checked, Ty::Opt(Box::new(t.clone())))
            } else {
                (ArithK::Overflowing, Ty::Tup(vec![t.clone(), Ty::Bool]))
            };
            let x = self.fresh();
            self.scope.push(Var { id: x, ty: rt.clone(), assignable: true });
            return Some(Stmt::Let(x, rt, Expr::Arith(k, o, t, Box::new(a), Box::new(b))));
        }
        if k < 96 {
            // a call (for its value and its effects on `ref` arguments): pick the callee first
            let mut rets: Vec<Ty> = (0..self.cur_fn).map(|f| self.sigs[f].ret.clone()).collect();
            if self.cur_recursive && self.self_calls_left > 0 && self.loops.is_empty() {
                rets.push(self.ret.clone());
            }
            if !rets.is_empty() {
                let t = self.rng.pick(&rets).clone();
                if let Some(e) = self.call(&t, d) {
                    let x = self.fresh();
                    self.scope.push(Var { id: x, ty: t.clone(), assignable: true });
                    return Some(Stmt::Let(x, t, e));
                }
            }
        }
        if self.feat.arrays {
            // read an array that is in scope
            let arrs: Vec<(usize, Ty, bool)> = self
                .scope
                .iter()
                .filter_map(|v| match &v.ty {
                    Ty::Arr(t) => Some((v.id, (**t).clone(), v.assignable)),
                    Ty::Snap(s) => match &**s {
                        Ty::Arr(t) => Some((v.id, (**t).clone(), false)),
                        _ => None,
                    },
                    _ => None,
                })
                .collect();
            if !arrs.is_empty() {
                let (a, el, owned) = self.rng.pick(&arrs).clone();
                let x = self.fresh();
                let c = self.rng.below(4);
                let (t, e) = if c == 0 && owned {
                    self.stats.hit("arr_pop_front");
                    (Ty::Opt(Box::new(el)), Expr::ArrPop(a))
                } else if c == 1 {
                    self.stats.hit("arr_len");
                    (Ty::Int(Ity::U32), Expr::ArrLen(a))
                } else {
                    self.stats.hit("arr_at");
                    let i = if self.chance(70) {
                        Expr::Lit(Ty::Int(Ity::U32), BigInt::from(self.rng.below(3)))
                    } else {
                        self.expr(&Ty::Int(Ity::U32), d.min(1))
                    };
                    (el, Expr::ArrAt(a, Box::new(i)))
                };
                self.scope.push(Var { id: x, ty: t.clone(), assignable: true });
                return Some(Stmt::Let(x, t, e));
            }
        }
        None
    }

    /// a unit block made of statements; may end by diverging (return / break / continue / panic)
    fn unit_block(&mut self, d: u32, may_diverge: bool) -> Expr {
        let mark = self.scope.len();
        let mut stmts = vec![];
        let n = self.rng.below(3);
        for _ in 0..n {
            if let Some(s) = self.stmt(d.saturating_sub(1)) {
                stmts.push(s);
            }
        }
        let mut tail = unit_expr();
        if may_diverge && self.chance(35) {
            let k = self.rng.below(100);
            if k < 40 && self.allow_return {
                self.stats.hit("return");
                let rt = self.ret.clone();
                let e = self.expr(&rt, d.min(2));
                tail = Expr::Return(Ty::unit(), Box::new(e));
            } else if k < 75 && !self.loops.is_empty() {
                match self.loops.last().unwrap().clone() {
                    Some(bt) => {
                        if self.chance(60) {
                            self.stats.hit("break");
                            let e = self.expr(&bt, d.min(2));
                            tail = Expr::Break(Ty::unit(), Box::new(e));
                        } else {
                            self.stats.hit("continue");
                            tail = Expr::Continue(Ty::unit());
                        }
                    }
                    None => {
                        if self.chance(50) {
                            self.stats.hit("break");
                            tail = Expr::Break(Ty::unit(), Box::new(unit_expr()));
                        } else {
                            self.stats.hit("continue");
                            tail = Expr::Continue(Ty::unit());
                        }
                    }
                }
            } else if k < 80 {
                self.stats.hit("panic");
                let m = if self.chance(60) {
                    PanicMsg::Short(format!("p{}", self.rng.below(1000)))
                } else {
                    PanicMsg::Bytes(format!("boom {}", self.rng.below(1000)))
                };
                tail = Expr::Panic(Ty::unit(), m);
            }
        }
        self.scope.truncate(mark);
        if stmts.is_empty() && !matches!(tail, Expr::Break(..) | Expr::Continue(..) | Expr::Return(..)) {
            return tail;
        }
        Expr::Block(stmts, Box::new(tail))
    }

    pub fn block(&mut self, ty: &Ty, d: u32) -> Expr {
        let mark = self.scope.len();
        let mut stmts = vec![];
        let n = if d == 0 { 0 } else { self.rng.below(3) };
        for _ in 0..n {
            if self.chance(12) && self.feat.loops && self.loops.len() < 2 && d > 0 && !self.in_macro {
                stmts.extend(self.while_stmt(d - 1));
            } else if self.chance(10) && self.feat.arrays {
                stmts.extend(self.array_decl(d.saturating_sub(1)));
            } else if let Some(s) = self.stmt(d) {
                stmts.push(s);
            }
        }
        let tail = self.expr(ty, d);
        self.scope.truncate(mark);
        if stmts.is_empty() {
            return tail;
        }
        Expr::Block(stmts, Box::new(tail))
    }

    fn array_decl(&mut self, d: u32) -> Vec<Stmt> {
        self.stats.hit("arr_new");
        let t = self.scalar_ty();
        let x = self.fresh();
        let at = Ty::Arr(Box::new(t.clone()));
        let mut out = vec![Stmt::Let(x, at.clone(), Expr::ArrNew(t.clone()))];
        self.scope.push(Var { id: x, ty: at, assignable: true });
        let n = self.rng.below(4);
        for _ in 0..n {
            self.stats.hit("arr_append");
            let e = self.expr(&t, d.min(1));
            out.push(Stmt::Expr(Expr::ArrAppend(x, Box::new(e))));
        }
        out
    }

    // ---------------- functions / programs ----------------
    fn gen_fn(&mut self, idx: usize, is_entry: bool) {
        self.scope.clear();
        self.loops.clear();
        self.cur_fn = idx;
        let recursive = !is_entry && self.feat.recursion && self.chance(30);
        self.cur_recursive = recursive;
        self.self_calls_left = if recursive { 1 + self.rng.below(2) as u32 } else { 0 };
        let mut params = vec![];
        if recursive {
            let x = self.fresh();
            params.push(Param { name: x, ty: Ty::Int(Ity::U32), by_ref: false });
            self.scope.push(Var { id: x, ty: Ty::Int(Ity::U32), assignable: false });
        }
        let n = 1 + self.rng.below(4);
        for _ in 0..n {
            let x = self.fresh();
            let by_ref = !is_entry && self.feat.refs && self.chance(25);
            let ty = if is_entry {
                if self.chance(15) && self.feat.tuples { Ty::Tup(vec![self.scalar_ty(), self.scalar_ty()]) } else { self.scalar_ty() }
            } else if self.feat.arrays && self.chance(12) {
                let el = self.scalar_ty();
                if by_ref { Ty::Arr(Box::new(el)) } else { Ty::Snap(Box::new(Ty::Arr(Box::new(el)))) }
            } else {
                self.data_ty(2)
            };
            params.push(Param { name: x, ty: ty.clone(), by_ref });
            self.scope.push(Var { id: x, ty, assignable: true });
        }
        let ret = self.data_ty(2);
        self.ret = ret.clone();
        self.sigs.push(Sig { params: params.clone(), ret: ret.clone(), recursive });
        self.budget = 40 + self.rng.below(50) as i32;
        self.allow_return = true;
        let depth = 2 + self.rng.below(3) as u32;
        self.stats.max_depth = self.stats.max_depth.max(depth);
        let body = if recursive {
            // base case first: the depth parameter is >= 1 in the rest of the body
            let dv = params[0].name;
            let saved = self.self_calls_left;
            self.self_calls_left = 0;
            let base = self.expr(&ret, 1);
            self.self_calls_left = saved;
            let test = Expr::If(
                Box::new(Expr::Bin(
                    Binop::Eq,
                    Ty::Int(Ity::U32),
                    Box::new(Expr::Var(dv)),
                    Box::new(Expr::Lit(Ty::Int(Ity::U32), BigInt::zero())),
                )),
                Box::new(Expr::Return(Ty::unit(), Box::new(base))),
                Box::new(unit_expr()),
            );
            let rest = self.block(&ret, depth);
            match rest {
                Expr::Block(mut stmts, tail) => {
                    stmts.insert(0, Stmt::Expr(test));
                    Expr::Block(stmts, tail)
                }
                e => Expr::Block(vec![Stmt::Expr(test)], Box::new(e)),
            }
        } else {
            self.block(&ret, depth)
        };
        self.prog.fns.push(FnDecl { inline: None, params, ret, body });
    }

    pub fn program(mut self) -> Program {
        self.declare_types();
        let helpers = self.rng.below(4) as usize;
        for i in 0..helpers {
            self.gen_fn(i, false);
        }
        self.gen_fn(helpers, true);
        self.prog
    }
}

pub fn contains_snap(t: &Ty) -> bool {
    match t {
        Ty::Snap(_) => true,
        Ty::Tup(ts) => ts.iter().any(contains_snap),
        Ty::Opt(t) => contains_snap(t),
        Ty::Res(a, b) => contains_snap(a) || contains_snap(b),
        _ => false,
    }
}
fn is_arr_snap(t: &Ty) -> bool {
    matches!(t, Ty::Snap(s) if matches!(**s, Ty::Arr(_)))
}

/// Static worst-case cost (evaluated nodes) of calling each function, used to reject programs
/// whose run would be long.  Recursive functions: body cost times (sites^(depth+1)).
pub fn costs(p: &Program) -> Vec<f64> {
    let mut fc: Vec<f64> = vec![];
    for (i, f) in p.fns.iter().enumerate() {
        let mut self_sites = 0u32;
        let c = cost_expr(&f.body, &fc, i, &mut self_sites);
        let mult = match self_sites {
            0 => 1.0,
            1 => 5.0,
            s => (s as f64).powi(5),
        };
        fc.push(c * mult);
    }
    fc
}
fn cost_expr(e: &Expr, fc: &[f64], me: usize, self_sites: &mut u32) -> f64 {
    let mut c = |e: &Expr| cost_expr(e, fc, me, self_sites);
    1.0 + match e {
        Expr::Lit(..) | Expr::Bool(_) | Expr::Var(_) | Expr::Continue(_) | Expr::Panic(..) | Expr::ArrNew(_) => 0.0,
        Expr::ArrPop(_) | Expr::ArrLen(_) => 0.0,
        Expr::Un(_, _, a)
        | Expr::Cast(_, _, _, a)
        | Expr::Proj(_, _, a)
        | Expr::Enum(_, _, a)
        | Expr::Assign(_, a)
        | Expr::Break(_, a)
        | Expr::Return(_, a)
        | Expr::Try(a)
        | Expr::Unwrap(_, _, a)
        | Expr::Assert(a, _)
        | Expr::ArrAppend(_, a)
        | Expr::ArrAt(_, a)
        | Expr::Snap(a)
        | Expr::Desnap(a)
        | Expr::BoxNew(a)
        | Expr::Unbox(a) => c(a),
        Expr::Bin(_, _, a, b) | Expr::Arith(_, _, _, a, b) | Expr::AndAlso(a, b) | Expr::OrElse(a, b) => c(a) + c(b),
        Expr::Tup(_, es) => es.iter().map(|e| c(e)).sum(),
        Expr::Match(_, a, arms) => c(a) + arms.iter().map(|(_, b)| c(b)).fold(0.0, f64::max),
        Expr::MatchInt(_, a, arms, d) => {
            let dc = c(d);
            c(a) + arms.iter().map(|b| c(b)).fold(dc, f64::max)
        }
        Expr::If(x, a, b) => c(x) + c(a).max(c(b)),
        Expr::Block(stmts, tail) => {
            let mut t = 0.0;
            for s in stmts {
                t += match s {
                    Stmt::Let(_, _, e) | Stmt::LetTup(_, _, e) | Stmt::Expr(e) => c(e),
                };
            }
            t + c(tail)
        }
        Expr::Loop(l, _, b) => (*l as f64 + 1.0) * c(b),
        Expr::While(l, x, b) => (*l as f64 + 1.0) * (c(x) + c(b)),
        Expr::Call(f, args) => {
            let mut t = 0.0;
            for a in args {
                if let Arg::Val(e) = a {
                    t += c(e);
                }
            }
            if *f == me {
                *self_sites += 1;
                t
            } else {
                t + fc[*f]
            }
        }
    }
}

/// Argument vectors for the entry function: benign, zeros, extremes, then seeded mixes.
pub fn arg_vectors(rng: &mut Rng, p: &Program, n: usize) -> Vec<Vec<Val>> {
    let f = &p.fns[p.entry()];
    let mut out: Vec<Vec<Val>> = vec![];
    for k in 0..n {
        let v: Vec<Val> = f.params.iter().map(|pa| arg_value(rng, &pa.ty, k)).collect();
        if !out.contains(&v) {
            out.push(v);
        }
    }
    out
}
fn arg_value(rng: &mut Rng, t: &Ty, k: usize) -> Val {
    match t {
        Ty::Int(i) => Val::Int(match k {
            0 => BigInt::from(1 + rng.below(5)),
            1 => BigInt::zero(),
            2 => i.hi(),
            3 => i.lo(),
            4 | 5 | 6 => pick_int(rng, *i, true),
            _ => pick_int(rng, *i, false),
        }),
        Ty::Felt => Val::Int(match k {
            0 => BigInt::from(1 + rng.below(5)),
            1 => BigInt::zero(),
            2 => vcommon::stark_prime() - 1,
            3 => BigInt::one(),
            4 | 5 | 6 => pick_felt(rng, true),
            _ => pick_felt(rng, false),
        }),
        Ty::Bool => Val::Bool(match k {
            0 | 2 => true,
            1 | 3 => false,
            _ => rng.bool(),
        }),
        Ty::Tup(ts) => Val::Tup(ts.iter().map(|t| arg_value(rng, t, k)).collect()),
        _ => panic!("entry parameter of type {:?}", t),
    }
}
