//! h01 -- correspondence harness of C01 (compiled programs compute what the source means) and
//! the metamorphic matrix of C05 (results invariant under optimisation configuration).
//!
//!   h01 <out-dir> <tier> c01     typed random programs -> real pipeline; Coq case shards
//!   h01 <out-dir> <tier> c05     same programs + examples/ + bug_samples under a configuration matrix
//!
//! Every random choice derives from VERIF_SEED.
mod ast;
mod c05;
mod genp;
mod interp;
mod lower;
mod run;
mod shapes;
mod shrink;

use std::collections::BTreeMap;
use std::fmt::Write as _;
use std::path::Path;

use ast::*;
use interp::{Interp, Outcome};
use run::{CompileError, Config, Obs};
use vcommon::Rng;

pub struct Case {
    pub prog: usize,
    pub vec: usize,
    pub args: Vec<Val>,
    pub expect: Outcome,
    pub obs: Obs,
}

pub struct CrateRun {
    pub idx: usize,
    pub progs: Vec<Program>,
    pub vectors: Vec<Vec<Vec<Val>>>,
    pub cases: Vec<Case>,
    pub rejected: Vec<(String, String)>,
    pub interp_stuck: usize,
    pub stats: genp::Stats,
    pub compile_s: f64,
    pub run_s: f64,
    pub fatal: Option<String>,
    pub sierra_statements: usize,
}

pub fn crate_rng(seed: u64, crate_idx: usize) -> Rng {
    let mut r = Rng(seed.wrapping_mul(0x9E3779B97F4A7C15) ^ ((crate_idx as u64 + 1).wrapping_mul(0xD1B54A32D192ED03)));
    r.next();
    r
}

/// Deterministic generation of the programs and argument vectors of one crate.
pub fn generate_crate(
    seed: u64,
    crate_idx: usize,
    n_progs: usize,
    n_vecs: usize,
    stats: &mut genp::Stats,
) -> (Vec<Program>, Vec<Vec<Vec<Val>>>, usize) {
    let mut rng = crate_rng(seed, crate_idx);
    let feat = genp::Features::from_env();
    let mut progs = vec![];
    let mut vectors = vec![];
    let mut stuck = 0;
    let mut k = 0;
    while progs.len() < n_progs {
        k += 1;
        let tag = format!("c{}p{}", crate_idx, k);
        let p = genp::Gen::new(&mut rng, feat, stats, tag).program();
        let cost = *genp::costs(&p).last().unwrap();
        if cost > 40_000.0 {
            stats.regenerated_for_cost += 1;
            continue;
        }
        let vs = genp::arg_vectors(&mut rng, &p, n_vecs);
        // a program the reference interpreter cannot give a meaning to is a generator bug
        let mut it = Interp::new(&p);
        if vs.iter().any(|a| matches!(it.run(p.entry(), a), Outcome::Stuck(_))) {
            stuck += 1;
            if std::env::var("H01_DEBUG").is_ok() {
                for a in &vs {
                    if let Outcome::Stuck(s) = it.run(p.entry(), a) {
                        eprintln!("interp stuck ({s}) on:\n{}", p.cairo());
                        break;
                    }
                }
            }
            continue;
        }
        progs.push(p);
        vectors.push(vs);
    }
    if crate_idx == 0 {
        for (p, v) in probes() {
            progs.push(p);
            vectors.push(v);
        }
    }
    (progs, vectors, stuck)
}

/// Permanent probes: hand-built programs that once exposed a defect (kept as ASTs so that they go
/// through the reference semantics and the pipeline like every generated program).
pub fn probes() -> Vec<(Program, Vec<Vec<Val>>)> {
    use num_bigint::BigInt;
    let u32t = Ty::Int(Ity::U32);
    let lit = |k: u32| Expr::Lit(Ty::Int(Ity::U32), BigInt::from(k));
    // corpus/C01/loop_in_macro.cairo: a loop inside an inline-macro argument (naming the loop
    // function used to panic in DebugReplacer::enrich_function_names)
    let lp = Expr::Loop(
        8,
        Ty::Bool,
        Box::new(Expr::Block(
            vec![
                Stmt::Expr(Expr::If(
                    Box::new(Expr::Bin(Binop::Ge, u32t.clone(), Box::new(Expr::Var(1)), Box::new(Expr::Var(0)))),
                    Box::new(Expr::Break(Ty::unit(), Box::new(Expr::Bool(true)))),
                    Box::new(unit_expr()),
                )),
                Stmt::Expr(Expr::Assign(
                    1,
                    Box::new(Expr::Bin(Binop::Add, u32t.clone(), Box::new(Expr::Var(1)), Box::new(lit(1)))),
                )),
            ],
            Box::new(unit_expr()),
        )),
    );
    let cond = Expr::Block(vec![Stmt::Let(1, u32t.clone(), lit(0))], Box::new(lp));
    let body = Expr::Block(
        vec![Stmt::Expr(Expr::Assert(Box::new(cond), PanicMsg::Bytes("x".into())))],
        Box::new(Expr::Var(0)),
    );
    let p = Program {
        tag: "probe_loop_in_macro".into(),
        structs: vec![],
        enums: vec![],
        fns: vec![FnDecl { inline: None, params: vec![Param { name: 0, ty: u32t.clone(), by_ref: false }], ret: u32t, body }],
    };
    let vs = [3u32, 0, 7].iter().map(|k| vec![Val::Int(BigInt::from(*k))]).collect();
    vec![(p, vs)]
}

/// Source text of a crate and, per program, the (first, last) line it occupies.
pub fn crate_source(progs: &[Program]) -> (String, Vec<(usize, usize)>) {
    let mut s = String::from(
        "#[allow(unused_imports)]\nuse core::traits::{Into, TryInto};\n#[allow(unused_imports)]\nuse core::array::ArrayTrait;\n",
    );
    let mut ranges = vec![];
    for p in progs {
        let first = s.lines().count() + 1;
        s.push_str(&p.cairo());
        ranges.push((first, s.lines().count()));
    }
    (s, ranges)
}

/// Compiles the programs as one crate; programs the compiler rejects are dropped (and reported).
/// Returns the compiled crate and the indices of the surviving programs.
pub fn compile_programs(
    dir: &Path,
    name: &str,
    progs: &[Program],
    cfg: &Config,
    rejected: &mut Vec<(String, String)>,
) -> Result<(run::Compiled, Vec<usize>), String> {
    let mut alive: Vec<usize> = (0..progs.len()).collect();
    let mut db = run::build_db(cfg);
    for attempt in 0..6 {
        let sel: Vec<Program> = alive.iter().map(|i| progs[*i].clone()).collect();
        let (src, ranges) = crate_source(&sel);
        let path = dir.join(format!("{name}_a{attempt}.cairo"));
        std::fs::write(&path, &src).map_err(|e| e.to_string())?;
        match run::compile(&mut db, &path, cfg) {
            Ok(c) => return Ok((c, alive)),
            Err(CompileError::Internal(e)) => {
                // the compiler itself failed on the crate: find the programs it fails on, one
                // program per crate (cheap: the core library stays cached in the db)
                let mut bad = vec![];
                for (k, i) in alive.iter().enumerate() {
                    let (src1, _) = crate_source(std::slice::from_ref(&progs[*i]));
                    let p1 = dir.join(format!("{name}_a{attempt}_single{k}.cairo"));
                    std::fs::write(&p1, &src1).map_err(|e| e.to_string())?;
                    match run::compile(&mut db, &p1, cfg) {
                        Ok(_) => {}
                        Err(CompileError::Internal(e1)) => {
                            rejected.push((progs[*i].cairo(), format!("INTERNAL: {e1}")));
                            bad.push(*i);
                        }
                        Err(CompileError::Diagnostics(d)) => {
                            let first = d.lines().find(|l| l.starts_with("error")).unwrap_or("").to_string();
                            rejected.push((progs[*i].cairo(), first));
                            bad.push(*i);
                        }
                    }
                }
                if bad.is_empty() {
                    return Err(format!("{e} (on the whole crate only)"));
                }
                alive.retain(|i| !bad.contains(i));
                if alive.is_empty() {
                    return Err("every program was rejected by the compiler".into());
                }
            }
            Err(CompileError::Diagnostics(d)) => {
                // lines " --> path:LINE:COL"
                let mut bad: Vec<usize> = vec![];
                let mut first_msg: BTreeMap<usize, String> = BTreeMap::new();
                let mut last_err = String::new();
                for line in d.lines() {
                    if line.starts_with("error") {
                        last_err = line.to_string();
                    }
                    if let Some(pos) = line.find("-->") {
                        let loc = &line[pos + 3..];
                        // `path:LINE:COL` or `path:LINE:COL-LINE:COL` (the path has no colon)
                        let parts: Vec<&str> = loc.trim().split(':').collect();
                        if parts.len() >= 3 {
                            if let Ok(ln) = parts[1].parse::<usize>() {
                                for (k, (a, b)) in ranges.iter().enumerate() {
                                    if ln >= *a && ln <= *b && last_err.starts_with("error") {
                                        if !bad.contains(&k) {
                                            bad.push(k);
                                        }
                                        first_msg.entry(k).or_insert_with(|| last_err.clone());
                                    }
                                }
                            }
                        }
                    }
                }
                if bad.is_empty() {
                    return Err(format!("crate does not compile and no program could be blamed:\n{}", &d[..d.len().min(3000)]));
                }
                for k in &bad {
                    rejected.push((sel[*k].cairo(), first_msg.get(k).cloned().unwrap_or_default()));
                }
                let drop: Vec<usize> = bad.iter().map(|k| alive[*k]).collect();
                alive.retain(|i| !drop.contains(i));
                if alive.is_empty() {
                    return Err("every program was rejected by the compiler".into());
                }
            }
        }
    }
    Err("programs still rejected after 6 attempts".into())
}

fn flatten_args(args: &[Val]) -> Vec<num_bigint::BigInt> {
    let mut out = vec![];
    for a in args {
        a.flatten(&mut out);
    }
    out
}

fn c01_crate(seed: u64, idx: usize, n_progs: usize, n_vecs: usize, out: &Path) -> CrateRun {
    let mut stats = genp::Stats::default();
    let (progs, vectors, interp_stuck) = generate_crate(seed, idx, n_progs, n_vecs, &mut stats);
    c01_run(idx, progs, vectors, interp_stuck, stats, out)
}

/// Compiles the given programs as one crate (base configuration) and runs every argument vector.
fn c01_run(
    idx: usize,
    progs: Vec<Program>,
    vectors: Vec<Vec<Vec<Val>>>,
    interp_stuck: usize,
    stats: genp::Stats,
    out: &Path,
) -> CrateRun {
    let mut res = CrateRun {
        idx,
        progs,
        vectors,
        cases: vec![],
        rejected: vec![],
        interp_stuck,
        stats,
        compile_s: 0.0,
        run_s: 0.0,
        fatal: None,
        sierra_statements: 0,
    };
    let t0 = std::time::Instant::now();
    let src_dir = out.join("src");
    let compiled = compile_programs(&src_dir, &format!("c01_{idx}"), &res.progs, &Config::base(), &mut res.rejected);
    res.compile_s = t0.elapsed().as_secs_f64();
    let (compiled, alive) = match compiled {
        Ok(x) => x,
        Err(e) => {
            res.fatal = Some(e);
            return res;
        }
    };
    res.sierra_statements = compiled.sierra_statements;
    let t1 = std::time::Instant::now();
    for pi in alive {
        let p = &res.progs[pi];
        let mut it = Interp::new(p);
        let fname = format!("::{}", p.fn_name(p.entry()));
        for (vi, args) in res.vectors[pi].iter().enumerate() {
            let expect = it.run(p.entry(), args);
            let obs = run::run(&compiled, &fname, &flatten_args(args));
            res.cases.push(Case { prog: pi, vec: vi, args: args.clone(), expect, obs });
        }
    }
    res.run_s = t1.elapsed().as_secs_f64();
    res
}

pub fn agrees(e: &Outcome, o: &Obs) -> bool {
    match (e, o) {
        (Outcome::Value(a), Obs::Success(b)) => a == b,
        (Outcome::Panic(a), Obs::Panic(b)) => a == b,
        _ => false,
    }
}

fn write_shards(out: &Path, runs: &[CrateRun]) -> usize {
    // a shard = a few programs with all their cases
    let mut n_shards = 0;
    for r in runs {
        let mut by_prog: BTreeMap<usize, Vec<&Case>> = BTreeMap::new();
        for c in &r.cases {
            by_prog.entry(c.prog).or_default().push(c);
        }
        let progs: Vec<usize> = by_prog.keys().copied().collect();
        for chunk in progs.chunks(6) {
            let mut s = String::from("From C01 Require Import Corr.\nOpen Scope Z_scope.\n");
            let mut cases = vec![];
            for pi in chunk {
                let p = &r.progs[*pi];
                writeln!(s, "(* program {} of crate {} *)", p.tag, r.idx).unwrap();
                writeln!(s, "Definition p_{} : prog := {}.", pi, p.coq()).unwrap();
                for c in &by_prog[pi] {
                    let id = (r.idx * 1_000_000 + c.prog * 1000 + c.vec) as u64;
                    cases.push(format!(
                        "{{| c_id := {}; c_prog := p_{}; c_fn := {}; c_args := [{}]; c_obs := {} |}}",
                        id,
                        pi,
                        p.entry(),
                        c.args.iter().map(|a| a.coq()).collect::<Vec<_>>().join("; "),
                        c.obs.coq()
                    ));
                }
            }
            writeln!(s, "Definition cases : list case := [\n  {}\n].", cases.join(";\n  ")).unwrap();
            s.push_str("Definition ill := Eval vm_compute in illtyped cases.\nPrint ill.\nDefinition bad := Eval vm_compute in check_run cases.\nPrint bad.\n");
            std::fs::write(out.join(format!("c01_{:02}_{:03}.v", r.idx, n_shards)), s).unwrap();
            n_shards += 1;
        }
    }
    n_shards
}

fn main_c01(out: &Path, tier: &str, seed: u64) {
    let (n_crates, n_progs, n_vecs) = if tier == "thorough" { (48, 40, 20) } else { (10, 24, 16) };
    let n_crates = std::env::var("H01_CRATES").ok().and_then(|s| s.parse().ok()).unwrap_or(n_crates);
    let n_progs = std::env::var("H01_PROGS").ok().and_then(|s| s.parse().ok()).unwrap_or(n_progs);
    std::fs::create_dir_all(out.join("src")).unwrap();
    let threads = 14usize;
    let mut runs: Vec<CrateRun> = vec![];
    let next = std::sync::atomic::AtomicUsize::new(0);
    let results = std::sync::Mutex::new(vec![]);
    // the pass-shape family: enumerated programs, in crates of SHAPE_CRATE programs
    const SHAPE_CRATE: usize = 60;
    let shapes = if std::env::var("H01_NO_SHAPES").is_ok() { vec![] } else { shapes::all_shapes(tier) };
    let mut shape_families: BTreeMap<&'static str, usize> = BTreeMap::new();
    for sh in &shapes {
        *shape_families.entry(sh.family).or_default() += 1;
    }
    let shape_chunks: Vec<(usize, Vec<Program>, Vec<Vec<Vec<Val>>>)> = shapes
        .chunks(SHAPE_CRATE)
        .enumerate()
        .map(|(k, c)| (1000 + k, c.iter().map(|s| s.prog.clone()).collect(), c.iter().map(|s| s.vectors.clone()).collect()))
        .collect();
    let n_random = n_crates;
    let n_crates = n_random + shape_chunks.len();
    std::thread::scope(|sc| {
        for _ in 0..threads.min(n_crates) {
            std::thread::Builder::new().stack_size(256 << 20).spawn_scoped(sc, || {
                loop {
                    let i = next.fetch_add(1, std::sync::atomic::Ordering::SeqCst);
                    if i >= n_crates {
                        break;
                    }
                    let r = if i < n_random {
                        c01_crate(seed, i, n_progs, n_vecs, out)
                    } else {
                        let (idx, progs, vectors) = shape_chunks[i - n_random].clone();
                        // a shape the reference interpreter cannot give a meaning to is a bug of the family
                        let stuck = progs
                            .iter()
                            .zip(&vectors)
                            .filter(|(p, vs)| vs.iter().any(|a| matches!(Interp::new(p).run(p.entry(), a), Outcome::Stuck(_))))
                            .count();
                        c01_run(idx, progs, vectors, stuck, genp::Stats::default(), out)
                    };
                    results.lock().unwrap().push(r);
                }
            })
            .expect("spawn");
        }
    });
    runs.extend(results.into_inner().unwrap());
    runs.sort_by_key(|r| r.idx);

    // ---- oracle: the independent interpreter against the pipeline; failing cases are shrunk ----
    let mut failures = vec![];
    for r in &runs {
        let mut seen_prog = vec![];
        for c in &r.cases {
            if !agrees(&c.expect, &c.obs) && !seen_prog.contains(&c.prog) {
                seen_prog.push(c.prog);
                if failures.len() < 4 {
                    let shr = shrink::shrink(out, &r.progs[c.prog], &c.args, failures.len());
                    let replay_path = out.join("shrink").join(format!("replay_{}.cairo", failures.len()));
                    std::fs::create_dir_all(out.join("shrink")).ok();
                    std::fs::write(&replay_path, shr.0.replay_source(&shr.1)).ok();
                    failures.push(serde_json::json!({
                        "why": "the compiled program does not compute what the source means (independent interpreter vs pipeline)",
                        "crate": r.idx, "program": r.progs[c.prog].tag, "args": c.args.iter().map(|a| a.show()).collect::<Vec<_>>(),
                        "expected": format!("{:?}", c.expect), "observed": c.obs.show(),
                        "source": r.progs[c.prog].cairo(),
                        "shrunk_source": shr.0.cairo(), "shrunk_args": shr.1.iter().map(|a| a.show()).collect::<Vec<_>>(),
                        "shrunk_expected": format!("{:?}", shr.2), "shrunk_observed": shr.3.show(),
                        "shrink_rounds": shr.4,
                        "replay_file": replay_path.display().to_string(),
                        "replay": format!("cairo-run --single-file {} (expected: {:?})", replay_path.display(), shr.2),
                        "entry": format!("::{}", shr.0.fn_name(shr.0.entry())),
                    }));
                } else {
                    failures.push(serde_json::json!({
                        "why": "the compiled program does not compute what the source means (not shrunk: limit reached)",
                        "crate": r.idx, "program": r.progs[c.prog].tag, "args": c.args.iter().map(|a| a.show()).collect::<Vec<_>>(),
                        "expected": format!("{:?}", c.expect), "observed": c.obs.show(),
                        "source": r.progs[c.prog].cairo(),
                    }));
                }
            }
        }
    }
    for r in &runs {
        for (src, msg) in &r.rejected {
            if let Some(m) = msg.strip_prefix("INTERNAL: ") {
                failures.push(serde_json::json!({
                    "why": "the compiler panics on a well-typed generated program",
                    "crate": r.idx, "panic": m, "source": src,
                }));
            }
        }
        if let Some(f) = &r.fatal {
            failures.push(serde_json::json!({"why": "a generated crate could not be compiled at all", "crate": r.idx, "panic": f}));
        }
    }
    std::fs::write(out.join("oracle_failures.json"), serde_json::to_string_pretty(&failures).unwrap()).unwrap();

    let n_shards = write_shards(out, &runs);

    // ---- statistics ----
    let mut constructs: BTreeMap<&str, u64> = BTreeMap::new();
    let (mut n_programs, mut n_cases, mut panic_free_some, mut panic_some, mut n_panic_cases) = (0, 0, 0, 0, 0);
    let mut nontrivial = 0usize;
    let mut distinct = std::collections::HashSet::new();
    let mut rejected = vec![];
    let mut fatal = vec![];
    let mut panic_kinds: BTreeMap<String, u64> = BTreeMap::new();
    let mut nodes = 0;
    let mut regen = 0;
    let mut stuck = 0;
    let mut max_depth = 0;
    let mut samples = String::new();
    let mut index = vec![];
    for r in &runs {
        for (k, v) in &r.stats.constructs {
            *constructs.entry(k).or_default() += v;
        }
        nodes += r.stats.nodes;
        regen += r.stats.regenerated_for_cost;
        stuck += r.interp_stuck;
        max_depth = max_depth.max(r.stats.max_depth);
        for (src, msg) in &r.rejected {
            rejected.push(serde_json::json!({"crate": r.idx, "diagnostic": msg, "source": src}));
        }
        if let Some(f) = &r.fatal {
            fatal.push(serde_json::json!({"crate": r.idx, "error": f}));
        }
        let mut by_prog: BTreeMap<usize, Vec<&Case>> = BTreeMap::new();
        for c in &r.cases {
            by_prog.entry(c.prog).or_default().push(c);
        }
        for (pi, cs) in &by_prog {
            n_programs += 1;
            let p = &r.progs[*pi];
            if cs.iter().any(|c| matches!(c.obs, Obs::Success(_))) {
                panic_free_some += 1;
            }
            if cs.iter().any(|c| matches!(c.obs, Obs::Panic(_))) {
                panic_some += 1;
            }
            let src = p.cairo();
            let nt = (src.contains("loop {") || src.contains("while ") || src.contains("match ") || p.fns.len() > 1)
                && src.matches(';').count() >= 3;
            for c in cs.iter() {
                n_cases += 1;
                if let Obs::Panic(d) = &c.obs {
                    n_panic_cases += 1;
                    let k = d.first().map(felt_text).unwrap_or_default();
                    let k = if k.starts_with('a') || k.starts_with('p') || k.starts_with("exp") { "user message".to_string() } else { k };
                    *panic_kinds.entry(k).or_default() += 1;
                }
                if distinct.insert((src.clone(), c.args.clone())) && nt {
                    nontrivial += 1;
                }
                index.push(serde_json::json!({
                    "id": r.idx * 1_000_000 + c.prog * 1000 + c.vec, "program": p.tag,
                    "entry": format!("::{}", p.fn_name(p.entry())),
                    "args": c.args.iter().map(|a| a.show()).collect::<Vec<_>>(),
                    "observed": c.obs.show(), "interp": format!("{:?}", c.expect),
                    "source_file": format!("src/prog_{}.cairo", p.tag),
                }));
            }
            std::fs::write(out.join("src").join(format!("prog_{}.cairo", p.tag)), &src).unwrap();
            if samples.lines().count() < 60 && *pi < 2 {
                writeln!(
                    samples,
                    "--- program {} (entry {}), args ({}) -> {}\n{}",
                    p.tag,
                    p.fn_name(p.entry()),
                    cs[0].args.iter().map(|a| a.show()).collect::<Vec<_>>().join(", "),
                    cs[0].obs.show(),
                    src
                )
                .unwrap();
            }
        }
    }
    std::fs::write(out.join("samples.txt"), samples).unwrap();
    std::fs::write(out.join("cases_index.json"), serde_json::to_string(&index).unwrap()).unwrap();
    let summary = serde_json::json!({
        "crates": runs.len(), "programs": n_programs, "cases": n_cases, "shards": n_shards,
        "shape_programs": shapes.len(), "shape_families": shape_families,
        "distinct_nontrivial": nontrivial,
        "programs_panic_free_on_some_input": panic_free_some,
        "programs_panicking_on_some_input": panic_some,
        "panic_free_pct": if n_programs > 0 { 100.0 * panic_free_some as f64 / n_programs as f64 } else { 0.0 },
        "panicking_pct": if n_programs > 0 { 100.0 * panic_some as f64 / n_programs as f64 } else { 0.0 },
        "panic_cases": n_panic_cases, "panic_kinds": panic_kinds,
        "constructs": constructs, "generated_nodes": nodes, "max_block_depth": max_depth,
        "regenerated_for_cost": regen, "generator_interp_stuck": stuck,
        "rejected_by_compiler": rejected.len(), "rejected": rejected.iter().take(5).collect::<Vec<_>>(),
        "fatal": fatal,
        "oracle_failures": failures.len(),
        "compile_s": runs.iter().map(|r| r.compile_s).fold(0.0, f64::max),
        "run_s": runs.iter().map(|r| r.run_s).fold(0.0, f64::max),
        "sierra_statements": runs.iter().map(|r| r.sierra_statements).sum::<usize>(),
    });
    std::fs::write(out.join("summary.json"), serde_json::to_string_pretty(&summary).unwrap()).unwrap();
    println!(
        "h01 c01: {} programs, {} cases, {} shards, panic-free {:.0}% / panicking {:.0}%, rejected {}, oracle failures {}, fatal {}",
        n_programs,
        n_cases,
        n_shards,
        summary["panic_free_pct"].as_f64().unwrap(),
        summary["panicking_pct"].as_f64().unwrap(),
        rejected.len(),
        failures.len(),
        fatal.len()
    );
}

pub fn felt_text(v: &num_bigint::BigInt) -> String {
    let (_, bytes) = v.to_bytes_be();
    if !bytes.is_empty() && bytes.len() <= 31 && bytes.iter().all(|b| (32..127).contains(b)) {
        String::from_utf8_lossy(&bytes).to_string()
    } else {
        format!("0x{:x}", v)
    }
}

fn main() {
    if std::env::var("H01_BT").is_err() {
        vcommon::quiet_panics();
    }
    let a: Vec<String> = std::env::args().collect();
    if a.len() < 3 {
        eprintln!("usage: h01 <out-dir> <tier> [c01|c05]");
        std::process::exit(2);
    }
    let out = Path::new(&a[1]);
    if a.get(3).map(|s| s.as_str()) != Some("probe") {
        std::fs::create_dir_all(out).unwrap();
    }
    let seed = std::env::var("VERIF_SEED").ok().and_then(|s| s.parse::<u64>().ok()).unwrap_or(1);
    match a.get(3).map(|s| s.as_str()).unwrap_or("c01") {
        "c01" => main_c01(out, &a[2], seed),
        "c05" => c05::main_c05(out, &a[2], seed),
        "probe" => run::probe(out),
        "shrinkcfg" => {
            // h01 <out> <tier> shrinkcfg <crate> <n_progs> <n_vecs> <tag> <needle>
            let mut st = genp::Stats::default();
            let (progs, _, _) = generate_crate(seed, a[4].parse().unwrap(), a[5].parse().unwrap(), a[6].parse().unwrap(), &mut st);
            let p = progs.iter().find(|p| p.tag == a[7]).expect("program tag");
            let q = shrink::shrink_compile_failure(out, p, &a[8]);
            println!("{}", q.cairo());
        }
        m => {
            eprintln!("unknown mode {m}");
            std::process::exit(2);
        }
    }
}
