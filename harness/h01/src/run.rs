//! The real pipeline: Cairo text -> (compiler, a given configuration) -> Sierra -> CASM -> VM.
use std::path::{Path, PathBuf};

use cairo_lang_compiler::db::RootDatabase;
use cairo_lang_compiler::diagnostics::DiagnosticsReporter;
use cairo_lang_compiler::project::setup_project;
use cairo_lang_diagnostics::ToOption;
use cairo_lang_filesystem::cfg::{Cfg, CfgSet};
use cairo_lang_filesystem::db::init_dev_corelib;
use cairo_lang_filesystem::flag::{Flag, FlagsGroup};
use cairo_lang_filesystem::ids::{CrateInput, FlagLongId};
use cairo_lang_lowering::optimizations::config::Optimizations;
use cairo_lang_lowering::utils::InliningStrategy;
use cairo_lang_runner::{Arg, RunResultValue, SierraCasmRunner, StarknetState};
use cairo_lang_sierra_generator::db::SierraGenGroup;
use cairo_lang_sierra_generator::replace_ids::{DebugReplacer, SierraIdReplacer};
use cairo_lang_sierra_to_casm::metadata::MetadataComputationConfig;
use cairo_vm::vm::runners::cairo_runner::RunResources;
use num_bigint::BigInt;
use starknet_types_core::felt::Felt as Felt252;

/// root of the tree under test ($VERIF_REPO, default /repo)
pub fn repo() -> String {
    std::env::var("VERIF_REPO").ok().filter(|s| !s.is_empty()).unwrap_or_else(|| "/repo".to_string())
}
pub fn corelib() -> String {
    format!("{}/corelib/src", repo())
}

#[derive(Clone, Debug, PartialEq, Eq)]
pub enum OptKind {
    Disabled,
    Default,
    Avoid,
    Small(usize),
}

/// One point of the configuration space of C05.
#[derive(Clone, Debug, PartialEq, Eq)]
pub struct Config {
    pub opt: OptKind,
    pub skip_const_folding: bool,
    /// Some(k): the numeric-match optimisation threshold flag is set to k
    pub match_threshold: Option<usize>,
    /// gas accounting on (auto withdraw_gas, metadata computed with the given solver)
    pub gas: Option<Solver>,
}
#[derive(Clone, Copy, Debug, PartialEq, Eq)]
pub enum Solver {
    Linear,
    NonLinear,
}
impl Config {
    /// what `cairo-run` does without `--available-gas`
    pub fn base() -> Self {
        Config { opt: OptKind::Default, skip_const_folding: false, match_threshold: None, gas: None }
    }
    pub fn name(&self) -> String {
        format!(
            "opt={:?},skip_const_folding={},numeric_match_threshold={:?},gas={:?}",
            self.opt, self.skip_const_folding, self.match_threshold, self.gas
        )
    }
}

pub fn build_db(cfg: &Config) -> RootDatabase {
    let mut b = RootDatabase::builder();
    if cfg.gas.is_none() {
        b.skip_auto_withdraw_gas().with_cfg(CfgSet::from_iter([Cfg::kv("gas", "disabled")]));
    }
    let enabled = |s: InliningStrategy| match Optimizations::enabled_with_default_movable_functions(s) {
        Optimizations::Enabled(c) => Optimizations::Enabled(c.with_skip_const_folding(cfg.skip_const_folding)),
        o => o,
    };
    let opt = match cfg.opt {
        OptKind::Disabled => Optimizations::Disabled,
        OptKind::Default => enabled(InliningStrategy::Default),
        OptKind::Avoid => enabled(InliningStrategy::Avoid),
        OptKind::Small(k) => enabled(InliningStrategy::InlineSmallFunctions(k)),
    };
    b.with_optimizations(opt);
    let mut db = b.build().expect("RootDatabase");
    init_dev_corelib(&mut db, PathBuf::from(corelib()));
    if let Some(k) = cfg.match_threshold {
        db.set_flag(
            FlagLongId(Flag::NUMERIC_MATCH_OPTIMIZATION_MIN_ARMS_THRESHOLD.into()),
            Some(Flag::NumericMatchOptimizationMinArmsThreshold(k)),
        );
    }
    db
}

pub struct Compiled {
    pub runner: SierraCasmRunner,
    pub gas: bool,
    pub sierra_statements: usize,
}

#[derive(Debug)]
pub enum CompileError {
    /// diagnostics text (errors)
    Diagnostics(String),
    /// the compiler or the runner set-up panicked / failed without diagnostics
    Internal(String),
}

/// Compiles one single-file crate.
pub fn compile(db: &mut RootDatabase, path: &Path, cfg: &Config) -> Result<Compiled, CompileError> {
    compile_with_program(db, path, cfg).map(|x| x.1)
}

/// Compiles a crate (file or directory); also returns the Sierra program (debug names on).
pub fn compile_with_program(
    db: &mut RootDatabase,
    path: &Path,
    cfg: &Config,
) -> Result<(cairo_lang_sierra::program::Program, Compiled), CompileError> {
    let inputs: Vec<CrateInput> =
        setup_project(db, path).map_err(|e| CompileError::Internal(format!("setup_project: {e:?}")))?;
    let mut s = String::new();
    let failed = vcommon::catch(std::panic::AssertUnwindSafe(|| {
        DiagnosticsReporter::write_to_string(&mut s).with_crates(&inputs).allow_warnings().check(db)
    }))
    .map_err(|e| CompileError::Internal(format!("diagnostics panicked: {e} at {}", vcommon::last_panic_location())))?;
    if failed {
        return Err(CompileError::Diagnostics(s));
    }
    let db = &*db;
    let crate_ids = CrateInput::into_crate_ids(db, inputs);
    let prog = vcommon::catch(std::panic::AssertUnwindSafe(|| {
        db.get_sierra_program(crate_ids).to_option().map(|p| p.clone())
    }))
    .map_err(|e| CompileError::Internal(format!("compiler panicked: {e} at {}", vcommon::last_panic_location())))?
    .ok_or_else(|| CompileError::Internal("no sierra program".into()))?;
    let sierra = vcommon::catch(std::panic::AssertUnwindSafe(|| {
        let mut sierra = prog.program.clone();
        let replacer = DebugReplacer { db };
        replacer.enrich_function_names(&mut sierra);
        replacer.apply(&sierra)
    }))
    .map_err(|e| {
        CompileError::Internal(format!("debug naming panicked: {e} at {}", vcommon::last_panic_location()))
    })?;
    let n = sierra.statements.len();
    let meta = cfg.gas.map(|s| MetadataComputationConfig {
        linear_gas_solver: s == Solver::Linear,
        linear_ap_change_solver: s == Solver::Linear,
        // the comparison of the two solvers is a debug assertion that fires on valid programs
        skip_non_linear_solver_comparisons: s == Solver::NonLinear,
        ..Default::default()
    });
    let sierra_copy = sierra.clone();
    let runner = vcommon::catch(std::panic::AssertUnwindSafe(|| {
        SierraCasmRunner::new(sierra, meta, Default::default(), None)
    }))
    .map_err(|e| CompileError::Internal(format!("runner set-up panicked: {e} at {}", vcommon::last_panic_location())))?
    .map_err(|e| CompileError::Internal(format!("runner: {e:?}")))?;
    Ok((sierra_copy, Compiled { runner, gas: cfg.gas.is_some(), sierra_statements: n }))
}

#[derive(Clone, PartialEq, Eq, Debug)]
pub enum Obs {
    Success(Vec<BigInt>),
    Panic(Vec<BigInt>),
    Error(String),
}
impl Obs {
    pub fn coq(&self) -> String {
        let l = |v: &Vec<BigInt>| format!("[{}]", v.iter().map(crate::ast::coq_z).collect::<Vec<_>>().join("; "));
        match self {
            Obs::Success(v) => format!("OSuccess {}", l(v)),
            Obs::Panic(v) => format!("OPanicked {}", l(v)),
            Obs::Error(_) => "OError".into(),
        }
    }
    pub fn show(&self) -> String {
        let l = |v: &Vec<BigInt>| {
            format!("[{}]", v.iter().map(|x| format!("0x{:x}", x)).collect::<Vec<_>>().join(", "))
        };
        match self {
            Obs::Success(v) => format!("Success {}", l(v)),
            Obs::Panic(v) => format!("Panic {}", l(v)),
            Obs::Error(e) => format!("Error({e})"),
        }
    }
}

pub const AVAILABLE_GAS: usize = 1_000_000_000_000;
pub const MAX_STEPS: usize = 20_000_000;

/// Runs `fname` (suffix of the full path) on the flattened argument cells.
pub fn run(c: &Compiled, fname: &str, cells: &[BigInt]) -> Obs {
    let p = vcommon::stark_prime();
    let args: Vec<Arg> = cells.iter().map(|v| Arg::Value(Felt252::from(((v % &p) + &p) % &p))).collect();
    let r = vcommon::catch(std::panic::AssertUnwindSafe(|| {
        let f = c.runner.find_function(fname).map_err(|e| format!("{e:?}"))?;
        let gas = if c.gas { Some(AVAILABLE_GAS) } else { None };
        let (mut hp, ctx) = c
            .runner
            .prepare_starknet_context(f, args.clone(), gas, StarknetState::default())
            .map_err(|e| format!("{e:?}"))?;
        hp.run_resources = RunResources::new(MAX_STEPS);
        c.runner.run_function_with_prepared_starknet_context(f, &mut hp, ctx).map_err(|e| format!("{e:?}"))
    }));
    match r {
        Ok(Ok(res)) => match res.value {
            RunResultValue::Success(cells) => Obs::Success(cells.iter().map(|f| f.to_bigint()).collect()),
            RunResultValue::Panic(data) => Obs::Panic(data.iter().map(|f| f.to_bigint()).collect()),
        },
        Ok(Err(e)) => Obs::Error(e.chars().take(400).collect()),
        Err(e) => Obs::Error(format!("runner panicked: {e} at {}", vcommon::last_panic_location())),
    }
}

/// Ad-hoc probe (`h01 <file.cairo> x probe`): compiles one file with optimisations disabled and gas on,
/// under the four combinations of the two metadata solver switches, and says what happens.
pub fn probe(path: &Path) {
    for opt in [OptKind::Disabled, OptKind::Default] {
        for (lg, la) in [(true, true), (false, true), (true, false), (false, false)] {
            let cfg = Config { opt: opt.clone(), skip_const_folding: false, match_threshold: None, gas: Some(Solver::Linear) };
            let mut db = build_db(&cfg);
            let inputs = setup_project(&mut db, path).expect("setup_project");
            let db = &db;
            let crate_ids = CrateInput::into_crate_ids(db, inputs);
            let prog = db.get_sierra_program(crate_ids).to_option().map(|p| p.clone()).expect("sierra");
            let replacer = DebugReplacer { db };
            let mut sierra = prog.program.clone();
            replacer.enrich_function_names(&mut sierra);
            let sierra = replacer.apply(&sierra);
            let meta = MetadataComputationConfig {
                linear_gas_solver: lg,
                linear_ap_change_solver: la,
                skip_non_linear_solver_comparisons: true,
                ..Default::default()
            };
            let r = vcommon::catch(std::panic::AssertUnwindSafe(|| {
                SierraCasmRunner::new(sierra.clone(), Some(meta), Default::default(), None).map(|_| ())
            }));
            println!(
                "opt={:?} linear_gas_solver={lg} linear_ap_change_solver={la}: {}",
                opt,
                match r {
                    Ok(Ok(())) => "compiles".to_string(),
                    Ok(Err(e)) => format!("ERROR {e:?}").chars().take(260).collect(),
                    Err(e) => format!("PANIC {e} at {}", vcommon::last_panic_location()),
                }
            );
        }
    }
}
